"""(re)generate MANIFEST.json from the per-property descriptions below and the rule modules that exist"""
import json, os
V = os.path.dirname(os.path.dirname(os.path.abspath(__file__)))
NUM = "Does not decide any numerical behaviour (values of states, matrices, probabilities)."
P = {
 "C01": ("axis-layout abstract interpretation (finite case split) + API table agreement",
         "Decides structural necessary conditions of 'same physics on every backend': the Fock tensor kernels receive the axes of the target modes for every ordered mode choice, pure and mixed, n<=4 (abstract interpretation of apply_twomode_gate / apply_gate_BLAS / prepare_multimode on axis labels); every backend call made by ops._apply resolves to a non-stub method with the declared parameter order; wrappers forward parameters under their own names; N/M update stores are confined, mirrored, not dead. " + NUM,
         "small-scope bound n<=4 (5 thorough) for the layout interpreter, which folds index arithmetic with its own evaluator for the Python subset of the Fock backend (unmodelled constructs fail closed); mode-kind seeds from backends/base.py"),
 "C02": ("class-table + def-use rules on _decompose products; frozen first-parameter table; hbar-power typing of products",
         "Decides: decomposition products of Gate classes are fresh, single-use and Gate-typed (so Gate.decompose can invert them), Gate.decompose flips all and reverses; Gate.apply negates p[0] exactly under dagger; natively applied gates that inherit the first-parameter convention forward p[0] to a backend method for which it is the group law (frozen table); product registers derive from `reg`; every allowed mesh is handled; Compiler.decompose recurses with the option dict and guards primitives; Xgate/Zgate/Gaussian products have the documented hbar power. " + NUM,
         "FIRST_PARAM_SOUND/UNSOUND tables (docstring formulas); hbar-power table; known findings MZgate/Ggate"),
 "C03": ("MRO resolution of merge + frozen family tables; sign-law partial evaluation (finite case split); CFG dominance of merge guards",
         "Decides: which merge rule every concrete operation class resolves to and whether that combination law is its composition law (frozen tables + table-free contradiction); Gate.merge satisfies the sign law for all four dagger combinations (partial evaluation of the method body); merges are guarded by class identity and equality of the remaining parameters, return copies; the optimiser merges only single-wire commands, earlier command as receiver, swallows only MergeFailure, and mutates nothing it was given. " + NUM,
         "ADDITIVE/MULTIPLICATIVE/NOT_GROUP tables; sign evaluator models the Python subset used by Gate.merge (else 'not analysed')"),
 "C04": ("def-use + CFG rules on the reordering routines (who-may-construct, dependency key, guard dominance)",
         "Decides: the dependency key of a command is register union measured-parameter wires for every parameter (Operation.__init__, par_regref_deps incl. object arrays); list_to_grid files commands under exactly those wires; grid_to_DAG links every consecutive pair and keeps single commands; list conversions return a networkx topological sort; group_operations splits by complementary slices; the reordering routines construct and drop no command; GBS.compile keeps its four CircuitError guards and builds the merged measurement on the sorted union of registers. Does NOT decide that the sort yields a legal linearisation or the A/B/C promise for every circuit (algorithmic, over all graphs).",
         "networkx topological sorts are trusted"),
 "C05": ("write-footprint analysis with symbolic index terms; mode-kind inference; CFG first-effect dominance",
         "Decides: every store of a mode-targeted GaussianModes method into nmat/mmat/mean addresses a row/column of its target (footprint), no store is overwritten by a wider one (dead store), off-target loops range over exactly the other modes and cross cells are stored (coverage); BosonicModes methods expand over exactly their own modes in order and expandXY clears off-target noise; every backend wrapper forwards its mode parameters in order (Fock: through _remap_modes); every phase-space preparation resets its target first. " + NUM,
         "mode-kind seeds: parameter names mode/modes/mode1/mode2 in backends/base.py"),
 "C06": ("def-use rules on sample collation / storage; hbar-power typing of outcome conversions; sibling agreement of amplitude conversion",
         "Decides: samples are assembled through sorted(dict keyed by mode index); dict keys are r.ind; the stored column has the index the register has in cmd.reg; Measurement.apply stores the transposed outcome per register; homodyne outcome/select and the MSgate ancilla outcome carry hbar power 1/2 with opposite conversions; exactly one amplitude->quadrature factor lies between a post-selected heterodyne amplitude and the quadrature means in both phase-space backends; Fock outcome un-permutation and project_reset targets. Does NOT decide Born statistics or conditional states (numeric / statistical).",
         "hbar-power table of documented quantities"),
 "C07": ("write-footprint + CFG must-pass (mirror store after every row store)",
         "Decides only the symmetry clause: after every off-diagonal row store into nmat/mmat of GaussianModes every path stores the mirrored column (conjugated for nmat), so N stays Hermitian and M symmetric. Positivity, uncertainty relation, purity, photon-number conservation and trace are numeric and NOT decided.",
         "index-term evaluation of footprint.py"),
 "C08": ("who-may-write tables, CFG dominance of validation guards, routing taint, index-space kinds, length algebra",
         "Decides: RegRefs are constructed only in Program._add_subsystems and their activity / index / map are written only by the owners; Program.append validates targets and parameter dependencies before storing the validated register; _test_regrefs keeps a raising guard per failure class ahead of acceptance; the engine checks can_follow (full reg_refs comparison) before running a successor; Fock mode arguments reach the circuit only through _remap_modes (which raises on deleted modes); phase-space circuit methods test `active` before any effect; state() selects and labels by active mode indices; add_mode grows `active` as much as nlen; measured values are copied by mode index. " + NUM,
         "exception table for whole-array setters (front-end validated modes)"),
 "C09": ("paired-restore template on the CFG incl. exceptional paths; who-may-write + freshness (reaching definitions); mod-set inclusion for reset",
         "Decides: every temporary overwrite (saved = X; X = tmp; X = saved) is undone on every normal and exceptional path (sites found by template); every writer of circuit/p/dagger/reg/op/select/... in the package is a constructor, documented mutator or acts on a receiver that is fresh in that call (no in-place change through a shallow copy); _run binds and locks before running, compiles before can_follow, records every run; reset re-initialises every attribute the run path modifies; cached Fock matrices are not modified in place. Does NOT decide equality of final states across call patterns (numeric).",
         "WRITERS allow-list with reasons in sfa/rules/c09.py"),
 "C10": ("CFG guard dominance, routing taint through par_evaluate, class-table rule on sympy.Symbol subclasses",
         "Decides: evaluation of unmeasured / unbound parameters raises ParameterError ahead of every return and returns regref.val (most recent outcome); bind_params rejects unknown keys; in every _apply values from self.p reach backend calls only through par_evaluate and nothing is cached in self.p; par_evaluate substitutes measured and free atoms through _eval_evalf, element-wise on object arrays; dependency accumulation (shared with C04); q<k> symbols are resolved by mode index; no per-program state on memoised sympy symbols (known finding). Does NOT decide that substitution commutes with compilation numerically.",
         "exception table: GKP arguments are documented non-symbolic"),
 "C11": ("order taint (set iteration), routing taint through the index map, field coverage, dispatch exhaustiveness, may-be-empty summary",
         "Decides: no list in set-iteration order is indexed / enumerated / returned before sorting; the index map is built from a sorted sequence and output registers are sorted; every row/column/position argument addressing the net matrices comes from dict_indices and two-mode helpers get modes[0], modes[1] in order; compilers that fold op.p consult op.dagger; every accepted primitive has a dispatch branch; possibly-empty compile results are not subscripted unguarded. Does NOT decide that the accumulated matrix equals the ordered product (numeric).",
         "known findings: dagger ignored, New/Del dropped, empty merge IndexError"),
 "C15": ("hbar-power type system (abstract interpretation over powers of hbar) + alias-mutation rule",
         "Decides: a type system whose types are powers of hbar over ops.py, the state classes, the bosonic circuit and the apps that call thewalrus: every argument of an hbar-free backend call has power 0, operation parameters stored in self.p and constructor arguments of decomposition products have the documented power, _mu/_cov/_mus/_covs and declared returns (means 1/2, cov 1, quad_expectation (1/2,1), mean_photon 0, wigner -1) agree, no sum/comparison mixes powers, every thewalrus call that receives hbar-scaled data passes hbar=<hbar source>; results that may alias internal state are not rescaled in place. A wrong power of hbar is wrong for every hbar != 2 and invisible at 2. Does NOT decide constant factors (2 vs sqrt 2).",
         "hbar-power declarations in sfa/rules/common_hbar.py (each from the documented formula)"),
 "C12": ("CFG dominance of validation calls and raising guards; op-clone field coverage",
         "Decides: Program.compile cannot return a program for a device with gate-parameter ranges without validate_gate_parameters(compiled); assert_modes precedes decomposition; validate_gate_parameters reaches device.validate_parameters with the parameters matched from the layout and turns a template mismatch into CircuitError; Device.validate_parameters raises for unknown names and out-of-range scalar / array values; Range is two-sided; the mode-count limits and every structural precondition of the X-series compilers (even modes, all measured, S2 placement and phases, passive, bipartite, symmetric, topology, fixed parameters) are raising CircuitError guards; re-instantiated measurements keep select / dark counts (known finding). Does NOT decide layout isomorphism, range membership of computed values or equality of photon statistics (graph / numeric).",
         "guards are recognised by the quantities their tests mention (see sfa/rules/c12.py)"),
 "C13": ("op-clone field coverage; mod-set inclusion (undo completeness); paired-restore on the CFG; order taint",
         "Decides: unrolling keeps dagger / select / dark counts of the template operations and substitutes the value of the current time bin into a copy of the parameter list; every attribute modified by unroll / space_unroll is restored by roll or is a listed cache (known finding: the register maps); cached unrolled circuits are reused only for the same number of shots; the lock flag is restored on every normal and exceptional path; measured_modes is sorted and reshape_samples receives the program's attributes in declared order. Does NOT decide equality of joint states between unrolling strategies or the sample reshaping arithmetic (numeric on runtime shapes).",
         "cache table in sfa/rules/c13.py"),
 "C14": ("field coverage of the writers; key / name table agreement between writers and readers",
         "Decides: each writer (to_blackbird, to_xir, generate_code) reads p, select, dark_counts, dagger and the mode indices of every command (known findings: dagger by none, select / dark counts by generate_code); every option key written by to_xir is read under the same name and vice versa; Blackbird target / shots / cutoff agree; every operation class a writer can emit is loadable by name (known findings); q<k> symbols are resolved by mode index. Does NOT decide semantic equality of the reloaded program or the behaviour of the Blackbird / XIR libraries.",
         "ops.__all__ is reconstructed from the class groups it is built from"),
 "C16": ("forward parameter flow (selecting vs counting uses); alias-mutation; hbar-power typing; label derivation",
         "Decides: in every state-class method the mode / modes argument selects the data (reaches a subscript, a data-selecting call or controls the construction of the index expression) instead of only being counted; results that may alias internal arrays are not modified in place; the state-class formulas are hbar-power consistent with the declared slots and returns; state() labels derive from the selected active mode indices. Does NOT decide cross-method numeric identities.",
         "hbar-power declarations; NONSEL list of counting / validating calls"),
 "C17": ("CFG dominance of raising precondition guards, with delegation through calls that pass the input on unchanged",
         "Decides only the last sentence of the property: every public decomposition routine establishes each documented precondition class (square, symmetric, unitary, even, positive definite, symplectic, minimum size) with a raising ValueError guard that dominates every return, directly or through a routine it hands its input to. Reconstruction accuracy, structure of the factors and degenerate spectra are numeric and NOT decided.",
         "REQUIRED precondition table from the docstrings"),
 "C18": ("field coverage of the comparison routines; CFG guard (length) ; relation shape",
         "Decides: Program.__eq__ compares class, parameters, modes and dagger of both commands and every computed flag reaches the verdict; the circuits' lengths are compared before zipping; program_equivalence matches nodes on name, parameters, dagger and wire attribute, keeps the identity shortcut and prepares both programs alike (known finding: wires of generic operations are the constant 0). Does NOT decide completeness (equivalent programs reported inequivalent) or the commuting-reorder clause (graph isomorphism semantics).",
         "networkx is_isomorphic is trusted"),
 "C19": ("numeric-kind lattice (integer-exact vs float) on return derivations; index-space kinds per reaching definition; guard dominance and taint on clique growth; order taint",
         "Decides: orbit / event cardinalities are built from integer-exact operations only; every index obtained by searching / sampling positions of an array is used only on arrays aligned with the same base sequence (uniform and weighted branches separately); grow / swap validate their input before modifying it, add only nodes from c_0 / c_1 of the current clique, recompute candidates; c_0 / c_1 / is_clique keep their defining tests; node lists are sorted, never in set order. Does NOT decide densities or search quality (numeric / random).",
         "alignment inference of sfa/indexspace.py"),
 "C20": ("hbar-power typing of thewalrus call sites; passive-gate table; per-mode index agreement and operator order",
         "Decides: A_to_cov scales with sf.hbar and every thewalrus call that receives hbar-scaled data passes hbar (functions with an hbar parameter found by parsing the installed library source); TimeEvolution emits only photon-number conserving gate classes, one rotation per mode with that mode's angle, sandwiched between Interferometer(Ul.T) and Interferometer(Ul); VibronicTransition applies U1, S(r), U2, D(alpha) in the Doktorov order with per-mode index agreement and gbs_params returns the SVD factors in the consumed order. Does NOT decide gradients, normalisation or Duschinsky faithfulness (numeric).",
         "PASSIVE gate table"),
}
def main():
    m = json.load(open(os.path.join(V, "MANIFEST.json")))
    extra = os.path.join(V, "tools", "manifest_extra.json")
    PX = dict(P)
    if os.path.exists(extra):
        for k, v in json.load(open(extra)).items():
            PX[k] = tuple(v)
    props = [json.loads(l) for l in open(os.path.join(V, "properties.jsonl"))]
    na_reasons = json.load(open(os.path.join(V, "tools", "na_reasons.json"))) if os.path.exists(os.path.join(V, "tools", "na_reasons.json")) else {}
    checks, na = [], []
    for p in props:
        pid = p["id"]
        if os.path.exists(os.path.join(V, "sfa", "rules", pid.lower() + ".py")) and pid in PX:
            tech, text, note = PX[pid]
            checks.append({
                "property_id": pid,
                "quick_cmd": f"./check {pid} --tier quick",
                "thorough_cmd": f"./check {pid} --tier thorough",
                "evidence_file": f"evidence/{pid}.json",
                "replay_cmd_template": f"./check {pid} --replay {{path}}",
                "engine": "sfa",
                "level_claimed": {"category": "other", "text": text, "design_ref": f"DESIGN.md section 3, {pid}"},
                "level_note": "Trusted base: CPython ast; class/alias/call resolution of sfa; no run-time rebinding of methods; " + note,
                "technique": "static analysis: " + tech,
            })
        else:
            na.append({"property_id": pid, "reason": na_reasons.get(pid, "check not implemented yet (work in progress; see DESIGN.md for the planned structural rules)")})
    m["checks"] = checks
    m["not_applicable"] = na
    m["engines"] = [{"name": "sfa", "path": "sfa/", "serves_properties": [c["property_id"] for c in checks],
                     "kind_free_text": "purpose-built static analyser over the ast of /repo/strawberryfields: class table, CFG with exceptional edges, reaching definitions / derives-from, write footprints, mode-kind and index-space inference, hbar-power typing, sign-law and axis-layout partial evaluation; pure stdlib, nothing from the repository is imported or run"}]
    m["notes"] = "Static analysis only. Every check re-parses /repo's working tree. Exit 0 ok (KNOWN-FINDING lines for listed defects), 1 VIOLATION, 2 ANALYSIS-ERROR. thorough = quick + two-sided self-test of the checker (mutation witnesses / behaviour-preserving twins on scratch copies). fix: commits in /repo and recorded defects: known_findings.json."
    json.dump(m, open(os.path.join(V, "MANIFEST.json"), "w"), indent=1)
    print(len(checks), "checks;", len(na), "not applicable")
main()
