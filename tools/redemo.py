"""re-validate confirmed seeded changes against the CURRENT /repo HEAD (later `fix:` commits may have changed the code a seed touches):
in scratch worktrees apply each patch and run its demo (must fail), and run the demo on the clean tree (must pass). The outcome is
recorded in confirm.json under "redemo"; a seed whose patch no longer applies or whose demo no longer discriminates gets "ok": false.

usage: redemo.py <seed root> [...]   (worktrees /tmp/redemo_wt<i>, removed afterwards)"""
import glob, json, os, subprocess, sys, concurrent.futures as cf, threading, queue
N = 6
def sh(cmd, **kw):
    return subprocess.run(cmd, shell=True, capture_output=True, text=True, **kw)
HEAD = sh("git -C /repo rev-parse --short HEAD").stdout.strip()
pool = queue.Queue()
def demo(wt, d):
    env = dict(os.environ, PYTHONPATH=wt, OMP_NUM_THREADS="2", OPENBLAS_NUM_THREADS="2")
    try:
        r = subprocess.run(["/venv/bin/python", os.path.join(d, "demo.py")], cwd=wt, env=env, capture_output=True, text=True, timeout=600)
        return r.returncode, (r.stdout + r.stderr)[-300:]
    except subprocess.TimeoutExpired:
        return -9, "timeout"
def one(cj):
    d = os.path.dirname(cj)
    c = json.load(open(cj))
    if not c.get("ok") or (c.get("redemo") or {}).get("head") == HEAD or c.get("head") == HEAD:
        return d, "skip"
    wt = pool.get()
    try:
        sh(f"git -C {wt} checkout -q --detach {HEAD}; git -C {wt} checkout -- .; git -C {wt} clean -fdq")
        rc0, _ = demo(wt, d)
        a = sh(f"git -C {wt} apply {d}/patch.diff")
        if a.returncode != 0:
            a = sh(f"cd {wt} && patch -p1 -s < {d}/patch.diff")
        if a.returncode != 0:
            c["redemo"] = {"head": HEAD, "error": "patch does not apply"}
            c["ok"] = False
        else:
            rc1, tail = demo(wt, d)
            c["redemo"] = {"head": HEAD, "clean": rc0, "patched": rc1, "tail": tail}
            if rc0 != 0 or rc1 == 0:
                c["ok"] = False
        sh(f"git -C {wt} checkout -- .; git -C {wt} clean -fdq")
        json.dump(c, open(cj, "w"), indent=1)
        return d, c["redemo"]
    finally:
        pool.put(wt)
def main():
    for i in range(N):
        wt = f"/tmp/redemo_wt{i}"
        if not os.path.isdir(wt):
            sh(f"git -C /repo worktree add -q --detach {wt} HEAD")
        pool.put(wt)
    import re
    filt = re.compile(os.environ.get("REDEMO_FILTER", "."))
    cjs = [cj for root in sys.argv[1:] for cj in sorted(glob.glob(root + "/C*/[0-9]/confirm.json")) if filt.search(cj)]
    with cf.ThreadPoolExecutor(N) as ex:
        for d, r in ex.map(one, cjs):
            if r != "skip":
                bad = isinstance(r, dict) and (r.get("error") or r.get("clean") != 0 or r.get("patched") == 0)
                print(d, "NO LONGER VALID" if bad else "ok", {k: v for k, v in r.items() if k != "tail"} if isinstance(r, dict) else r, flush=True)
    for i in range(N):
        sh(f"git -C /repo worktree remove --force /tmp/redemo_wt{i}")
main()
