"""write sfa/rules/param_inventory.json from the CURRENT tree (run by hand when the reference tree is re-pinned; the checks
only read the file).  Every unread parameter gets a reason: structural ones are generated, the others are listed below."""
import json, os, sys
V = os.path.dirname(os.path.dirname(os.path.abspath(__file__)))
sys.path.insert(0, V)
from sfa.loader import Tree
from sfa.rules.common_params import unread_params, _is_stub, conforming, attr_counts

HAND = {
    "ops.py::warning_on_one_line": "signature of warnings.formatwarning (message, category, filename, lineno, file, line)",
    "backends/tfbackend/ops.py::warning_on_one_line": "signature of warnings.formatwarning",
    "parameters.py::MeasuredParameter._sympystr": "sympy printer hook: the printer argument is part of the protocol",
    "parameters.py::FreeParameter._sympystr": "sympy printer hook: the printer argument is part of the protocol",
    "parameters.py::MeasuredParameter._eval_evalf": "sympy evalf hook: precision argument is part of the protocol",
    "parameters.py::FreeParameter._eval_evalf": "sympy evalf hook: precision argument is part of the protocol",
    "backends/tfbackend/__init__.py::excepthook": "signature of sys.excepthook (type, value, traceback)",
    "utils/gbs_analysis.py::gbs_runtime": "documented tuning constant that the implemented formula does not use (outside every property)",
}
t = Tree()
funcs, unused = [], {}
for f in t.all_functions():
    fid = f"{f.module.rel}::{f.qualname}"
    funcs.append(fid)
    for p in unread_params(f):
        if _is_stub(f.node):
            why = "stub / abstract method: the body only raises, passes or returns a constant"
        elif conforming(t, f):
            why = f"keeps the signature of the method `{f.name}` shared with its base / derived classes"
        elif fid in HAND:
            why = HAND[fid]
        else:
            raise SystemExit(f"unread parameter without a reason: {fid}::{p}")
        unused[f"{fid}::{p}"] = why
reads = {}
for f in t.all_functions():
    c = attr_counts(f)
    if c:
        reads[f"{f.module.rel}::{f.qualname}"] = dict(sorted(c.items()))
    else:
        reads[f"{f.module.rel}::{f.qualname}"] = {}
json.dump({"functions": sorted(funcs), "unused": dict(sorted(unused.items())), "attr_reads": dict(sorted(reads.items()))},
          open(os.path.join(V, "sfa", "rules", "param_inventory.json"), "w"), indent=0)
print(len(funcs), "functions;", len(unused), "unread parameters recorded")
