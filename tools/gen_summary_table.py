"""regenerate the rule / obligation columns of the summary table in DESIGN.md section 0 from the evidence files of the last run
(the 'engines' and 'not decided' columns are kept as written).   /venv/bin/python tools/gen_summary_table.py [--write]"""
import json, os, re, sys
V = os.path.dirname(os.path.dirname(os.path.abspath(__file__)))
GENERIC = ("param-used", "pitfalls", "attr-swap")
def row(pid):
    c = json.load(open(os.path.join(V, "evidence", pid + ".json")))["coverage"]
    rules = c["rules"]
    own = {r.split(".", 1)[1]: n for r, n in rules.items() if r.split(".", 1)[1] not in GENERIC}
    gen = sum(n for r, n in rules.items() if r.split(".", 1)[1] in GENERIC)
    names = ", ".join(sorted(own, key=lambda r: -own[r]))
    return names, sum(own.values()), gen, c["obligations"]
def main():
    p = os.path.join(V, "DESIGN.md")
    s = open(p).read()
    out = []
    for line in s.splitlines():
        m = re.match(r"^\| (C\d\d) \| (.*?) \| (.*?) \| (.*?) \| (.*?) \|$", line)
        if m:
            names, nown, ngen, tot = row(m.group(1))
            line = f"| {m.group(1)} | {names} | {nown} + {ngen} | {m.group(4)} | {m.group(5)} |"
        out.append(line)
    s2 = "\n".join(out) + "\n"
    if "--write" in sys.argv:
        open(p, "w").write(s2)
    else:
        for l in out:
            if re.match(r"^\| C\d\d \|", l):
                print(l[:230])
main()
