"""print a python file without docstrings (keeps line numbers) - reading aid only"""
import ast, sys
def main(path, lo=None, hi=None):
    src = open(path).read(); lines = src.splitlines(); tree = ast.parse(src)
    skip = set()
    for n in ast.walk(tree):
        if isinstance(n, (ast.FunctionDef, ast.ClassDef, ast.Module, ast.AsyncFunctionDef)):
            b = n.body
            if b and isinstance(b[0], ast.Expr) and isinstance(b[0].value, ast.Constant) and isinstance(b[0].value.value, str):
                for i in range(b[0].lineno, b[0].end_lineno + 1): skip.add(i)
        # attribute docstrings (string expression statements)
        if isinstance(n, ast.Expr) and isinstance(n.value, ast.Constant) and isinstance(n.value.value, str):
            for i in range(n.lineno, n.end_lineno + 1): skip.add(i)
    for i, l in enumerate(lines, 1):
        if lo and i < lo: continue
        if hi and i > hi: break
        if i in skip or not l.strip(): continue
        print(f"{i:5d} {l}")
if __name__ == '__main__':
    a = sys.argv
    main(a[1], int(a[2]) if len(a) > 2 else None, int(a[3]) if len(a) > 3 else None)
