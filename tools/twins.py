"""realistic behaviour-preserving / purely additive edits a maintainer could make (a new gate with its decomposition, a new state
method, a helper extracted, a function renamed consistently, type hints, logging, a new optional argument that is forwarded): each is
applied to a scratch copy of the package and ALL checks must report exactly what they report on the unchanged tree.

    /venv/bin/python tools/twins.py [name ...]

Development tool (the per-property twins live in sfa/cases); complements tools/benign.py (whole-package syntactic transforms)."""
import os, sys, shutil, subprocess, tempfile, re, concurrent.futures as cf

V = os.path.dirname(os.path.dirname(os.path.abspath(__file__)))
REPO = os.environ.get("SFA_REPO", "/repo")
PROPS = ["C%02d" % i for i in range(1, 21)]


def sub(rel, old, new, count=1):
    def f(root):
        p = os.path.join(root, "strawberryfields", rel)
        s = open(p).read()
        assert old in s, (rel, old[:60])
        open(p, "w").write(s.replace(old, new, count))
    return f


def resub(rel, pat, repl):
    def f(root):
        p = os.path.join(root, "strawberryfields", rel)
        s = open(p).read()
        s2, n = re.subn(pat, repl, s)
        assert n, (rel, pat)
        open(p, "w").write(s2)
    return f


def rename_everywhere(old, new):
    def f(root):
        n = 0
        for d, _, fs in os.walk(os.path.join(root, "strawberryfields")):
            for fn in fs:
                if fn.endswith(".py"):
                    p = os.path.join(d, fn)
                    s = open(p).read()
                    s2 = re.sub(r"\b%s\b" % re.escape(old), new, s)
                    if s2 != s:
                        n += 1
                        open(p, "w").write(s2)
        assert n
    return f


NEW_GATE = '''
class HalfRgate(Gate):
    r"""Rotation by half the given angle (convenience gate)."""

    def __init__(self, theta):
        super().__init__([theta])

    def _decompose(self, reg, **kwargs):
        return [Command(Rgate(self.p[0] / 2), reg)]


class BSgate(Gate):'''

NEW_STATE_METHOD = '''
    def mean_photon_total(self, **kwargs):
        """Total mean photon number over all modes."""
        return sum(self.mean_photon(m, **kwargs)[0] for m in range(self._modes))

    def __str__(self):'''

TWINS = {
    "new-gate-with-decomposition": [
        sub("ops.py", "\nclass BSgate(Gate):", NEW_GATE),
        sub("ops.py", "one_args_gates = (Xgate, Zgate, Rgate, Pgate,", "one_args_gates = (Xgate, Zgate, Rgate, HalfRgate, Pgate,"),
    ],
    "new-state-method": [sub("backends/states.py", "\n    def __str__(self):", NEW_STATE_METHOD)],
    "rename-helper-everywhere": [rename_everywhere("get_qumodes_operated_upon", "qumodes_of"), rename_everywhere("_apply_one_mode_gate", "_one_mode"),
                                 rename_everywhere("remove_invalid_operations", "drop_invalid_operations")],
    "rename-private-method": [rename_everywhere("_remap_modes", "_positions_of"), rename_everywhere("_combine_and_sort_samples", "_merge_samples"), rename_everywhere("_test_regrefs", "_check_regrefs")],
    "type-hints-and-logging": [
        sub("program.py", "    def compile(self, *, device=None, compiler=None, **kwargs):", "    def compile(self, *, device=None, compiler=None, **kwargs) -> \"Program\":"),
        sub("engine.py", "import numpy as np\n", "import numpy as np\nimport logging\n_log = logging.getLogger(__name__)\n"),
        resub("engine.py", r"(\n    def reset\(self, backend_options=None\):\n(?:        .*\n|\n)*?        )(backend_options = )", r"\1_log.debug('engine reset')\n        \2"),
    ],
    "extract-helper-in-optimizer": [
        sub("program.py", "    def optimize(self):", "    def _optimized_circuit(self):\n        return pu.optimize_circuit(self.circuit)\n\n    def optimize(self):"),
        sub("program.py", "opt.circuit = pu.optimize_circuit(self.circuit)", "opt.circuit = self._optimized_circuit()"),
    ],
    "constants-hoisted": [
        sub("ops.py", "_decomposition_merge_tol = 1e-13", "_decomposition_merge_tol = 1e-13\n_HALF_PI = np.pi / 2"),
        sub("ops.py", "MeasureP = MeasureHomodyne(np.pi / 2)", "MeasureP = MeasureHomodyne(_HALF_PI)"),
    ],
    "new-optional-argument-forwarded": [
        sub("apps/similarity.py", "def event_to_sample(photon_number: int, max_count_per_mode: int, modes: int) -> list:", "def event_to_sample(photon_number: int, max_count_per_mode: int, modes: int, rng=None) -> list:"),
        sub("apps/similarity.py", "    orbit = orbs[np.random.choice(len(prob), p=prob)]", "    orbit = orbs[(rng or np.random).choice(len(prob), p=prob)]"),
    ],
    "engine-loop-enumerated": [
        sub("engine.py", "        for p in program:\n\n            if self.backend.compiler:", "        for seg_no, p in enumerate(program):\n            _ = seg_no\n\n            if self.backend.compiler:"),
    ],
    "homodyne-angle-normalised-local": [
        sub("backends/gaussianbackend/backend.py", "        self.circuit.phase_shift(-phi, mode)\n\n        if select is None:\n            eps = kwargs.get(\"eps\", 0.0002)",
            "        angle = -phi\n        self.circuit.phase_shift(angle, mode)\n\n        if select is None:\n            eps = kwargs.get(\"eps\", 0.0002)"),
    ],
    "validation-helper-extracted": [
        sub("ops.py", "class MeasureFock(Measurement):", "def _as_sequence(x):\n    return x if isinstance(x, Sequence) else [x]\n\n\nclass MeasureFock(Measurement):"),
    ],
    "decomposition-tolerance-constant-renamed": [rename_everywhere("_decomposition_tol", "_DECOMP_TOL")],
    "new-compiler-subclass": [
        sub("compilers/__init__.py", "from .passive import Passive\n", "from .passive import Passive\n\n\nclass PassiveStrict(Passive):\n    \"\"\"Passive compiler under a second name.\"\"\"\n\n    short_name = \"passive_strict\"\n"),
    ],
    "state-repr-extended": [
        sub("backends/states.py", "    def __str__(self):", "    def describe(self):\n        \"\"\"One-line description.\"\"\"\n        return \"{} modes, hbar={}\".format(self._modes, self._hbar)\n\n    def __str__(self):"),
    ],
    "docstrings-and-comments": [
        resub("decompositions.py", r'(\ndef bloch_messiah\(S, tol=1e-10, rounding=9\):\n    r""")', r"\1(edited) "),
        resub("compilers/gaussian_merge.py", r"# Fix order of operations", "# put the operations into circuit order"),
        resub("backends/gaussianbackend/gaussiancircuit.py", r"(\nclass GaussianModes:\n)", r"\n# a comment block\n# spanning two lines\1"),
    ],
}


def run(prop, root, evd):
    env = dict(os.environ, SFA_REPO=root, SFA_EVIDENCE_DIR=evd)
    r = subprocess.run([os.path.join(V, "check"), prop, "--tier", "quick"], cwd=V, env=env, capture_output=True, text=True)
    keys = sorted(l.split("key=")[-1].strip() for l in r.stdout.splitlines() if "key=" in l and not l.startswith("KNOWN"))
    known = sum(1 for l in r.stdout.splitlines() if l.startswith("KNOWN-FINDING"))
    err = [l for l in r.stdout.splitlines() if "ANALYSIS-ERROR" in l]
    lines = [l for l in r.stdout.splitlines() if "key=" in l and not l.startswith("KNOWN")]
    return prop, r.returncode, keys, known, err, lines


def main():
    names = sys.argv[1:] or list(TWINS)
    with cf.ThreadPoolExecutor(8) as ex:
        base = {r[0]: r for r in ex.map(lambda p: run(p, REPO, tempfile.mkdtemp(prefix="sfa_tev_")), PROPS)}
    bad = 0
    for nm in names:
        tmp = tempfile.mkdtemp(prefix="sfa_twin_")
        try:
            shutil.copytree(os.path.join(REPO, "strawberryfields"), os.path.join(tmp, "strawberryfields"))
            for f in TWINS[nm]:
                f(tmp)
            c = subprocess.run(["/venv/bin/python", "-m", "compileall", "-q", os.path.join(tmp, "strawberryfields")], capture_output=True, text=True)
            assert c.returncode == 0, c.stdout[-500:]
            with cf.ThreadPoolExecutor(8) as ex:
                res = list(ex.map(lambda p: run(p, tmp, os.path.join(tmp, "ev")), PROPS))
            nb = 0
            for prop, rc, keys, nk, err, lines in res:
                if rc != 0 or nk != base[prop][3]:
                    nb += 1
                    print(f"[{nm}] {prop} rc={rc} known={nk} (baseline {base[prop][3]})")
                    for l in lines[:6]:
                        print("     ", l[:400])
                    for e in err:
                        print("     ", e[:400])
            bad += nb
            print(f"[{nm}] {20 - nb}/20 checks as on the unchanged tree", flush=True)
        finally:
            shutil.rmtree(tmp, ignore_errors=True)
    sys.exit(1 if bad else 0)


main()
