"""copy confirmed seeded changes from /tmp/seed_out into /verif/seeded/<id>/ with meta.json
(which property, what it needs to manifest, what was run, which checks catch it)."""
import json, os, shutil, subprocess, sys
V = os.path.dirname(os.path.dirname(os.path.abspath(__file__)))
sys.path.insert(0, os.path.join(V, "tools"))
import seedeval

NEEDS = {
 "C01/1": ("GaussianModes.thermal_loss adds the bath noise to the whole row k of N", "register with more than one mode, ThermalLossChannel with nbar != 0 and T != 1 on a mode correlated with another; compare with the bosonic backend"),
 "C01/2": ("mixed branch of Fock apply_twomode_gate gets the pure-branch guard `if t2 == 0: t2 = t1`", "Fock backend in mixed representation and a BS/MZ/S2 gate whose second target is mode 0, e.g. (q[1], q[0])"),
 "C01/3": ("MZgate/sMZgate._decompose reuse one BSgate object in two commands", "daggered MZgate on a backend that decomposes it, non-vacuum input (the shared object is dagger-flipped twice)"),
 "C02/1": ("MZgate._decompose shares one BSgate object between both beamsplitter commands", "MZgate(...).H, decomposing target (gaussian/bosonic), non-vacuum input"),
 "C02/2": ("_sun_compact_cmds skips SU(2) blocks with beamsplitter angle b == 0 (drops their phase shifts)", "mesh='sun_compact' and a degenerate unitary (block diagonal / diagonal phases) so that a block has b == 0 exactly"),
 "C02/3": ("graph_embed make_traceless zeroes the diagonal instead of subtracting tr(A)/n", "make_traceless=True and unequal diagonal entries (numeric: outside the structural rules)"),
 "C03/1": ("Gate.merge folds both dagger flags into signs but keeps self.dagger on the copy", "first gate of a same-family pair daggered and the pair not cancelling, then optimize"),
 "C03/2": ("optimize_circuit calls b.op.merge(a.op) instead of a.op.merge(b.op)", "two neighbouring single-mode preparations (order-sensitive merge) with optimisation on"),
 "C03/3": ("Program.optimize writes opt.circuit[:] = ... through the shallow linked copy", "explicit optimize() on a program that gets simplified, then look at / reuse the original program"),
 "C04/1": ("grid_to_DAG chains each command to the last command really acting on the mode (drops measured-parameter edges)", "feed-forward gate, then re-use and re-measurement of the measured mode, on a reordering path (optimize)"),
 "C04/2": ("GBS.compile tracks measured modes as indices and builds the merged register with registers[i]", "a deleted mode with an index below a Fock-measured mode, compiler='gbs'"),
 "C04/3": ("Command.get_dependencies returns early for ns == 0 operations", "program with ops.New() that goes through a DAG conversion (optimize / gbs compile)"),
 "C05/1": ("prepare_multimode takes the spectators' reduced state with tensordot(state, conj, axes=(modes, modes)) without re-interleaving", "pure Fock register, >= 2 spectators in a non-symmetric state, preparation on another mode"),
 "C05/2": ("GaussianModes.init_thermal clears row/column of N but only the diagonal of M", "thermal preparation on a mode that shares squeezing-type correlations (after S2gate)"),
 "C05/3": ("fockbackend.ops.partial_trace loops np.trace without sorting the modes", "Del / Ket on a non-ascending mode list, e.g. Del | (q[2], q[0]) with non-vacuum spectators"),
 "C06/1": ("measure_fock re-orders the sampled outcome with the forward instead of the inverse permutation", "one MeasureFock on >= 3 modes listed in a cyclic order, e.g. (q[2], q[0], q[1])"),
 "C06/2": ("bosonic rejection sampler drops the per-peak Gaussian normalisation", "sampled homodyne on a state whose peaks have different covariances (Fock(1)); statistical - outside the structural rules"),
 "C06/3": ("_combine_and_sort_samples uses dict.values() instead of sorted(items())", "modes measured in non-ascending order"),
 "C07/1": ("Gaussian post_select_heterodyne drops + covmat in the covariance update only", "post-selected heterodyne on a mode entangled with another mode"),
 "C07/2": ("Fock lossChannel drops the last Kraus operator (range(trunc - 1))", "LossChannel with 0 < T < 1 on a state with population in the top Fock level"),
 "C07/3": ("bosonic prepare_gkp normalises before the amplitude-cutoff filter", "GKP with a coarse non-default ampl_cutoff (1e-2)"),
 "C08/1": ("FockBackend.state builds mode_names from positions", "Fock backend, a lower-indexed mode deleted before the state is requested"),
 "C08/2": ("Program.can_follow compares only the live RegRefs", "two segments on one engine: New then Del in the first, an independent Program that itself calls New in the second"),
 "C08/3": ("GaussianModes.add_mode adds one activity slot whatever n", "New(n >= 2) on the Gaussian backend"),
 "C09/1": ("Gate.apply loses its try/finally", "daggered gate, exception inside _apply (unbound parameter), re-run of the same Program object"),
 "C09/2": ("_linked_copy copies only unused_indices / init_unused_indices", "compile(..., shots=, cutoff_dim=) followed by reuse of the original program"),
 "C09/3": ("engine copies measured values from prev.reg_refs instead of its own samples_dict", "the same Program run on two engines interleaved, with cross-segment feed-forward"),
 "C10/1": ("engine copies v[0] instead of v[-1] into the successor's RegRefs", "two chained programs, a mode measured twice in the first, its .par used in the second"),
 "C10/2": ("MeasuredParameter._eval_evalf tests `if not res`", "a feed-forward value that is exactly 0 (MeasureFock on vacuum, select=0)"),
 "C10/3": ("Program.params uses setdefault(a, FreeParameter(a))", "prog.params(name) called again for an existing parameter after binding it"),
 "C11/1": ("GaussianUnitary builds ord_reg as [registers[ind] for ind in used_modes]", "program continuing a parent program in which a lower-indexed mode was deleted"),
 "C11/2": ("Passive compiler expands a >= 3-mode PassiveChannel into a real-dtype identity", "complex-valued PassiveChannel on 3+ modes (numeric dtype loss: outside the structural rules)"),
 "C11/3": ("gaussian_merge.valid_prepend_op_addition mixes up op / pre after hoisting", "hybrid circuit with a non-Gaussian op on some of a block's modes and >= 2 consecutive gates on the other arm (algorithmic: DAG surgery)"),
 "C12/1": ("Xunitary emits the merged S2gate with phase 0", "the same (signal, idler) pair carries more than one S2gate with a common non-zero phase"),
 "C12/2": ("Device.validate_parameters checks only min and max of array-valued parameters", "TDM array parameter whose allowed set is a union of ranges, offending value inside a gap"),
 "C12/3": ("Borealis.update_params skips loops whose certificate phase is 0", "loop phase exactly 0 for loop 1 or 2 while an earlier loop is non-zero (algorithmic / numeric)"),
 "C13/1": ("get_tdm_options hoists everything under `if not program.is_unrolled`", "prog.unroll() followed by eng.run(prog, space_unroll=True)"),
 "C13/2": ("get_crop_value drops the [arrival_time:] offset", ">= 2 delay loops, later loop opened early, crop=True (arithmetic: outside the structural rules)"),
 "C13/3": ("TDMProgram.apply_op re-instantiates cmd.op.__class__(*params)", "daggered gate / post-selected measurement / dark counts in the time-bin circuit"),
 "C14/1": ("to_blackbird tests `if cmd.op.select:`", "post-selection on exactly 0"),
 "C14/2": ("par_convert matches q(\\d) (single digit, unanchored)", "measured-parameter expression on a mode with index >= 10"),
 "C14/3": ("to_xir sorts the wires of measurement statements", "XIR, multi-mode measurement on descending modes with unequal per-mode select"),
 "C15/1": ("MeasureHomodyne._apply rescales self.select in place", "hbar != 2 and the same MeasureHomodyne(select=) object applied more than once"),
 "C15/2": ("Gaussian parity_expectation uses (hbar/2) ** self._modes", "hbar != 2 and parity over a strict subset of the modes"),
 "C15/3": ("Vgate._apply divides gamma by sqrt(hbar/2)", "hbar != 2 and a Vgate on the Fock backend"),
 "C16/1": ("FockBackend.state permutes with index_permutation instead of its argsort", ">= 3 requested modes in a cyclic order, e.g. modes=[1, 2, 0]"),
 "C16/2": ("BaseFockState.reduced_dm guard becomes a duplicate test (accepts unsorted lists)", "reduced_dm on a non-ascending mode list"),
 "C16/3": ("BaseBosonicState.marginal rotates the means by -phi", "non-default phi on a displaced state (sign in a numeric formula: outside the structural rules)"),
 "C17/1": ("takagi real-symmetric fast path reverses eigh output instead of sorting |l|", "real input with a negative eigenvalue (numeric ordering: outside the structural rules)"),
 "C17/2": ("graph_embed computes the scale before make_traceless", "make_traceless=True and non-zero trace (numeric)"),
 "C17/3": ("_build_staircase drops a dagger in the pure-phase special case", "n >= 4 and U = e^{i phi} (+) W (numeric)"),
 "C18/1": ("Program.__eq__ compares get_dependencies() sets instead of ordered modes", "asymmetric two-mode gate on the same modes in swapped order"),
 "C18/2": ("program_equivalence builds the dagger attribute from DAG1 for both graphs", "a gate daggered in one program only"),
 "C18/3": ("program_equivalence removes gates with p[0] ~ 0 from both DAGs without re-linking", "a zero-parameter gate between two non-commuting segments"),
 "C19/1": ("clique.swap weight branch unpacks (n_out, _) - ranks by the evicted node's weight", "weighted node_select and >= 2 C_1 candidates whose partner weights rank differently"),
 "C19/2": ("orbit_cardinality uses np.prod of exact factorials (silent int64 wrap)", "about 23-28 modes"),
 "C19/3": ("to_subgraphs relabelling guard compares sets", "graph whose labels are 0..n-1 but whose iteration order is not ascending"),
 "C20/1": ("VGBS caches the covariance keyed by the parameter array object", "same parameter array mutated in place between calls (stale cache: outside the structural rules)"),
 "C20/2": ("prob_orbit_exact returns 0 for odd photon totals", "loss > 0 and an odd photon total (semantic early return: outside the structural rules)"),
 "C20/3": ("qchem.utils.marginals calls quantum.probabilities without hbar=hbar", "any hbar != 2 passed to marginals"),
}


def from_notes(src):
    """(change, needs) for the later rounds: first heading of the sub-agent's notes.md and its 'what it needs' paragraph"""
    import re
    fn = os.path.join(src, "notes.md")
    if not os.path.exists(fn):
        return "see patch.diff", "see demo.py"
    lines = open(fn).read().splitlines()
    head = next((l for l in lines if l.strip()), "").strip("# ").strip()
    head = re.sub(r"^C\d\d\s*/\s*(seed|change)\s*\d\s*[-\u2014\u2013]+\s*", "", head)
    needs = ""
    for i, l in enumerate(lines):
        if re.search(r"needs|manifest|trigger", l, re.I) and (l.lstrip().startswith(("#", "**", "-", "*")) or l.strip().endswith(":")):
            para = []
            for m in lines[i:i + 14]:
                if para and not m.strip():
                    break
                para.append(m.strip())
            needs = " ".join(para)
            break
    return head[:300], (needs or "see notes.md")[:700]


def main():
    out_root = os.path.join(V, "seeded")
    os.makedirs(out_root, exist_ok=True)
    summary = []
    import glob
    later = {}
    for rnd, root in ((2, "/tmp/seed2_out"), (3, "/tmp/seed3_out")):
        for d in sorted(glob.glob(root + "/C??/[123]")):
            prop, k = d.split("/")[-2], int(d.split("/")[-1])
            later[f"{prop}/{k + 3 * (rnd - 1)}"] = d
    import concurrent.futures as cf
    keys = sorted(list(NEEDS) + list(later))

    def prep(key):
        prop, k = key.split("/")
        src = later.get(key, f"/tmp/seed_out/{prop}/{k}")
        cj = os.path.join(src, "confirm.json")
        if not os.path.exists(cj) or not json.load(open(cj)).get("ok"):
            return key, None
        sid = f"{prop}-{k}"
        dst = os.path.join(out_root, sid)
        os.makedirs(dst, exist_ok=True)
        for fn in ("patch.diff", "demo.py", "notes.md"):
            if os.path.exists(os.path.join(src, fn)):
                shutil.copy(os.path.join(src, fn), os.path.join(dst, fn))
        return key, seedeval.run(dst)

    with cf.ThreadPoolExecutor(7) as ex:
        evals = dict(ex.map(prep, keys))
    for key in keys:
        prop, k = key.split("/")
        src = later.get(key, f"/tmp/seed_out/{prop}/{k}")
        cj = os.path.join(src, "confirm.json")
        if not os.path.exists(cj):
            continue
        conf = json.load(open(cj))
        if not conf.get("ok"):
            stale = os.path.join(out_root, f"{prop}-{k}")
            if os.path.isdir(stale):
                shutil.rmtree(stale)      # confirmed earlier, no longer valid against the current HEAD (see tools/redemo.py)
            summary.append((key, "NOT-CONFIRMED", (conf.get("suite_unexpected") or conf.get("error") or "")[:3] if not isinstance(conf.get("error"), str) else conf.get("error")[:100]))
            continue
        sid = f"{prop}-{k}"
        dst = os.path.join(out_root, sid)
        os.makedirs(dst, exist_ok=True)
        for fn in ("patch.diff", "demo.py", "notes.md"):
            if os.path.exists(os.path.join(src, fn)):
                shutil.copy(os.path.join(src, fn), os.path.join(dst, fn))
        det = evals.get(key) or seedeval.run(dst)
        caught = {p: v["keys"] for p, v in det.items() if isinstance(v, dict) and v.get("rc") == 1}
        errors = {p: v.get("tail", "")[-200:] for p, v in det.items() if isinstance(v, dict) and v.get("rc") == 2}
        what, needs = NEEDS[key] if key in NEEDS else from_notes(src)
        meta = {
            "id": sid, "property": prop, "change": what, "needs_to_manifest": needs,
            "confirmed": {
                "repo_head": conf.get("head"),
                "demo_exit_on_clean_checkout": conf.get("demo_clean"),
                "demo_exit_with_patch": conf.get("demo_patched"),
                "full_suite_with_patch": {"passed": conf.get("suite_passed"), "failures": conf.get("suite_failures"),
                                          "unexpected_failures": conf.get("suite_unexpected"), "seconds": conf.get("suite_s"),
                                          "command": "pytest -q -p no:cacheprovider --timeout=900 --continue-on-collection-errors -n 8 in a scratch worktree of /repo HEAD with the patch applied; allowed: the baseline always-fail TestGaussianCloning::test_average_fidelity, the flaky test_one_dimensional_cluster_tokyo, and test_default_sf_logger (fails only under xdist)"},
                "how": "tools/confirm_seeds.py: demo on the clean scratch worktree (must exit 0), git apply, demo (must exit != 0), full suite, git checkout",
                "flaky_rerun": conf.get("flaky_rerun"),
                "revalidated_at_final_head": {k_: v_ for k_, v_ in (conf.get("redemo") or {}).items() if k_ != "tail"} or None,
            },
            "detected_by": {p: sorted(set(k_.split("::")[0] + " @ " + "::".join(k_.split("::")[1:]) for k_ in ks))[:6] for p, ks in caught.items()},
            "detected": bool(caught.get(prop)) or bool(caught),
            "detected_by_own_property_check": bool(caught.get(prop)),
            "analysis_errors": errors,
        }
        json.dump(meta, open(os.path.join(dst, "meta.json"), "w"), indent=1)
        summary.append((key, "kept", sorted(caught)))
    for s in summary:
        print(*s)


if __name__ == "__main__":
    main()
