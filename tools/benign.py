"""robustness harness: apply a generic behaviour-preserving transformation to EVERY module of a scratch copy of
/repo/strawberryfields and require that every check reports exactly the same failing keys as on the unchanged tree.

    /venv/bin/python tools/benign.py <transform> [props...]     transform in: unparse rename flipif noop reorder tmpvar all

Development tool (not registered in MANIFEST): it finds rules that depend on incidental syntax."""
import ast, os, sys, shutil, subprocess, tempfile, json, concurrent.futures as cf

V = os.path.dirname(os.path.dirname(os.path.abspath(__file__)))
REPO = os.environ.get("SFA_REPO", "/repo")
PROPS = ["C%02d" % i for i in range(1, 21)]


class Rename(ast.NodeTransformer):
    """rename the plain locals of every function (not parameters, not globals, not names bound in nested scopes)"""

    def visit_FunctionDef(self, node):
        self.generic_visit(node)
        params = {a.arg for a in node.args.args + node.args.kwonlyargs + node.args.posonlyargs}
        if node.args.vararg:
            params.add(node.args.vararg.arg)
        if node.args.kwarg:
            params.add(node.args.kwarg.arg)
        stored, banned = set(), set(params)
        for sub in ast.walk(node):
            if isinstance(sub, (ast.Global, ast.Nonlocal)):
                banned.update(sub.names)
            if isinstance(sub, (ast.FunctionDef, ast.Lambda)) and sub is not node:
                a = sub.args
                banned.update(x.arg for x in a.args + a.kwonlyargs + a.posonlyargs)
                if a.vararg:
                    banned.add(a.vararg.arg)
                if a.kwarg:
                    banned.add(a.kwarg.arg)
                if isinstance(sub, ast.FunctionDef):
                    banned.add(sub.name)
            if isinstance(sub, ast.ClassDef):
                banned.add(sub.name)
            if isinstance(sub, (ast.Import, ast.ImportFrom)):
                banned.update((al.asname or al.name).split(".")[0] for al in sub.names)
            if isinstance(sub, ast.ExceptHandler) and sub.name:
                banned.add(sub.name)
        own = [s for s in ast.walk(node)]
        for sub in own:
            if isinstance(sub, ast.Name) and isinstance(sub.ctx, (ast.Store, ast.Del)):
                stored.add(sub.id)
        todo = {n for n in stored - banned if not n.startswith("__")}
        for sub in ast.walk(node):
            if isinstance(sub, ast.Name) and sub.id in todo:
                sub.id = sub.id + "_rn"
        return node


class FlipIf(ast.NodeTransformer):
    """if c: A else: B  ->  if not c: B else: A   (only when both branches exist and it is not an elif chain)"""

    def visit_If(self, node):
        self.generic_visit(node)
        if node.orelse and not (len(node.orelse) == 1 and isinstance(node.orelse[0], ast.If)):
            node.test = ast.UnaryOp(op=ast.Not(), operand=node.test)
            node.body, node.orelse = node.orelse, node.body
        return node


class Noop(ast.NodeTransformer):
    """a harmless local statement at the start of every function and after every assignment"""

    def visit_FunctionDef(self, node):
        self.generic_visit(node)
        k = 1 if (node.body and isinstance(node.body[0], ast.Expr) and isinstance(getattr(node.body[0], "value", None), ast.Constant)) else 0
        node.body.insert(k, ast.parse("_dbg = None").body[0])
        return node


class Reorder(ast.NodeTransformer):
    """reverse the order of the methods of every class that defines no class-level statements depending on order"""

    def visit_ClassDef(self, node):
        self.generic_visit(node)
        idx = [i for i, s in enumerate(node.body) if isinstance(s, ast.FunctionDef) and not s.decorator_list]
        funcs = [node.body[i] for i in idx][::-1]
        for i, f in zip(idx, funcs):
            node.body[i] = f
        return node


class TmpVar(ast.NodeTransformer):
    """return <expr>  ->  _ret = <expr>; return _ret"""

    def _blk(self, body):
        out = []
        for s in body:
            if isinstance(s, ast.Return) and s.value is not None and not isinstance(s.value, (ast.Name, ast.Constant)):
                out.append(ast.Assign(targets=[ast.Name(id="_ret", ctx=ast.Store())], value=s.value, lineno=s.lineno))
                out.append(ast.Return(value=ast.Name(id="_ret", ctx=ast.Load())))
            else:
                out.append(s)
        return out

    def generic_visit(self, node):
        super().generic_visit(node)
        for f in ("body", "orelse", "finalbody"):
            b = getattr(node, f, None)
            if isinstance(b, list) and b and isinstance(b[0], ast.stmt):
                setattr(node, f, self._blk(b))
        return node


T = {"unparse": None, "rename": Rename, "flipif": FlipIf, "noop": Noop, "reorder": Reorder, "tmpvar": TmpVar}


def transform(root, name):
    n = 0
    for dp, _, fs in os.walk(os.path.join(root, "strawberryfields")):
        for f in fs:
            if not f.endswith(".py"):
                continue
            p = os.path.join(dp, f)
            src = open(p).read()
            tree = ast.parse(src)
            if T[name] is not None:
                tree = T[name]().visit(tree)
                ast.fix_missing_locations(tree)
            out = ast.unparse(tree)
            ast.parse(out)
            open(p, "w").write(out + "\n")
            n += 1
    return n


def run(prop, root, evd):
    env = dict(os.environ, SFA_REPO=root, SFA_EVIDENCE_DIR=evd)
    r = subprocess.run([os.path.join(V, "check"), prop, "--tier", "quick"], cwd=V, env=env, capture_output=True, text=True)
    keys = sorted(l.split("key=")[-1].strip() for l in r.stdout.splitlines() if "key=" in l and not l.startswith("KNOWN"))
    known = sorted(l for l in r.stdout.splitlines() if l.startswith("KNOWN-FINDING"))
    err = [l for l in r.stdout.splitlines() if "ANALYSIS-ERROR" in l]
    return prop, r.returncode, keys, len(known), err


def main():
    name = sys.argv[1]
    props = sys.argv[2:] or PROPS
    names = [k for k in T] if name == "all" else [name]
    bad = 0
    with cf.ThreadPoolExecutor(8) as ex:
        base = {r[0]: r for r in ex.map(lambda p: run(p, REPO, tempfile.mkdtemp(prefix="sfa_bev_")), props)}
    for nm in names:
        tmp = tempfile.mkdtemp(prefix="sfa_benign_")
        try:
            shutil.copytree(os.path.join(REPO, "strawberryfields"), os.path.join(tmp, "strawberryfields"))
            n = transform(tmp, nm)
            if os.environ.get("BENIGN_KEEP"):
                print("kept", tmp)
            with cf.ThreadPoolExecutor(8) as ex:
                res = list(ex.map(lambda p: run(p, tmp, os.path.join(tmp, "ev")), props))
            for prop, rc, keys, nk, err in res:
                if rc != 0 or nk != base[prop][3]:
                    bad += 1
                    print(f"[{nm}] {prop} rc={rc} known={nk} (baseline {base[prop][3]})")
                    for k in keys[:12]:
                        print("     ", k)
                    for e in err:
                        print("     ", e[:300])
            print(f"[{nm}] {n} files transformed; {sum(1 for r in res if r[1] == 0)}/{len(res)} checks silent")
        finally:
            if not os.environ.get("BENIGN_KEEP"):
                shutil.rmtree(tmp, ignore_errors=True)
    sys.exit(1 if bad else 0)


main()
