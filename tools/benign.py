"""robustness harness: apply a generic behaviour-preserving transformation to EVERY module of a scratch copy of
/repo/strawberryfields and require that every check reports exactly the same failing keys as on the unchanged tree.

    /venv/bin/python tools/benign.py <transform> [props...]     transform in: unparse rename flipif noop reorder tmpvar all

Development tool (not registered in MANIFEST): it finds rules that depend on incidental syntax."""
import ast, os, sys, shutil, subprocess, tempfile, json, concurrent.futures as cf

V = os.path.dirname(os.path.dirname(os.path.abspath(__file__)))
REPO = os.environ.get("SFA_REPO", "/repo")
PROPS = ["C%02d" % i for i in range(1, 21)]


import sys
sys.path.insert(0, V)
from sfa.metamorph import T, transform  # noqa: E402


def run(prop, root, evd):
    env = dict(os.environ, SFA_REPO=root, SFA_EVIDENCE_DIR=evd)
    r = subprocess.run([os.path.join(V, "check"), prop, "--tier", "quick"], cwd=V, env=env, capture_output=True, text=True)
    keys = sorted(l.split("key=")[-1].strip() for l in r.stdout.splitlines() if "key=" in l and not l.startswith("KNOWN"))
    known = sorted(l for l in r.stdout.splitlines() if l.startswith("KNOWN-FINDING"))
    err = [l for l in r.stdout.splitlines() if "ANALYSIS-ERROR" in l]
    import re
    m = re.search(r"(\d+) obligations over (\d+) rules, .* (\d+) not analysed", r.stdout)
    stat = tuple(int(x) for x in m.groups()) if m else None
    return prop, r.returncode, keys, len(known), err, stat


def main():
    name = sys.argv[1]
    props = sys.argv[2:] or PROPS
    names = [k for k in T] if name == "all" else [name]
    bad = 0
    with cf.ThreadPoolExecutor(8) as ex:
        base = {r[0]: r for r in ex.map(lambda p: run(p, REPO, tempfile.mkdtemp(prefix="sfa_bev_")), props)}
    for nm in names:
        tmp = tempfile.mkdtemp(prefix="sfa_benign_")
        try:
            shutil.copytree(os.path.join(REPO, "strawberryfields"), os.path.join(tmp, "strawberryfields"))
            n = transform(tmp, nm)
            if os.environ.get("BENIGN_KEEP"):
                print("kept", tmp)
            with cf.ThreadPoolExecutor(8) as ex:
                res = list(ex.map(lambda p: run(p, tmp, os.path.join(tmp, "ev")), props))
            for prop, rc, keys, nk, err, stat in res:
                if stat != base[prop][5]:
                    print(f"[{nm}] {prop} obligations/rules/not-analysed {stat} (baseline {base[prop][5]})")
                if rc != 0 or nk != base[prop][3]:
                    bad += 1
                    print(f"[{nm}] {prop} rc={rc} known={nk} (baseline {base[prop][3]})")
                    for k in keys[:12]:
                        print("     ", k)
                    for e in err:
                        print("     ", e[:300])
            print(f"[{nm}] {n} files transformed; {sum(1 for r in res if r[1] == 0)}/{len(res)} checks silent")
        finally:
            if not os.environ.get("BENIGN_KEEP"):
                shutil.rmtree(tmp, ignore_errors=True)
    sys.exit(1 if bad else 0)


main()
