"""background confirmation of seeded changes: for every /tmp/seed_out/Cxx/k with patch.diff + demo.py and no
confirm.json: in a scratch worktree of /repo HEAD apply the patch, run the demo (must fail), run the full test
suite (must pass up to the known baseline failures), revert, run the demo (must pass)."""
import glob, json, os, re, subprocess, sys, time
# usage: confirm_seeds.py [seed root (default /tmp/seed_out)] [worktree (default /tmp/confirm_wt)] [pytest workers (8)] [regex on dir]
ROOT = sys.argv[1] if len(sys.argv) > 1 else "/tmp/seed_out"
WT = sys.argv[2] if len(sys.argv) > 2 else "/tmp/confirm_wt"
NW = sys.argv[3] if len(sys.argv) > 3 else "8"
FILT = re.compile(sys.argv[4]) if len(sys.argv) > 4 else None
ALLOWED = ("test_average_fidelity", "test_one_dimensional_cluster_tokyo", "test_default_sf_logger")
def sh(cmd, **kw):
    return subprocess.run(cmd, shell=True, capture_output=True, text=True, **kw)
def ensure_wt():
    if not os.path.isdir(WT):
        sh(f"git -C /repo worktree add -q --detach {WT} HEAD")
    sh(f"git -C {WT} checkout -q --detach $(git -C /repo rev-parse HEAD); git -C {WT} checkout -- .; git -C {WT} clean -fdq")
def demo(d):
    env = dict(os.environ, PYTHONPATH=WT)
    try:
        r = subprocess.run(["/venv/bin/python", os.path.join(d, "demo.py")], cwd=WT, env=env, capture_output=True, text=True, timeout=300)
        return r.returncode, (r.stdout + r.stderr)[-400:]
    except subprocess.TimeoutExpired:
        return -9, "timeout"
def one(d):
    ensure_wt()
    res = {"dir": d, "head": sh("git -C /repo rev-parse --short HEAD").stdout.strip()}
    rc0, out0 = demo(d)
    res["demo_clean"] = rc0
    a = sh(f"git -C {WT} apply {d}/patch.diff")
    if a.returncode != 0:
        res["error"] = "patch does not apply: " + a.stderr[-300:]
        return res
    rc1, out1 = demo(d)
    res["demo_patched"] = rc1
    res["demo_patched_tail"] = out1[-300:]
    t0 = time.time()
    r = sh(f"cd {WT} && PYTHONPATH={WT} /venv/bin/python -m pytest -q -p no:cacheprovider --timeout=900 --continue-on-collection-errors -n {NW} 2>&1 | tail -40")
    res["suite_s"] = round(time.time() - t0)
    fails = re.findall(r"^(?:FAILED|ERROR) (\S+)", r.stdout, re.M)
    res["suite_failures"] = fails
    res["suite_unexpected"] = [f for f in fails if not any(a in f for a in ALLOWED)]
    m = re.search(r"(\d+) passed", r.stdout)
    res["suite_passed"] = int(m.group(1)) if m else None
    sh(f"git -C {WT} checkout -- .; git -C {WT} clean -fdq")
    res["ok"] = rc0 == 0 and rc1 != 0 and not res["suite_unexpected"] and (res["suite_passed"] or 0) > 6000
    return res
if __name__ == "__main__":
    while not os.path.exists("/tmp/confirm_stop"):
        todo = [os.path.dirname(p) for p in sorted(glob.glob(ROOT + "/C*/[0-9]/patch.diff"))
                if os.path.exists(os.path.join(os.path.dirname(p), "demo.py")) and os.path.exists(os.path.join(os.path.dirname(p), "notes.md"))
                and not os.path.exists(os.path.join(os.path.dirname(p), "confirm.json"))
                and (FILT is None or FILT.search(p))]
        if not todo:
            time.sleep(60)
            continue
        d = todo[0]
        res = one(d)
        json.dump(res, open(os.path.join(d, "confirm.json"), "w"), indent=1)
        print(time.strftime("%H:%M:%S"), d, res.get("ok"), res.get("demo_clean"), res.get("demo_patched"), res.get("suite_unexpected"), res.get("suite_s"), flush=True)
