"""apply a seeded change (patch.diff) to a scratch copy of /repo's package and run the checks on it.
usage: seedeval.py <dir with patch.diff> [props...]   (scratch copy under a fresh temp dir, removed afterwards)"""
import json, os, shutil, subprocess, sys, tempfile, glob
VERIF = os.path.dirname(os.path.dirname(os.path.abspath(__file__)))
def run(seed_dir, props=None):
    tmp = tempfile.mkdtemp(prefix="sfa_seed_")
    try:
        shutil.copytree("/repo/strawberryfields", os.path.join(tmp, "strawberryfields"),
                        ignore=shutil.ignore_patterns("__pycache__", "*.pyc", "*.so", "*.npz", "*.npy"))
        r = subprocess.run(["patch", "-p1", "-s", "-d", tmp, "-i", os.path.join(seed_dir, "patch.diff")], capture_output=True, text=True)
        if r.returncode != 0:
            return {"error": "patch failed: " + r.stdout[-300:] + r.stderr[-300:]}
        props = props or sorted(os.path.basename(p)[:-3].upper() for p in glob.glob(os.path.join(VERIF, "sfa/rules/c[0-9][0-9].py")))
        env = dict(os.environ, SFA_REPO=tmp, SFA_EVIDENCE_DIR=os.path.join(tmp, "ev"), PYTHONDONTWRITEBYTECODE="1")
        out = {}
        for p in props:
            r = subprocess.run([sys.executable, "-m", "sfa.main", p, "--tier", "quick"], cwd=VERIF, env=env, capture_output=True, text=True)
            keys = []
            vf = os.path.join(tmp, "ev", p + ".violations.json")
            if os.path.exists(vf):
                keys = [v["key"] for v in json.load(open(vf))]
            if r.returncode != 0:
                out[p] = {"rc": r.returncode, "keys": keys, "tail": r.stdout[-300:] if r.returncode == 2 else ""}
        return out
    finally:
        shutil.rmtree(tmp, ignore_errors=True)
if __name__ == "__main__":
    res = run(sys.argv[1], sys.argv[2:] or None)
    print(json.dumps(res, indent=1))
