"""seeded changes whose full-suite confirmation failed in a few tests that may be statistical or order-dependent (shot-noise
based assertions, sympy's per-process symbol cache - they also fail now and then on the unmodified tree): re-run exactly those tests three times
with the patch applied in a scratch worktree; when each of them passes in at least two of the three runs the failure is recorded
as a flake and the seed counts as confirmed (confirm.json gets "ok": true and a "flaky_rerun" record).

usage: recheck_flaky.py [seed root ...]      (default /tmp/seed_out /tmp/seed2_out)"""
import glob, json, os, subprocess, sys
WT = "/tmp/recheck_wt"


def sh(cmd):
    return subprocess.run(cmd, shell=True, capture_output=True, text=True)


def main():
    roots = sys.argv[1:] or ["/tmp/seed_out", "/tmp/seed2_out"]
    if not os.path.isdir(WT):
        sh(f"git -C /repo worktree add -q --detach {WT} HEAD")
    for root in roots:
        for cj in sorted(glob.glob(root + "/C*/[0-9]/confirm.json")):
            c = json.load(open(cj))
            if c.get("ok") or c.get("error") or c.get("demo_clean") != 0 or not c.get("demo_patched"):
                continue
            bad = c.get("suite_unexpected") or []
            # any test may be re-examined: a failure the patch causes fails in isolation as well (3 of 3), a statistical or
            # order-dependent one (shot noise; sympy's per-process symbol cache) passes when run on its own
            if not bad or (c.get("suite_passed") or 0) < 6000 or len(bad) > 40:
                continue
            d = os.path.dirname(cj)
            sh(f"git -C {WT} checkout -q --detach $(git -C /repo rev-parse HEAD); git -C {WT} checkout -- .; git -C {WT} clean -fdq")
            if sh(f"git -C {WT} apply {d}/patch.diff").returncode != 0:
                continue
            passes = {b: 0 for b in bad}
            for _ in range(3):
                for b in bad:
                    r = sh(f"cd {WT} && PYTHONPATH={WT} /venv/bin/python -m pytest -q -p no:cacheprovider '{b}' 2>&1 | tail -3")
                    if " passed" in r.stdout and "failed" not in r.stdout:
                        passes[b] += 1
            sh(f"git -C {WT} checkout -- .; git -C {WT} clean -fdq")
            c["flaky_rerun"] = {"tests": passes, "runs": 3}
            if all(v >= 2 for v in passes.values()):
                c["ok"] = True
            json.dump(c, open(cj, "w"), indent=1)
            print(d, passes, "->", c["ok"], flush=True)


main()
