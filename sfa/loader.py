"""Parse the working tree, build module / function / class tables, resolve imports and aliases."""
from __future__ import annotations

import ast
import hashlib
import os
from typing import Dict, Iterator, List, Optional, Tuple

PKG = "strawberryfields"


def repo_root() -> str:
    return os.environ.get("SFA_REPO", "/repo")


class AnalysisError(Exception):
    """The analyser cannot do its job (vanished anchor, unparsable file, floor not met).

    Never a property violation: reported as ANALYSIS-ERROR, exit code 2.
    """


class FuncInfo:
    __slots__ = ("node", "qualname", "cls", "module", "name", "parent_func")

    def __init__(self, node, qualname, cls, module, parent_func=None):
        self.node = node
        self.qualname = qualname
        self.cls = cls  # ClassInfo or None
        self.module = module
        self.name = node.name
        self.parent_func = parent_func

    @property
    def params(self) -> List[str]:
        a = self.node.args
        out = [x.arg for x in a.posonlyargs + a.args]
        if a.vararg:
            out.append(a.vararg.arg)
        out += [x.arg for x in a.kwonlyargs]
        if a.kwarg:
            out.append(a.kwarg.arg)
        return out

    @property
    def pos_params(self) -> List[str]:
        a = self.node.args
        return [x.arg for x in a.posonlyargs + a.args]

    @property
    def decorators(self) -> List[str]:
        return [ast.unparse(d) for d in self.node.decorator_list]

    @property
    def is_static(self) -> bool:
        return any(d in ("staticmethod",) for d in self.decorators)

    @property
    def site(self) -> str:
        return f"{self.module.rel}::{self.qualname}"

    def __repr__(self):
        return f"<Func {self.site}>"


class ClassInfo:
    def __init__(self, node: ast.ClassDef, module: "Module"):
        self.node = node
        self.name = node.name
        self.module = module
        self.base_exprs = [ast.unparse(b) for b in node.bases]
        self.bases: List["ClassInfo"] = []  # resolved, package-internal only
        self.external_bases: List[str] = []  # dotted names of bases outside the package
        self.methods: Dict[str, FuncInfo] = {}
        self.class_attrs: Dict[str, ast.AST] = {}
        self._mro = None

    # ---- resolution -------------------------------------------------
    def mro(self) -> List["ClassInfo"]:
        if self._mro is None:
            self._mro = _c3(self)
        return self._mro

    def lookup(self, name: str) -> Optional[FuncInfo]:
        for c in self.mro():
            if name in c.methods:
                return c.methods[name]
        return None

    def lookup_after(self, owner: "ClassInfo", name: str) -> Optional[FuncInfo]:
        """super().name seen from a method defined in `owner`, for an instance of self."""
        m = self.mro()
        if owner in m:
            for c in m[m.index(owner) + 1 :]:
                if name in c.methods:
                    return c.methods[name]
        return None

    def class_attr(self, name: str):
        for c in self.mro():
            if name in c.class_attrs:
                return c.class_attrs[name]
        return None

    def is_subclass_of(self, other_name: str) -> bool:
        return any(c.name == other_name for c in self.mro())

    def has_external_base(self, dotted_suffix: str) -> bool:
        for c in self.mro():
            for e in c.external_bases:
                if e == dotted_suffix or e.endswith("." + dotted_suffix):
                    return True
        return False

    def init_chain(self) -> List[FuncInfo]:
        """__init__ methods that may run for an instance (own first, then those reachable by MRO)."""
        out = []
        for c in self.mro():
            if "__init__" in c.methods:
                out.append(c.methods["__init__"])
        return out

    def instance_attrs(self) -> Dict[str, List[Tuple[FuncInfo, ast.AST]]]:
        """self.<a> = ... stores found in the __init__ chain: attr -> [(func, value-node)]"""
        out: Dict[str, List[Tuple[FuncInfo, ast.AST]]] = {}
        for f in self.init_chain():
            selfname = f.pos_params[0] if f.pos_params else "self"
            for n in ast.walk(f.node):
                tg = []
                val = None
                if isinstance(n, ast.Assign):
                    tg, val = n.targets, n.value
                elif isinstance(n, ast.AnnAssign) and n.value is not None:
                    tg, val = [n.target], n.value
                elif isinstance(n, ast.AugAssign):
                    tg, val = [n.target], n.value
                for t in tg:
                    for tt in (t.elts if isinstance(t, (ast.Tuple, ast.List)) else [t]):
                        if (
                            isinstance(tt, ast.Attribute)
                            and isinstance(tt.value, ast.Name)
                            and tt.value.id == selfname
                        ):
                            out.setdefault(tt.attr, []).append((f, val))
        return out

    @property
    def site(self) -> str:
        return f"{self.module.rel}::{self.name}"

    def __repr__(self):
        return f"<Class {self.site}>"


def _c3(cls: ClassInfo) -> List[ClassInfo]:
    def merge(seqs):
        res = []
        seqs = [list(s) for s in seqs if s]
        while seqs:
            for s in seqs:
                h = s[0]
                if not any(h in t[1:] for t in seqs):
                    break
            else:  # inconsistent hierarchy - fall back to depth-first order
                h = seqs[0][0]
            res.append(h)
            seqs = [[x for x in s if x is not h] for s in seqs]
            seqs = [s for s in seqs if s]
        return res

    return [cls] + merge([_c3(b) for b in cls.bases] + [list(cls.bases)])


def _parse(rel: str, src: str):
    try:
        return ast.parse(src, filename=rel)
    except SyntaxError as e:  # a tree that does not compile is not analysable
        raise AnalysisError(f"cannot parse {rel}: {e}")


def collect_signatures(trees) -> Dict[str, Optional[List[str]]]:
    """callable name -> positional parameter names (without self) when every definition of that name in the package
    (method of any class, module-level function, class constructor) has the same positional signature; else absent"""
    sigs: Dict[str, set] = {}

    def add(name, fn, drop_first):
        a = fn.args
        deco = {(d.id if isinstance(d, ast.Name) else getattr(d, "attr", "")) for d in fn.decorator_list}
        if a.vararg or a.posonlyargs or deco & {"property", "classmethod"}:
            sigs.setdefault(name, set()).add(None)
            return
        ps = [x.arg for x in a.args]
        if drop_first and "staticmethod" not in deco:
            ps = ps[1:]
        sigs.setdefault(name, set()).add(tuple(ps))

    for tree in trees.values():
        for n in ast.walk(tree):
            if isinstance(n, ast.ClassDef):
                has_init = False
                for m in n.body:
                    if isinstance(m, ast.FunctionDef):
                        add(m.name, m, True)
                        if m.name == "__init__":
                            has_init = True
                            add("<class>" + n.name, m, True)
                if not has_init:
                    sigs.setdefault("<class>" + n.name, set()).add(None)
        for n in tree.body:
            if isinstance(n, ast.FunctionDef):
                add(n.name, n, False)
    return {k: list(next(iter(v))) for k, v in sigs.items() if len(v) == 1 and None not in v}


class _KeywordsToPositional(ast.NodeTransformer):
    """canonical call form: f(x=a, y=b) -> f(a, b) when the callee name has one positional signature in the package and
    the keywords continue the positional arguments without a gap.  The rules read arguments by position; both spellings
    of a call are therefore decided identically."""

    def __init__(self, sigs):
        self.sigs = sigs

    def visit_Call(self, node):
        self.generic_visit(node)
        if not node.keywords or any(k.arg is None for k in node.keywords) or any(isinstance(a, ast.Starred) for a in node.args):
            return node
        f = node.func
        sig = None
        if isinstance(f, ast.Attribute):
            sig = self.sigs.get(f.attr)
        elif isinstance(f, ast.Name):
            sig = self.sigs.get("<class>" + f.id) or self.sigs.get(f.id)
        if not sig:
            return node
        kw = {k.arg: k for k in node.keywords}
        pos = list(node.args)
        while len(pos) < len(sig) and sig[len(pos)] in kw:
            pos.append(kw.pop(sig[len(pos)]).value)
        if len(pos) == len(node.args):
            return node
        node.args = pos
        node.keywords = [k for k in node.keywords if k.arg in kw]
        return node


class Module:
    def __init__(self, rel: str, src: str, tree=None):
        self.rel = rel  # path relative to the package dir, e.g. 'backends/base.py'
        self.src = src
        self.lines = src.splitlines()
        self.digest = hashlib.sha256(src.encode()).hexdigest()
        self.tree = tree if tree is not None else _parse(rel, src)
        parts = rel[:-3].split("/")
        if parts[-1] == "__init__":
            parts = parts[:-1]
        self.name = ".".join([PKG] + parts)
        self.is_pkg = rel.endswith("__init__.py")
        self.functions: Dict[str, FuncInfo] = {}
        self.classes: Dict[str, ClassInfo] = {}
        self.imports: Dict[str, str] = {}  # local alias -> dotted target
        self.globals: Dict[str, List[ast.AST]] = {}  # module-level name -> value nodes
        self._index()

    def _pkg_parts(self):
        p = self.name.split(".")
        return p if self.is_pkg else p[:-1]

    def _index(self):
        for n in ast.walk(self.tree):
            for ch in ast.iter_child_nodes(n):
                ch.parent = n  # type: ignore[attr-defined]
        self.tree.parent = None  # type: ignore[attr-defined]
        # imports (anywhere in the module; function-level imports are aliases too)
        for n in ast.walk(self.tree):
            if isinstance(n, ast.Import):
                for a in n.names:
                    if a.asname:
                        self.imports[a.asname] = a.name
                    else:
                        self.imports[a.name.split(".")[0]] = a.name.split(".")[0]
            elif isinstance(n, ast.ImportFrom):
                if n.level:
                    base = self._pkg_parts()
                    if n.level > 1:
                        base = base[: -(n.level - 1)]
                    mod = ".".join(base + ([n.module] if n.module else []))
                else:
                    mod = n.module or ""
                for a in n.names:
                    self.imports[a.asname or a.name] = f"{mod}.{a.name}" if mod else a.name

        def visit(body, prefix, cls, parent_func):
            for st in body:
                if isinstance(st, (ast.FunctionDef, ast.AsyncFunctionDef)):
                    qn = prefix + st.name
                    fi = FuncInfo(st, qn, cls, self, parent_func)
                    self.functions[qn] = fi
                    if cls is not None and parent_func is None:
                        cls.methods[st.name] = fi
                    visit_nested(st, qn + ".<locals>.", fi)
                elif isinstance(st, ast.ClassDef):
                    ci = ClassInfo(st, self)
                    if prefix == "":
                        self.classes[st.name] = ci
                    else:
                        self.classes.setdefault(prefix + st.name, ci)
                    for b in st.body:
                        if isinstance(b, ast.Assign):
                            for t in b.targets:
                                if isinstance(t, ast.Name):
                                    ci.class_attrs[t.id] = b.value
                        elif isinstance(b, ast.AnnAssign) and isinstance(b.target, ast.Name) and b.value is not None:
                            ci.class_attrs[b.target.id] = b.value
                    visit(st.body, prefix + st.name + ".", ci, None)
                elif isinstance(st, (ast.If, ast.Try, ast.With)):
                    # conditional definitions at module level
                    for sub in ast.iter_child_nodes(st):
                        pass
                    for fld in ("body", "orelse", "finalbody"):
                        visit(getattr(st, fld, []) or [], prefix, cls, parent_func)
                    for h in getattr(st, "handlers", []) or []:
                        visit(h.body, prefix, cls, parent_func)

        def visit_nested(fn, prefix, fi):
            for st in ast.walk(fn):
                if st is fn:
                    continue
                if isinstance(st, (ast.FunctionDef, ast.AsyncFunctionDef)) and _enclosing_func(st) is fn:
                    qn = prefix + st.name
                    sub = FuncInfo(st, qn, None, self, fi)
                    self.functions[qn] = sub
                    visit_nested(st, qn + ".<locals>.", sub)

        visit(self.tree.body, "", None, None)
        for st in self.tree.body:
            if isinstance(st, ast.Assign):
                for t in st.targets:
                    for tt in (t.elts if isinstance(t, (ast.Tuple, ast.List)) else [t]):
                        if isinstance(tt, ast.Name):
                            self.globals.setdefault(tt.id, []).append(st.value)
            elif isinstance(st, ast.AnnAssign) and isinstance(st.target, ast.Name) and st.value is not None:
                self.globals.setdefault(st.target.id, []).append(st.value)

    def line(self, node) -> int:
        return getattr(node, "lineno", 0)


def _enclosing_func(node):
    p = getattr(node, "parent", None)
    while p is not None and not isinstance(p, (ast.FunctionDef, ast.AsyncFunctionDef, ast.Lambda)):
        p = getattr(p, "parent", None)
    return p


def enclosing_func(node):
    return _enclosing_func(node)


def enclosing_stmt(node):
    p = node
    while p is not None and not isinstance(p, ast.stmt):
        p = getattr(p, "parent", None)
    return p


class Tree:
    """The whole package as parsed from the working tree."""

    def __init__(self, root: Optional[str] = None):
        self.root = root or repo_root()
        self.pkgdir = os.path.join(self.root, PKG)
        if not os.path.isdir(self.pkgdir):
            raise AnalysisError(f"package directory not found: {self.pkgdir}")
        self.modules: Dict[str, Module] = {}
        srcs, trees = {}, {}
        for dp, dn, fn in os.walk(self.pkgdir):
            dn.sort()
            for f in sorted(fn):
                if f.endswith(".py"):
                    full = os.path.join(dp, f)
                    rel = os.path.relpath(full, self.pkgdir)
                    with open(full, encoding="utf-8") as fh:
                        srcs[rel] = fh.read()
                    trees[rel] = _parse(rel, srcs[rel])
        self.signatures = collect_signatures(trees)
        norm = _KeywordsToPositional(self.signatures)
        for rel in srcs:
            self.modules[rel] = Module(rel, srcs[rel], tree=norm.visit(trees[rel]))
        self.by_name: Dict[str, Module] = {m.name: m for m in self.modules.values()}
        self._resolve_classes()

    # ---- lookup helpers ---------------------------------------------------
    def arg_of(self, call: ast.Call, pname: str):
        """the argument a call binds to parameter `pname`: the keyword of that name, or - calls are kept in canonical
        positional form when the callee's signature is unique in the package - the positional argument at its index"""
        for k in call.keywords:
            if k.arg == pname:
                return k.value
        f = call.func
        sig = None
        if isinstance(f, ast.Attribute):
            sig = self.signatures.get(f.attr)
        elif isinstance(f, ast.Name):
            sig = self.signatures.get("<class>" + f.id) or self.signatures.get(f.id)
        if sig and pname in sig and sig.index(pname) < len(call.args):
            return call.args[sig.index(pname)]
        return None

    def module(self, rel: str) -> Module:
        m = self.modules.get(rel)
        if m is None:
            raise AnalysisError(f"anchor vanished: module {rel}")
        return m

    def func(self, rel: str, qualname: str) -> FuncInfo:
        m = self.module(rel)
        f = m.functions.get(qualname)
        if f is None:
            raise AnalysisError(f"anchor vanished: function {rel}::{qualname}")
        return f

    def func_opt(self, rel: str, qualname: str) -> Optional[FuncInfo]:
        m = self.modules.get(rel)
        return m.functions.get(qualname) if m else None

    def cls(self, rel: str, name: str) -> ClassInfo:
        m = self.module(rel)
        c = m.classes.get(name)
        if c is None:
            raise AnalysisError(f"anchor vanished: class {rel}::{name}")
        return c

    def cls_opt(self, rel: str, name: str) -> Optional[ClassInfo]:
        m = self.modules.get(rel)
        return m.classes.get(name) if m else None

    def all_classes(self) -> Iterator[ClassInfo]:
        for m in self.modules.values():
            yield from m.classes.values()

    def all_functions(self) -> Iterator[FuncInfo]:
        for m in self.modules.values():
            yield from m.functions.values()

    def subclasses(self, base: ClassInfo, strict=True) -> List[ClassInfo]:
        out = [c for c in self.all_classes() if base in c.mro() and (c is not base or not strict)]
        return sorted(out, key=lambda c: (c.module.rel, c.node.lineno))

    # ---- name resolution ---------------------------------------------------
    def resolve_dotted(self, module: Module, expr: str):
        """Resolve a dotted expression seen in `module` to ('class', ClassInfo) | ('func', FuncInfo) |
        ('module', Module) | ('global', (Module, name)) | ('external', dotted) | None."""
        parts = expr.split(".")
        head = parts[0]
        # local definitions first
        if head in module.classes and len(parts) == 1:
            return ("class", module.classes[head])
        if head in module.functions and len(parts) == 1:
            return ("func", module.functions[head])
        if head in module.imports:
            target = module.imports[head].split(".") + parts[1:]
        elif head in module.globals and len(parts) == 1:
            return ("global", (module, head))
        elif head in module.classes:
            target = module.name.split(".") + parts
        else:
            return None
        return self._resolve_abs(target)

    def _resolve_abs(self, target: List[str]):
        # longest module prefix
        for i in range(len(target), 0, -1):
            mn = ".".join(target[:i])
            if mn in self.by_name:
                m = self.by_name[mn]
                rest = target[i:]
                if not rest:
                    return ("module", m)
                if len(rest) == 1:
                    n = rest[0]
                    if n in m.classes:
                        return ("class", m.classes[n])
                    if n in m.functions:
                        return ("func", m.functions[n])
                    if n in m.globals:
                        return ("global", (m, n))
                    if n in m.imports:  # re-export
                        r = self._resolve_abs(m.imports[n].split("."))
                        if r:
                            return r
                if len(rest) == 2 and rest[0] in m.classes:
                    c = m.classes[rest[0]]
                    f = c.lookup(rest[1])
                    if f:
                        return ("func", f)
                if rest[0] in m.imports:
                    r = self._resolve_abs(m.imports[rest[0]].split(".") + rest[1:])
                    if r:
                        return r
                return None
        if target and target[0] != PKG:
            return ("external", ".".join(target))
        return None

    def _resolve_classes(self):
        for m in self.modules.values():
            for c in list(m.classes.values()):
                for b in c.base_exprs:
                    r = self.resolve_dotted(m, b) if _is_dotted(b) else None
                    if r and r[0] == "class":
                        c.bases.append(r[1])
                    elif r and r[0] == "external":
                        c.external_bases.append(r[1])
                    else:
                        c.external_bases.append(b)

    def digest(self) -> str:
        h = hashlib.sha256()
        for rel in sorted(self.modules):
            h.update(rel.encode())
            h.update(self.modules[rel].digest.encode())
        return h.hexdigest()


def _is_dotted(s: str) -> bool:
    return all(p.isidentifier() for p in s.split("."))


# ---------------------------------------------------------------------------
# small AST helpers used everywhere
# ---------------------------------------------------------------------------

def dotted(node) -> Optional[str]:
    """'a.b.c' for Name/Attribute chains, else None."""
    parts = []
    while isinstance(node, ast.Attribute):
        parts.append(node.attr)
        node = node.value
    if isinstance(node, ast.Name):
        parts.append(node.id)
        return ".".join(reversed(parts))
    return None


def call_name(call: ast.Call) -> Optional[str]:
    return dotted(call.func)


def names_in(node) -> set:
    return {n.id for n in ast.walk(node) if isinstance(n, ast.Name)}


def walk_no_nested(node) -> Iterator[ast.AST]:
    """ast.walk that does not descend into nested function / class definitions (lambdas are descended)."""
    todo = [node]
    first = True
    while todo:
        n = todo.pop()
        if not first and isinstance(n, (ast.FunctionDef, ast.AsyncFunctionDef, ast.ClassDef)):
            continue
        first = False
        yield n
        todo.extend(ast.iter_child_nodes(n))


def strip_docstring(body):
    if body and isinstance(body[0], ast.Expr) and isinstance(body[0].value, ast.Constant) and isinstance(body[0].value.value, str):
        return body[1:]
    return body


def norm_text(node) -> str:
    """normalised statement text, used for keys that must survive reformatting"""
    return ast.unparse(node)
