"""E5 - write footprints of subscript stores on named arrays, with symbolic index terms.

An index term describes which positions along one axis a subscript may address:
    ('one', v)         the single index held by variable v
    ('all',)           every index (slice ':' or a loop over range(n) / arange(n))
    ('allbut', {v..})  every index except those held by the variables (np.delete(np.arange(n), ...))
    ('sel', v)         the indices held by the index array / sequence v (or a loop variable over it)
    ('unk', text)      not understood
"""
from __future__ import annotations

import ast
from typing import Dict, List, Optional, Tuple

from .dataflow import rd_of, ReachingDefs
from .loader import FuncInfo, dotted, walk_no_nested

ALL = ("all",)


class Store:
    def __init__(self, array, idx, value, stmt, node_id, aug, target):
        self.array = array  # attribute name on self ('nmat')
        self.idx = idx  # list of index terms, one per axis addressed (empty: whole-array store)
        self.value = value
        self.stmt = stmt
        self.node = node_id
        self.aug = aug
        self.target = target

    @property
    def whole(self):
        return not self.idx

    def text(self):
        return ast.unparse(self.target)

    def __repr__(self):
        return f"Store({self.text()} {self.idx})"


def _flatten_subscripts(t):
    """self.a[i][j] / self.a[i, j] -> (root attribute node, [slice exprs in axis order])"""
    chain = []
    while isinstance(t, ast.Subscript):
        chain.append(t.slice)
        t = t.value
    chain.reverse()
    idx = []
    for s in chain:
        if isinstance(s, ast.Tuple):
            idx.extend(s.elts)
        else:
            idx.append(s)
    return t, idx


class IndexEnv:
    """evaluates index expressions of one function to index terms"""

    def __init__(self, f: FuncInfo, size_attrs=("nlen",)):
        self.f = f
        self.rd: ReachingDefs = rd_of(f.node)
        self.size_attrs = size_attrs

    def _is_size(self, e) -> bool:
        k = dotted(e)
        return bool(k) and k.startswith("self.") and k[5:] in self.size_attrs

    def iter_term(self, it: ast.AST, at: int, depth=0):
        """index term of the elements of iterable `it`"""
        if depth > 6:
            return ("unk", ast.unparse(it))
        if isinstance(it, ast.Call):
            cn = dotted(it.func) or ""
            if cn in ("range", "np.arange", "arange") and len(it.args) == 1 and self._is_size(it.args[0]):
                return ALL
            if cn in ("np.delete", "delete") and len(it.args) >= 2:
                base = self.iter_term(it.args[0], at, depth + 1)
                if base == ALL:
                    d = it.args[1]
                    elts = d.elts if isinstance(d, (ast.Tuple, ast.List)) else [d]
                    if all(isinstance(x, ast.Name) for x in elts):
                        return ("allbut", frozenset(x.id for x in elts))
                return ("unk", ast.unparse(it))
            if cn in ("list", "tuple", "np.array", "array", "np.asarray", "sorted") and it.args:
                return self.iter_term(it.args[0], at, depth + 1)
            if cn.endswith(".reshape") or cn.endswith(".flatten"):
                return self.iter_term(it.func.value, at, depth + 1)
            if cn in ("np.reshape",) and it.args:
                return self.iter_term(it.args[0], at, depth + 1)
            return ("unk", ast.unparse(it))
        if isinstance(it, (ast.List, ast.Tuple)) and len(it.elts) == 1 and isinstance(it.elts[0], ast.Name):
            t = self.term(it.elts[0], at, depth + 1)  # [mode]: a scalar wrapped into a one-element list
            if t[0] == "one":
                return ("sel", t[1])
            return t if t[0] == "sel" else ("unk", ast.unparse(it))
        if isinstance(it, ast.Name):
            ds = self.rd.reaching(it.id, at)
            terms = set()
            for d in ds:
                if d.kind == "param":
                    terms.add(("sel", d.var))
                elif d.kind == "assign" and d.value is not None and d.index is None:
                    terms.add(self.iter_term(d.value, d.node, depth + 1))
                else:
                    terms.add(("unk", it.id))
            if len(terms) == 1:
                return terms.pop()
            # modes = param | range(nlen): a selection that may be everything
            sel = {t for t in terms if t[0] == "sel"}
            if sel and all(t[0] in ("sel", "all") for t in terms) and len(sel) == 1:
                return next(iter(sel))
            return ("unk", it.id)
        return ("unk", ast.unparse(it))

    def term(self, e: ast.AST, at: int, depth=0):
        """index term of subscript expression e"""
        if isinstance(e, ast.Slice):
            if e.lower is None and e.upper is None and e.step is None:
                return ALL
            return ("unk", ast.unparse(e))
        if isinstance(e, ast.Name):
            ds = self.rd.reaching(e.id, at)
            terms = set()
            for d in ds:
                if d.kind == "param":
                    terms.add(("one", d.var))
                elif d.kind == "for" and d.value is not None:
                    it = d.value
                    if isinstance(it, ast.Call) and dotted(it.func) == "enumerate" and d.index == (1,) and it.args:
                        t = self.iter_term(it.args[0], d.node, depth + 1)
                    elif d.index is None:
                        t = self.iter_term(it, d.node, depth + 1)
                    else:
                        t = ("unk", e.id)
                    terms.add(t)
                elif d.kind == "assign" and d.value is not None and d.index is None:
                    v = d.value
                    if isinstance(v, (ast.Call, ast.Name)):
                        t = self.iter_term(v, d.node, depth + 1)
                        terms.add(t)
                    else:
                        terms.add(("unk", e.id))
                else:
                    terms.add(("unk", e.id))
            if len(terms) == 1:
                return terms.pop()
            return ("unk", e.id)
        return ("unk", ast.unparse(e))


def stores(f: FuncInfo, arrays, env: Optional[IndexEnv] = None) -> List[Store]:
    """all stores (assignment, augmented assignment) into self.<array> for array in `arrays`"""
    env = env or IndexEnv(f)
    cfg = env.rd.cfg
    out = []
    for n in cfg.nodes:
        st = n.ast
        if n.kind != "stmt" or st is None:
            continue
        tgts: List[Tuple[ast.AST, ast.AST, bool]] = []
        if isinstance(st, ast.Assign):
            for t in st.targets:
                for tt in (t.elts if isinstance(t, (ast.Tuple, ast.List)) else [t]):
                    tgts.append((tt, st.value, False))
        elif isinstance(st, ast.AugAssign):
            tgts.append((st.target, st.value, True))
        elif isinstance(st, ast.AnnAssign) and st.value is not None:
            tgts.append((st.target, st.value, False))
        for t, v, aug in tgts:
            root, idx = _flatten_subscripts(t)
            k = dotted(root)
            if k and k.startswith("self.") and k[5:] in arrays and k.count(".") == 1:
                terms = [env.term(i, n.id) for i in idx]
                out.append(Store(k[5:], terms, v, st, n.id, aug, t))
    return out


def loads(expr: ast.AST, arrays) -> List[Tuple[str, list]]:
    """(array, [index expr]) for every self.<array>[...] read inside expr (outermost subscripts only)"""
    out = []
    seen = set()
    for n in ast.walk(expr):
        if isinstance(n, ast.Subscript) and id(n) not in seen:
            root, idx = _flatten_subscripts(n)
            k = dotted(root)
            if k and k.startswith("self.") and k[5:] in arrays:
                out.append((k[5:], idx))
                x = n
                while isinstance(x, ast.Subscript):
                    seen.add(id(x))
                    x = x.value
        elif isinstance(n, ast.Attribute) and id(n) not in seen:
            k = dotted(n)
            if k and k.startswith("self.") and k[5:] in arrays and not isinstance(getattr(n, "parent", None), ast.Subscript):
                out.append((k[5:], []))
    return out


def covers(term, targets) -> bool:
    """does the index term stay inside the target index set? (targets: set of variable names)"""
    return term[0] in ("one", "sel") and term[1] in targets


def overlap(a, b) -> bool:
    """may two index terms address a common position? distinct variables are assumed distinct indices"""
    if a[0] == "unk" or b[0] == "unk":
        return False  # unknown: not claimed
    if a == ALL or b == ALL:
        return True
    if a[0] == "one" and b[0] == "one":
        return a[1] == b[1]
    if a[0] == "one" and b[0] == "allbut":
        return a[1] not in b[1]
    if b[0] == "one" and a[0] == "allbut":
        return b[1] not in a[1]
    if a[0] == "allbut" and b[0] == "allbut":
        return True
    if a[0] == "sel" or b[0] == "sel":
        return True
    return False
