"""command line: python -m sfa.main <Cxx> [--tier quick|thorough] [--replay FILE]"""
from __future__ import annotations

import importlib
import json
import os
import sys

from .report import VERIF, run_property


def main(argv):
    if not argv:
        print("usage: check <Cxx|all> [--tier quick|thorough] [--replay FILE]")
        return 2
    prop = argv[0]
    tier = os.environ.get("VERIF_TIER", "quick") or "quick"
    replay = None
    i = 1
    while i < len(argv):
        if argv[i] == "--tier":
            tier = argv[i + 1]
            i += 2
        elif argv[i] == "--replay":
            replay = argv[i + 1]
            i += 2
        else:
            i += 1
    if tier not in ("quick", "thorough"):
        tier = "quick"
    if prop == "all":
        rc = 0
        for k in range(1, 21):
            p = "C%02d" % k
            if os.path.exists(os.path.join(VERIF, "sfa", "rules", p.lower() + ".py")):
                rc = max(rc, _one(p, tier))
        return rc
    if replay:
        # a replay re-runs the rule set on the current tree and shows whether the recorded keys still fire
        try:
            with open(replay) as f:
                rec = json.load(f)
            print(f"replaying {len(rec)} recorded violation(s) from {replay}:")
            for r in rec:
                print(f"  {r.get('key')}: {r.get('msg')}")
        except (OSError, ValueError) as e:
            print(f"cannot read replay file: {e}")
    return _one(prop, tier)


def _one(prop, tier):
    try:
        mod = importlib.import_module(f"sfa.rules.{prop.lower()}")
    except ModuleNotFoundError:
        print(f"ANALYSIS-ERROR property={prop}: no rule module")
        return 2
    evdir = os.environ.get("SFA_EVIDENCE_DIR") or os.path.join(VERIF, "evidence")
    ev = os.path.join(evdir, f"{prop}.json")
    from .selftest import selftest

    def rules(ctx):
        mod.rules(ctx)
        # generic parameter-flow rule over the files the property is anchored in (properties.jsonl)
        from .rules.common_params import param_used
        files = []
        with open(os.path.join(VERIF, "properties.jsonl")) as fh:
            for line in fh:
                if line.strip():
                    p = json.loads(line)
                    if p.get("id") == prop:
                        files = p.get("anchors", {}).get("files", [])
        if files:
            # the anchored files and their siblings (same directory): a change aimed at the property lands next to its anchors
            dirs = {os.path.dirname(x) for x in files if os.path.dirname(x) != "strawberryfields"}
            sib = sorted({"strawberryfields/" + rel for rel in ctx.tree.modules
                          if os.path.dirname("strawberryfields/" + rel) in dirs and not rel.startswith("backends/tfbackend")})
            files = sorted(set(files) | set(sib))
            param_used(ctx, f"{prop}.param-used", files)
            from .rules.common_pitfalls import pitfalls
            pitfalls(ctx, f"{prop}.pitfalls", files)
            from .rules.common_pitfalls import dead_definitions
            dead_definitions(ctx, f"{prop}.pitfalls", files)
            from .rules.common_pitfalls import memo_keys
            memo_keys(ctx, f"{prop}.pitfalls", files)
            from .rules.common_params import option_forwarding, attribute_swap
            option_forwarding(ctx, f"{prop}.param-used", files)
            attribute_swap(ctx, f"{prop}.attr-swap", files)

    return run_property(prop, tier, rules, ev, selftest)


if __name__ == "__main__":
    sys.exit(main(sys.argv[1:]))
