"""E3 - reaching definitions on the CFG and the transitive 'derives-from' closure.

Variables are strings: plain names and attribute chains rooted at a name ('self.nmat', 'cmd.op').
A store to `a` kills `a` and every `a.*`; subscript stores and mutator calls are *weak* definitions
(they add to, but do not kill, what reaches).
"""
from __future__ import annotations

import ast
from typing import Dict, FrozenSet, Iterable, List, Optional, Set, Tuple

from .cfg import CFG, cfg_of
from .loader import dotted, walk_no_nested

MUTATORS = {
    "append", "extend", "insert", "remove", "pop", "update", "sort", "clear", "discard", "add",
    "setdefault", "reverse", "popitem", "fill", "resize", "put", "itemset", "appendleft", "popleft",
    "add_node", "add_edge", "add_nodes_from", "add_edges_from", "remove_node", "remove_edge",
    "remove_nodes_from", "remove_edges_from",
}


class Def:
    __slots__ = ("var", "node", "kind", "value", "index", "stmt", "extra")

    def __init__(self, var, node, kind, value, index=None, stmt=None, extra=None):
        self.var = var  # variable key
        self.node = node  # cfg node id
        self.kind = kind  # param assign aug for with unpack weak-sub weak-mut except import del
        self.value = value  # ast expression the value comes from (None for params)
        self.index = index  # position inside an unpacked tuple, or the subscript expr for weak-sub
        self.stmt = stmt
        self.extra = extra

    @property
    def weak(self):
        return self.kind.startswith("weak")

    def __repr__(self):
        v = ast.unparse(self.value)[:40] if isinstance(self.value, ast.AST) else self.value
        return f"Def({self.var}@{self.node}:{self.kind}={v})"


def target_key(t) -> Optional[str]:
    if isinstance(t, ast.Name):
        return t.id
    if isinstance(t, ast.Attribute):
        return dotted(t)
    if isinstance(t, ast.Starred):
        return target_key(t.value)
    return None


def _subscript_root(t):
    idx = []
    while isinstance(t, ast.Subscript):
        idx.append(t.slice)
        t = t.value
    return t, list(reversed(idx))


class ReachingDefs:
    def __init__(self, func_node: ast.AST, cfg: Optional[CFG] = None):
        self.func = func_node
        self.cfg = cfg or cfg_of(func_node)
        self.defs_at: Dict[int, List[Def]] = {}
        self.params: List[str] = []
        self._collect()
        self._solve()

    # ---- definitions per node ------------------------------------------------
    def _targets(self, t, value, nid, stmt, kind, out, path=()):
        if isinstance(t, (ast.Tuple, ast.List)):
            for i, e in enumerate(t.elts):
                self._targets(e, value, nid, stmt, "unpack" if kind in ("assign", "unpack") else kind, out, path + (i,))
            return
        if isinstance(t, ast.Starred):
            self._targets(t.value, value, nid, stmt, kind, out, path)
            return
        if isinstance(t, ast.Subscript):
            root, idx = _subscript_root(t)
            k = target_key(root)
            if k:
                out.append(Def(k, nid, "weak-sub", value, index=idx, stmt=stmt, extra=path or None))
            return
        k = target_key(t)
        if k:
            out.append(Def(k, nid, kind, value, index=path or None, stmt=stmt))

    def _collect(self):
        f = self.func
        cfg = self.cfg
        entry_defs = []
        if not isinstance(f, ast.Lambda):
            a = f.args
            for x in a.posonlyargs + a.args + a.kwonlyargs:
                self.params.append(x.arg)
            if a.vararg:
                self.params.append(a.vararg.arg)
            if a.kwarg:
                self.params.append(a.kwarg.arg)
        else:
            a = f.args
            self.params = [x.arg for x in a.posonlyargs + a.args + a.kwonlyargs]
        for p in self.params:
            entry_defs.append(Def(p, cfg.entry, "param", None))
        self.defs_at[cfg.entry] = entry_defs
        for n in cfg.nodes:
            st = n.ast
            out: List[Def] = []
            if n.kind == "stmt" and st is not None:
                if isinstance(st, ast.Assign):
                    for t in st.targets:
                        self._targets(t, st.value, n.id, st, "assign", out)
                elif isinstance(st, ast.AnnAssign) and st.value is not None:
                    self._targets(st.target, st.value, n.id, st, "assign", out)
                elif isinstance(st, ast.AugAssign):
                    t = st.target
                    if isinstance(t, ast.Subscript):
                        root, idx = _subscript_root(t)
                        k = target_key(root)
                        if k:
                            out.append(Def(k, n.id, "weak-sub", st.value, index=idx, stmt=st))
                    else:
                        k = target_key(t)
                        if k:
                            # x op= v : a strong definition computed from the previous value and v
                            out.append(Def(k, n.id, "aug", st.value, stmt=st))
                elif isinstance(st, (ast.Import, ast.ImportFrom)):
                    for al in st.names:
                        out.append(Def((al.asname or al.name).split(".")[0], n.id, "import", None, stmt=st))
                elif isinstance(st, ast.Delete):
                    for t in st.targets:
                        if isinstance(t, ast.Subscript):
                            root, idx = _subscript_root(t)
                            k = target_key(root)
                            if k:
                                out.append(Def(k, n.id, "weak-mut", None, index=idx, stmt=st, extra="del"))
                # mutator calls and walrus inside any simple statement
                for sub in walk_no_nested(st):
                    if isinstance(sub, ast.Call) and isinstance(sub.func, ast.Attribute) and sub.func.attr in MUTATORS:
                        k = target_key(sub.func.value)
                        if k is None and isinstance(sub.func.value, ast.Subscript):
                            root, _ = _subscript_root(sub.func.value)
                            k = target_key(root)
                        if k:
                            out.append(Def(k, n.id, "weak-mut", sub, stmt=st, extra=sub.func.attr))
                    elif isinstance(sub, ast.NamedExpr):
                        out.append(Def(sub.target.id, n.id, "assign", sub.value, stmt=st))
            elif n.kind == "stmt" and st is None and isinstance(n.stmt, (ast.FunctionDef, ast.ClassDef)):
                out.append(Def(n.stmt.name, n.id, "assign", None, stmt=n.stmt))
            elif n.kind == "for":
                self._targets(st.target, st.iter, n.id, st, "for", out)
            elif n.kind == "with":
                for it in st.items:
                    if it.optional_vars is not None:
                        self._targets(it.optional_vars, it.context_expr, n.id, st, "with", out)
            elif n.kind == "except":
                if st.name:
                    out.append(Def(st.name, n.id, "except", st.type, stmt=n.stmt))
            elif n.kind in ("if", "while") and st is not None:
                for sub in walk_no_nested(st):
                    if isinstance(sub, ast.NamedExpr):
                        out.append(Def(sub.target.id, n.id, "assign", sub.value, stmt=n.stmt))
            if out:
                self.defs_at[n.id] = out

    # ---- fixpoint --------------------------------------------------------------
    def _solve(self):
        cfg = self.cfg
        IN: Dict[int, Dict[str, FrozenSet[Def]]] = {i: {} for i in cfg.ids()}
        OUT: Dict[int, Dict[str, FrozenSet[Def]]] = {i: {} for i in cfg.ids()}

        def transfer(i, inn):
            ds = self.defs_at.get(i)
            if not ds:
                return inn
            out = dict(inn)
            for d in ds:
                if d.weak:
                    out[d.var] = frozenset(out.get(d.var, frozenset()) | {d})
                else:
                    pref = d.var + "."
                    for k in [k for k in out if k.startswith(pref)]:
                        del out[k]
                    # several strong defs of the same var in one node (a, a = ...) - last wins; union is safe
                    out[d.var] = frozenset({d})
            return out

        work = list(cfg.ids())
        inwork = set(work)
        while work:
            i = work.pop(0)
            inwork.discard(i)
            preds = cfg.pred[i]
            if preds:
                merged: Dict[str, Set[Def]] = {}
                for a, _l in preds:
                    for k, v in OUT[a].items():
                        merged.setdefault(k, set()).update(v)
                inn = {k: frozenset(v) for k, v in merged.items()}
            else:
                inn = {}
            IN[i] = inn
            out = transfer(i, inn)
            if out != OUT[i]:
                OUT[i] = out
                for b, _l in cfg.succ[i]:
                    if b not in inwork:
                        work.append(b)
                        inwork.add(b)
        self.IN = IN
        self.OUT = OUT

    # ---- queries ----------------------------------------------------------------
    def reaching(self, var: str, at: int, after=False) -> Set[Def]:
        """definitions of `var` (or of a prefix of an attribute chain) reaching node `at`"""
        env = self.OUT[at] if after else self.IN[at]
        out: Set[Def] = set()
        k = var
        while True:
            if k in env:
                out |= env[k]
                # a strong def of the exact key shadows prefixes
                if any(not d.weak for d in env[k]):
                    break
            if "." not in k:
                break
            k = k.rsplit(".", 1)[0]
        return out

    def all_defs(self, var: str) -> List[Def]:
        return [d for ds in self.defs_at.values() for d in ds if d.var == var]


_rd_cache: Dict[int, ReachingDefs] = {}


def rd_of(func_node) -> ReachingDefs:
    k = id(func_node)
    r = _rd_cache.get(k)
    if r is None or r.func is not func_node:
        r = ReachingDefs(func_node)
        _rd_cache[k] = r
    return r


# ---------------------------------------------------------------------------------
# derives-from closure
# ---------------------------------------------------------------------------------

class Deriv:
    """What an expression may be computed from (transitively through local definitions)."""

    def __init__(self):
        self.params: Set[str] = set()  # function parameters reached without a local redefinition
        self.attrs: Set[str] = set()  # attribute chains read with no local definition ('self.nmat')
        self.free: Set[str] = set()  # free names (globals / builtins) read
        self.calls: Set[str] = set()  # dotted names of calls on the way ('sorted', 'np.array', 'self.f')
        self.call_nodes: List[ast.Call] = []
        self.consts: List[object] = []
        self.exprs: List[ast.AST] = []  # every expression node visited
        self.defs: Set[Def] = set()
        self.attr_reads: Set[str] = set()  # every attribute name read anywhere on the way

    def has_call(self, *names) -> bool:
        return any(c in names or c.split(".")[-1] in names for c in self.calls)

    def reads(self, var: str) -> bool:
        """the variable / attribute chain is read on the way (whether or not it is also defined locally)"""
        return var in self.attrs or var in self.params or var in self.free or any(d.var == var for d in self.defs)

    def mentions(self, *names) -> bool:
        s = self.params | self.attrs | self.free
        return any(n in s for n in names)

    def __repr__(self):
        return f"Deriv(params={sorted(self.params)}, attrs={sorted(self.attrs)}, calls={sorted(self.calls)})"


def derives(func_node, expr: ast.AST, at: Optional[int] = None, rd: Optional[ReachingDefs] = None,
            stop_calls: Iterable[str] = (), follow_weak=True, max_steps=4000) -> Deriv:
    """Transitive closure of 'is computed from' for `expr` evaluated at CFG node `at`.

    stop_calls: dotted call names (or last components) that are *sanitisers*: the closure records the call
    but does not look inside its arguments.
    """
    rd = rd or rd_of(func_node)
    cfg = rd.cfg
    if at is None:
        ids = cfg.node_of_expr(expr)
        at = ids[0] if ids else cfg.entry
    stop = set(stop_calls)
    D = Deriv()
    seen: Set[Tuple[int, int]] = set()
    seen_defs: Set[Def] = set()
    steps = [0]

    def visit(e, node_id, bound: Dict[str, ast.AST]):
        if e is None:
            return
        steps[0] += 1
        if steps[0] > max_steps:
            return
        key = (id(e), node_id)
        if key in seen:
            return
        seen.add(key)
        D.exprs.append(e)
        if isinstance(e, ast.Constant):
            D.consts.append(e.value)
            return
        if isinstance(e, (ast.Name, ast.Attribute)):
            k = dotted(e)
            if isinstance(e, ast.Attribute):
                D.attr_reads.add(e.attr)
            if k is None:
                visit(e.value, node_id, bound)
                return
            root = k.split(".")[0]
            if root in bound:
                visit(bound[root], node_id, {x: y for x, y in bound.items() if x != root})
                return
            ds = rd.reaching(k, node_id)
            if not ds:
                if "." in k:
                    D.attrs.add(k)
                    # the root object itself
                    rds = rd.reaching(root, node_id)
                    for d in rds:
                        follow(d)
                    if not rds:
                        D.free.add(root)
                else:
                    D.free.add(k)
                return
            only_prefix = all(d.var != k for d in ds)
            if only_prefix and "." in k:
                D.attrs.add(k)
            elif all(d.weak for d in ds if d.var == k):
                # only in-place updates reach: the value from outside the function flows too
                (D.attrs if "." in k else D.free).add(k)
            for d in ds:
                follow(d)
            return
        if isinstance(e, ast.Call):
            cn = dotted(e.func) or (ast.unparse(e.func)[:40])
            D.calls.add(cn)
            D.call_nodes.append(e)
            if cn in stop or cn.split(".")[-1] in stop:
                return
            if isinstance(e.func, ast.Attribute):
                visit(e.func.value, node_id, bound)
            elif not isinstance(e.func, ast.Name):
                visit(e.func, node_id, bound)
            for a in e.args:
                visit(a.value if isinstance(a, ast.Starred) else a, node_id, bound)
            for kw in e.keywords:
                visit(kw.value, node_id, bound)
            return
        if isinstance(e, (ast.ListComp, ast.SetComp, ast.GeneratorExp, ast.DictComp)):
            b = dict(bound)
            for g in e.generators:
                for nm in [n.id for n in ast.walk(g.target) if isinstance(n, ast.Name)]:
                    b[nm] = g.iter
                for c in g.ifs:
                    visit(c, node_id, b)
            if isinstance(e, ast.DictComp):
                visit(e.key, node_id, b)
                visit(e.value, node_id, b)
            else:
                visit(e.elt, node_id, b)
            for g in e.generators:
                visit(g.iter, node_id, bound)
            return
        if isinstance(e, ast.Lambda):
            b = dict(bound)
            for a in e.args.args:
                b[a.arg] = ast.Constant(value=None)
            visit(e.body, node_id, b)
            return
        for ch in ast.iter_child_nodes(e):
            if isinstance(ch, (ast.expr_context, ast.operator, ast.unaryop, ast.cmpop, ast.boolop)):
                continue
            if isinstance(ch, ast.expr) or isinstance(ch, (ast.keyword, ast.comprehension, ast.Slice)):
                visit(ch if not isinstance(ch, ast.keyword) else ch.value, node_id, bound)

    def follow(d: Def):
        if d in seen_defs:
            return
        seen_defs.add(d)
        D.defs.add(d)
        if d.kind == "param":
            D.params.add(d.var)
            return
        if d.weak and not follow_weak:
            return
        if d.kind == "weak-mut":
            if isinstance(d.value, ast.Call):
                D.calls.add("." + d.extra)
                for a in d.value.args:
                    visit(a, d.node, {})
            return
        if d.value is not None:
            visit(d.value, d.node, {})
        if d.kind == "aug":
            prev = rd.reaching(d.var, d.node)
            if not prev:
                (D.attrs if "." in d.var else D.free).add(d.var)
            for pd in prev:
                follow(pd)
        if d.kind == "weak-sub" and d.index:
            for ix in d.index:
                visit(ix, d.node, {})

    # names bound by comprehensions that enclose the expression
    bound0: Dict[str, ast.AST] = {}
    pnode = getattr(expr, "parent", None)
    child = expr
    while pnode is not None and not isinstance(pnode, ast.stmt):
        if isinstance(pnode, (ast.ListComp, ast.SetComp, ast.GeneratorExp, ast.DictComp)):
            gens = pnode.generators
            # generators to the left of the one containing `child` bind names too
            for g in gens:
                if child is g.iter and g is gens[0]:
                    break
                for nm in [n.id for n in ast.walk(g.target) if isinstance(n, ast.Name)]:
                    bound0.setdefault(nm, g.iter)
        elif isinstance(pnode, ast.Lambda):
            for a in pnode.args.args:
                bound0.setdefault(a.arg, ast.Constant(value=None))
        child = pnode
        pnode = getattr(pnode, "parent", None)
    visit(expr, at, bound0)
    return D


# ---------------------------------------------------------------------------------
# single-definition locals: rules must not depend on how a local is called or on whether an expression
# was first stored in a temporary
# ---------------------------------------------------------------------------------

_single_cache: Dict[int, Dict[str, ast.AST]] = {}


def single_defs(func_node) -> Dict[str, ast.AST]:
    """locals of the function that are bound exactly once, by a plain `name = expr` (flow-insensitive, so the
    binding is the only value the name can have wherever it is read)"""
    k = id(func_node)
    r = _single_cache.get(k)
    if r is not None and r[0] is func_node:
        return r[1]
    from .loader import walk_no_nested
    count: Dict[str, int] = {}
    val: Dict[str, ast.AST] = {}
    a = getattr(func_node, "args", None)
    if a is not None:
        for p in a.args + a.kwonlyargs + a.posonlyargs + ([a.vararg] if a.vararg else []) + ([a.kwarg] if a.kwarg else []):
            count[p.arg] = 2
    for n in walk_no_nested(func_node):
        if isinstance(n, ast.Name) and isinstance(n.ctx, (ast.Store, ast.Del)):
            count[n.id] = count.get(n.id, 0) + 1
        if isinstance(n, ast.Assign) and len(n.targets) == 1 and isinstance(n.targets[0], ast.Name):
            val[n.targets[0].id] = n.value
        if isinstance(n, (ast.Global, ast.Nonlocal)):
            for x in n.names:
                count[x] = 2
    # comprehension / lambda targets live in their own scope but shadow: be conservative
    for n in ast.walk(func_node):
        if isinstance(n, ast.comprehension):
            for t in ast.walk(n.target):
                if isinstance(t, ast.Name):
                    count[t.id] = count.get(t.id, 0) + 2
    out = {k2: v for k2, v in val.items() if count.get(k2) == 1}
    _single_cache[k] = (func_node, out)
    return out


def resolve_local(func_node, expr, depth: int = 6, at: Optional[int] = None):
    """follow `name` -> its only definition while the expression is a local with one (reaching) plain definition.
    Flow-insensitive for single-definition locals; with reaching definitions (at the statement that contains the
    expression) for re-used temporaries."""
    sd = single_defs(func_node)
    rd = None
    while depth > 0 and isinstance(expr, ast.Name):
        if expr.id in sd:
            expr = sd[expr.id]
            depth -= 1
            continue
        try:
            rd = rd or rd_of(func_node)
            where = at
            if where is None:
                ids = rd.cfg.node_of_expr(expr)
                where = ids[0] if ids else None
            if where is None:
                break
            ds = [d for d in rd.reaching(expr.id, where) if not d.weak]
            if len(ds) == 1 and ds[0].kind == "assign" and isinstance(ds[0].value, ast.AST) and ds[0].index is None \
                    and not [d for d in rd.reaching(expr.id, where) if d.weak]:
                at = ds[0].node
                expr = ds[0].value
                depth -= 1
                continue
        except Exception:
            break
        break
    return expr


def clone_ast(node):
    """structural copy of an expression that does not follow the `parent` links the loader adds"""
    if isinstance(node, ast.AST):
        new = node.__class__()
        for name in node._fields:
            if hasattr(node, name):
                setattr(new, name, clone_ast(getattr(node, name)))
        for a in ("lineno", "col_offset", "end_lineno", "end_col_offset"):
            if hasattr(node, a):
                setattr(new, a, getattr(node, a))
        return new
    if isinstance(node, list):
        return [clone_ast(x) for x in node]
    return node


def expand_locals(func_node, expr, depth: int = 4, at: Optional[int] = None, keep=()):
    """a copy of `expr` in which every single-definition local is replaced by its defining expression; with `at` (the CFG
    node where the expression is evaluated) also re-used temporaries with exactly one reaching plain definition"""
    sd = single_defs(func_node)
    rd = None
    if at is None:
        try:
            ids = rd_of(func_node).cfg.node_of_expr(expr)
            at = ids[0] if ids else None
        except Exception:
            at = None

    def lookup(n, where):
        nonlocal rd
        if n.id in keep:
            return None, None
        if n.id in sd:
            return sd[n.id], None
        if where is None:
            return None, None
        try:
            rd = rd or rd_of(func_node)
            all_ds = rd.reaching(n.id, where)
            ds = [d for d in all_ds if not d.weak]
            if len(ds) == 1 and len(all_ds) == 1 and ds[0].kind == "assign" and isinstance(ds[0].value, ast.AST) and ds[0].index is None:
                return ds[0].value, ds[0].node
        except Exception:
            pass
        return None, None

    def go(n, d, where):
        if isinstance(n, ast.Name) and isinstance(n.ctx, ast.Load) and d > 0:
            v, w2 = lookup(n, where)
            if v is not None:
                return go(v, d - 1, w2 if w2 is not None else where)
        if isinstance(n, ast.AST):
            new = n.__class__()
            for name in n._fields:
                if hasattr(n, name):
                    setattr(new, name, go(getattr(n, name), d, where))
            for a in ("lineno", "col_offset", "end_lineno", "end_col_offset"):
                if hasattr(n, a):
                    setattr(new, a, getattr(n, a))
            return new
        if isinstance(n, list):
            return [go(x, d, where) for x in n]
        return n

    return go(expr, depth, at)


def return_values(func_node):
    """(return statement, value with a single-definition temporary resolved) for every valued return"""
    from .loader import walk_no_nested
    out = []
    for n in walk_no_nested(func_node):
        if isinstance(n, ast.Return) and n.value is not None:
            out.append((n, resolve_local(func_node, n.value)))
    return out


def resolve_name(func_node, expr, at: Optional[int] = None, depth: int = 6):
    """like resolve_local, but only through name-to-name copies (`_ret = compiled; return _ret` -> `compiled`)"""
    while depth > 0 and isinstance(expr, ast.Name):
        nxt = resolve_local(func_node, expr, depth=1, at=at)
        if isinstance(nxt, ast.Name) and nxt is not expr:
            expr = nxt
            depth -= 1
            continue
        break
    return expr
