"""Two-sided self-test of the checker (thorough tier).

Every case is an edit of one file of the package, applied to a scratch copy of the *current* working
tree under a fresh temp dir (outside /repo and /verif, removed afterwards):

    fire    - a mutation witness: the named rule must report a violation whose key contains `key`
    silent  - a behaviour-preserving twin: the property's rule set must report nothing new

A failing self-test is an analysis error of the checker (exit 2), never a property violation.
Edits are located by exact statement text inside a named file (and must match exactly once), so they
survive line movement; if the text is gone the case is reported as 'stale' (not a failure: the tree
changed, e.g. a mutation under test removed the anchor).
"""
from __future__ import annotations

import importlib
import json
import os
import shutil
import subprocess
import sys
import tempfile
from concurrent.futures import ThreadPoolExecutor
from typing import Dict, List

from .loader import AnalysisError, PKG, repo_root
from .report import VERIF


def _copy_pkg(dst_root: str):
    src = os.path.join(repo_root(), PKG)
    dst = os.path.join(dst_root, PKG)
    shutil.copytree(src, dst, ignore=shutil.ignore_patterns("__pycache__", "*.pyc", "*.so", "*.npz", "*.npy"))
    return dst


def _apply(pkgdir: str, edits) -> str:
    """returns '' if applied, else reason"""
    for rel, old, new in edits:
        p = os.path.join(pkgdir, rel)
        if not os.path.exists(p):
            return f"file {rel} missing"
        with open(p, encoding="utf-8") as f:
            s = f.read()
        c = s.count(old)
        if c != 1:
            return f"anchor text matches {c} times in {rel}: {old[:50]!r}"
        s = s.replace(old, new)
        try:
            compile(s, rel, "exec")
        except SyntaxError as e:
            return f"variant does not compile: {e}"
        with open(p, "w", encoding="utf-8") as f:
            f.write(s)
    return ""


def run_case(prop: str, case: dict) -> dict:
    tmp = tempfile.mkdtemp(prefix="sfa_selftest_")
    try:
        pkgdir = _copy_pkg(tmp)
        if "patch" in case:
            pr = subprocess.run(["patch", "-p1", "-s", "-f", "-d", tmp, "-i", case["patch"]], capture_output=True, text=True)
            why = "" if pr.returncode == 0 else "patch does not apply to this tree: " + (pr.stdout + pr.stderr)[-200:]
        else:
            why = _apply(pkgdir, case["edits"])
        if why:
            return {"id": case["id"], "status": "stale", "why": why}
        env = dict(os.environ)
        env["SFA_REPO"] = tmp
        env["SFA_EVIDENCE_DIR"] = os.path.join(tmp, "evidence")
        env["VERIF_TIER"] = "quick"
        env["PYTHONDONTWRITEBYTECODE"] = "1"
        r = subprocess.run([sys.executable, "-m", "sfa.main", prop, "--tier", "quick"], cwd=VERIF, env=env,
                           capture_output=True, text=True, timeout=600)
        out = r.stdout
        vfile = os.path.join(tmp, "evidence", f"{prop}.violations.json")
        keys = []
        if os.path.exists(vfile):
            with open(vfile) as f:
                keys = [v.get("key", "") for v in json.load(f)]
        if case["expect"] == "fire":
            want = case.get("key", "")
            hit = [k for k in keys if want in k]
            ok = r.returncode == 1 and bool(hit)
            return {"id": case["id"], "status": "ok" if ok else "FAILED", "expect": "fire", "rc": r.returncode,
                    "keys": keys[:6], "want": want, "tail": out[-600:] if not ok else ""}
        ok = r.returncode == 0
        return {"id": case["id"], "status": "ok" if ok else "FAILED", "expect": "silent", "rc": r.returncode,
                "keys": keys[:6], "tail": out[-600:] if not ok else ""}
    except subprocess.TimeoutExpired:
        return {"id": case["id"], "status": "FAILED", "why": "timeout"}
    finally:
        shutil.rmtree(tmp, ignore_errors=True)


def run_metamorph(prop: str, name: str, base_keys) -> dict:
    """the property's rule set on a behaviour-preserving transformation of the whole package: same failing keys"""
    from .metamorph import transform
    tmp = tempfile.mkdtemp(prefix="sfa_selftest_")
    try:
        _copy_pkg(tmp)
        try:
            transform(tmp, name)
        except SyntaxError as e:  # the tree under analysis does not parse: not this test's business
            return {"id": "metamorph:" + name, "status": "stale", "why": str(e)}
        env = dict(os.environ)
        env["SFA_REPO"] = tmp
        env["SFA_EVIDENCE_DIR"] = os.path.join(tmp, "evidence")
        env["VERIF_TIER"] = "quick"
        env["PYTHONDONTWRITEBYTECODE"] = "1"
        r = subprocess.run([sys.executable, "-m", "sfa.main", prop, "--tier", "quick"], cwd=VERIF, env=env,
                           capture_output=True, text=True, timeout=600)
        keys = set()
        vfile = os.path.join(tmp, "evidence", f"{prop}.violations.json")
        if os.path.exists(vfile):
            with open(vfile) as f:
                keys = {v.get("key", "") for v in json.load(f)}
        for line in r.stdout.splitlines():
            if line.startswith("KNOWN-FINDING:"):
                keys.add(line.split()[2])
        ok = r.returncode in (0, 1) and keys == set(base_keys)
        return {"id": "metamorph:" + name, "status": "ok" if ok else "FAILED", "expect": "same-keys", "rc": r.returncode,
                "keys": sorted(keys ^ set(base_keys))[:6], "tail": r.stdout[-600:] if not ok else ""}
    except subprocess.TimeoutExpired:
        return {"id": "metamorph:" + name, "status": "FAILED", "why": "timeout"}
    finally:
        shutil.rmtree(tmp, ignore_errors=True)


def seed_cases(prop: str) -> List[dict]:
    """the confirmed seeded changes kept under /verif/seeded (made by independent sub-agents, each shown to break the
    property while passing the test suite) that this property's check is recorded to detect: mutation witnesses"""
    out = []
    root = os.path.join(VERIF, "seeded")
    if not os.path.isdir(root):
        return out
    for d in sorted(os.listdir(root)):
        mp, pp = os.path.join(root, d, "meta.json"), os.path.join(root, d, "patch.diff")
        if not (os.path.exists(mp) and os.path.exists(pp)):
            continue
        try:
            with open(mp) as f:
                meta = json.load(f)
        except ValueError:
            continue
        hits = (meta.get("detected_by") or {}).get(prop) or []
        if not hits:
            continue
        rule = hits[0].split(" @ ")[0].strip()
        out.append({"id": "seed:" + d, "expect": "fire", "key": rule, "patch": pp})
    return out


def cases_for(prop: str) -> List[dict]:
    try:
        mod = importlib.import_module(f"sfa.cases.{prop.lower()}")
        cases = list(mod.CASES)
    except ModuleNotFoundError:
        cases = []
    return cases + seed_cases(prop)


def selftest(ctx, only=None):
    """run from the thorough tier of a property; raises AnalysisError if the checker fails its own test"""
    prop = ctx.prop
    cases = [c for c in cases_for(prop) if only is None or c["id"] in only]
    from .metamorph import T as TRANSFORMS
    base_keys = {o.key for o in ctx.obls if not o.ok}
    jobs = [("case", c) for c in cases] + ([("meta", n) for n in sorted(TRANSFORMS)] if only is None else [])
    with ThreadPoolExecutor(max_workers=min(16, len(jobs))) as ex:
        results = list(ex.map(lambda j: run_case(prop, j[1]) if j[0] == "case" else run_metamorph(prop, j[1], base_keys), jobs))
    failed = [r for r in results if r["status"] == "FAILED"]
    stale = [r for r in results if r["status"] == "stale"]
    okc = [r for r in results if r["status"] == "ok"]
    ctx.note(f"selftest: {len(okc)} ok, {len(stale)} stale, {len(failed)} failed of {len(results)} variants "
             f"({sum(1 for c in cases if c['expect'] == 'fire')} mutation witnesses, "
             f"{sum(1 for c in cases if c['expect'] == 'silent')} behaviour-preserving twins, "
             f"{sum(1 for j in jobs if j[0] == 'meta')} whole-package behaviour-preserving transformations)")
    ctx.selftest = {"ok": len(okc), "stale": [r["id"] + ": " + r.get("why", "") for r in stale],
                    "failed": failed, "total": len(results)}
    for r in stale:
        print(f"selftest: stale case {r['id']}: {r.get('why')}")
    if failed:
        for r in failed:
            print(f"selftest FAILED {r['id']}: expected {r.get('expect')} rc={r.get('rc')} keys={r.get('keys')} "
                  f"want={r.get('want')}\n{r.get('tail', '')}")
        raise AnalysisError(f"checker self-test failed for {len(failed)} variant(s): {[r['id'] for r in failed]}")


def main(argv):
    prop = argv[0]
    only = set(argv[1:]) or None
    cases = [c for c in cases_for(prop) if only is None or c["id"] in only]
    with ThreadPoolExecutor(max_workers=16) as ex:
        results = list(ex.map(lambda c: run_case(prop, c), cases))
    bad = 0
    for r in results:
        print(r["status"], r["id"], r.get("expect", ""), "rc=%s" % r.get("rc"), r.get("why", ""),
              (r.get("keys") if r["status"] != "ok" else ""))
        if r["status"] == "FAILED":
            print(r.get("tail", ""))
            bad += 1
    return 1 if bad else 0


if __name__ == "__main__":
    sys.exit(main(sys.argv[1:]))
