"""E6 - abstract interpretation over 'powers of hbar'.

Domain: Fraction (the power of hbar a value scales with) | ANY (literal 0 / empty: polymorphic) | TOP
(unknown).  Only a *proved* contradiction (two different Fractions meeting in + - == or at a declared
slot) is reported; everything else is TOP.
"""
from __future__ import annotations

import ast
from fractions import Fraction as Fr
from typing import Callable, Dict, List, Optional, Tuple

from .dataflow import rd_of
from .loader import FuncInfo, dotted, walk_no_nested

TOP = "TOP"
ANY = "ANY"
H = Fr(1, 2)

HBAR_ATTRS = {"hbar", "_hbar"}
DIMLESS_FUNCS = {  # argument must be dimensionless, result dimensionless
    "exp", "log", "cos", "sin", "tan", "tanh", "sinh", "cosh", "arccos", "arctan", "arctanh", "arcsin",
    "arccosh", "arcsinh", "angle", "arctan2", "acosh", "asinh", "atan", "atan2", "sign", "erf", "erfc", "log2",
    "log10", "expm1", "factorial", "gamma", "binom", "comb",
}
SAME_FUNCS = {  # result has the dimension of the first argument
    "array", "asarray", "real", "imag", "conj", "conjugate", "real_if_close", "transpose", "diag", "trace", "sum",
    "copy", "abs", "absolute", "squeeze", "sort", "mean", "atleast_1d", "atleast_2d", "repeat", "reshape",
    "vstack", "hstack", "diagonal", "matrix", "tile", "expand_dims", "flatten", "ravel", "tolist", "astype",
    "float", "complex", "cumsum", "max", "min", "amax", "amin", "round", "around", "negative", "deepcopy",
    "xxpp_to_xpxp", "xpxp_to_xxpp", "block_diag", "roll", "flip", "delete", "nan_to_num", "item", "swapaxes",
    "triu", "tril", "kron_first",
}
UNIFY_SEQ_FUNCS = {"concatenate", "append", "stack", "column_stack", "union1d"}
ZERO_FUNCS = {"identity", "eye", "ones", "ones_like", "arange", "linspace", "len", "range", "int", "bool", "isclose",
              "allclose_", "shape", "ndim", "size", "argsort", "argmax", "argmin", "where", "isin", "logical_not",
              "logical_and", "logical_or", "any", "all", "Xmat", "sympmat", "rotation_matrix"}
ANY_FUNCS = {"zeros", "zeros_like", "empty", "empty_like"}
MUL_FUNCS = {"dot", "matmul", "outer", "kron", "multiply", "inner", "vdot", "tensordot", "einsum", "multi_dot"}


def lit(v):
    if isinstance(v, bool):
        return Fr(0)
    if isinstance(v, (int, float, complex)):
        return ANY if v == 0 else Fr(0)
    return TOP


def show(d):
    if d in (TOP, ANY):
        return d
    return f"hbar^{d}" if d != 0 else "hbar^0"


class Conflict:
    def __init__(self, node, what, a, b):
        self.node, self.what, self.a, self.b = node, what, a, b

    def text(self):
        return f"{self.what}: {show(self.a)} vs {show(self.b)} in `{ast.unparse(self.node)[:80]}`"


class DimEval:
    """evaluates expressions of one function"""

    def __init__(self, f: FuncInfo, decl: Dict[str, object], call_dims: Optional[Callable] = None,
                 hbar_names=("hbar",)):
        self.f = f
        self.decl = dict(decl)  # var key ('x', 'self._mu') -> dim
        self.rd = rd_of(f.node)
        self.conflicts: List[Conflict] = []
        self._memo: Dict[Tuple[int, int], object] = {}
        self._stack = set()
        self._aug_guard = set()
        self._bound = set()  # comprehension variables currently bound through self.decl
        self.call_dims = call_dims  # (call node, evaluator) -> dim or None
        self.hbar_names = set(hbar_names)

    # -- algebra ---------------------------------------------------------------------
    def unify(self, a, b, node, what):
        if a == TOP or b == TOP:
            return TOP
        if a == ANY:
            return b
        if b == ANY:
            return a
        if a != b:
            self.conflicts.append(Conflict(node, what, a, b))
            return TOP
        return a

    @staticmethod
    def mul(a, b):
        if TOP in (a, b):
            return TOP
        if a == ANY or b == ANY:
            return ANY
        return a + b

    @staticmethod
    def div(a, b):
        if TOP in (a, b):
            return TOP
        if a == ANY:
            return ANY
        if b == ANY:
            return TOP
        return a - b

    # -- names ------------------------------------------------------------------------
    def var(self, key: str, at: int, node):
        if ("!" + key) in self.decl:
            return self.decl["!" + key]
        if key in self.decl:
            if "." in key or key in self._bound:
                return self.decl[key]
            ds0 = self.rd.reaching(key, at)
            if not ds0 or all(d.kind == "param" for d in ds0):
                return self.decl[key]
            # a declared parameter that was re-assigned locally: evaluate the new value
        last = key.split(".")[-1]
        if last in HBAR_ATTRS and "." in key:
            return Fr(1)
        ds = self.rd.reaching(key, at)
        if not ds:
            if key in self.hbar_names:
                return Fr(1)
            return TOP
        out = None
        for d in ds:
            if len(ds) > 1 and d.var == key and not d.weak and self._none_only(d, key, at):
                continue  # this definition reaches `at` only on paths where the variable is None
            if d.var != key and d.kind != "param":
                # a definition of a prefix object: unknown attribute content
                v = TOP
            elif d.kind == "param":
                v = Fr(1) if d.var in self.hbar_names else TOP
            elif d.kind in ("assign",) and d.value is not None and d.index is None:
                v = self.ev(d.value, d.node)
            elif d.kind == "unpack" and d.value is not None and d.index is not None and \
                    isinstance(d.value, (ast.Tuple, ast.List)) and len(d.index) == 1 and d.index[0] < len(d.value.elts):
                v = self.ev(d.value.elts[d.index[0]], d.node)
            elif d.kind == "unpack" and d.value is not None and isinstance(d.value, ast.Call):
                r = self.call_dims(d.value, self, d.node) if self.call_dims else None
                v = r[d.index[0]] if isinstance(r, tuple) and d.index and len(d.index) == 1 and d.index[0] < len(r) else TOP
            elif d.kind == "for" and d.value is not None and d.index is None:
                v = self.ev(d.value, d.node)  # element of a sequence has the dimension of the sequence
            elif d.kind == "aug" and d.value is not None:
                st = d.stmt
                if (key, d.node) in self._aug_guard:
                    continue  # the loop-carried copy of the definition being evaluated
                self._aug_guard.add((key, d.node))
                try:
                    prev = self.var(key, d.node, node)
                    rhs = self.ev(d.value, d.node)
                finally:
                    self._aug_guard.discard((key, d.node))
                if isinstance(st.op, (ast.Add, ast.Sub)):
                    v = prev if prev not in (ANY,) else rhs
                elif isinstance(st.op, (ast.Mult, ast.MatMult)):
                    v = self.mul(prev, rhs)
                elif isinstance(st.op, (ast.Div, ast.FloorDiv)):
                    v = self.div(prev, rhs)
                else:
                    v = TOP
            elif d.weak:
                continue
            else:
                v = TOP
            if out is None:
                out = v
            elif out != v:
                if out == ANY:
                    out = v
                elif v == ANY:
                    pass
                else:
                    out = TOP
        return TOP if out is None else out

    def _none_only(self, d, key, at) -> bool:
        """definition d of `key` reaches node `at` only through the 'is None' side of a test on key"""
        cfg = self.rd.cfg
        skip = []
        for n in cfg.nodes:
            if n.kind != "if" or not isinstance(n.ast, ast.Compare) or len(n.ast.ops) != 1:
                continue
            c = n.ast
            if dotted(c.left) == key and isinstance(c.comparators[0], ast.Constant) and c.comparators[0].value is None:
                if isinstance(c.ops[0], ast.IsNot):
                    skip.append((n.id, "f"))
                elif isinstance(c.ops[0], ast.Is):
                    skip.append((n.id, "t"))
        if not skip:
            return False
        killers = {i for i, ds in self.rd.defs_at.items() for x in ds if x.var == key and not x.weak and x is not d}
        killers.discard(at)
        starts = [b for b, l in cfg.succ[d.node]]
        r = cfg.reachable(starts, avoid=killers, skip_edges=skip)
        return at not in r

    # -- expressions -----------------------------------------------------------------
    def ev(self, n, at: int):
        key = (id(n), at)
        if key in self._memo:
            return self._memo[key]
        if key in self._stack:
            return TOP
        self._stack.add(key)
        try:
            v = self._ev(n, at)
        finally:
            self._stack.discard(key)
        self._memo[key] = v
        return v

    def _ev(self, n, at):
        if isinstance(n, ast.Constant):
            return lit(n.value)
        if isinstance(n, ast.Name):
            return self.var(n.id, at, n)
        if isinstance(n, ast.Attribute):
            if n.attr in ("real", "imag", "T", "flat"):
                return self.ev(n.value, at)
            if n.attr == "pi" or n.attr in ("e", "inf", "newaxis"):
                return Fr(0)
            if n.attr in ("shape", "size", "ndim", "dtype"):
                return Fr(0)
            k = dotted(n)
            if k is None:
                return TOP
            return self.var(k, at, n)
        if isinstance(n, ast.UnaryOp):
            if isinstance(n.op, ast.Not):
                return Fr(0)
            return self.ev(n.operand, at)
        if isinstance(n, ast.BinOp):
            a = self.ev(n.left, at)
            b = self.ev(n.right, at)
            if isinstance(n.op, (ast.Mult, ast.MatMult)):
                return self.mul(a, b)
            if isinstance(n.op, (ast.Div, ast.FloorDiv)):
                return self.div(a, b)
            if isinstance(n.op, (ast.Add, ast.Sub)):
                return self.unify(a, b, n, "sum of quantities with different powers of hbar")
            if isinstance(n.op, ast.Mod):
                return a
            if isinstance(n.op, ast.Pow):
                if a == TOP:
                    return TOP
                if a == ANY:
                    return ANY
                e = n.right
                neg = False
                if isinstance(e, ast.UnaryOp) and isinstance(e.op, ast.USub):
                    neg = True
                    e = e.operand
                if isinstance(e, ast.Constant) and isinstance(e.value, (int, float)) and not isinstance(e.value, bool):
                    p = Fr(e.value).limit_denominator(16)
                    return a * (-p if neg else p)
                if a == 0:
                    return Fr(0)
                return TOP
            return TOP
        if isinstance(n, ast.Subscript):
            return self.ev(n.value, at)
        if isinstance(n, (ast.List, ast.Tuple, ast.Set)):
            # heterogeneous displays are legal ([mu, cov]); a common dimension only if all elements agree
            d = ANY
            for e in n.elts:
                x = self.ev(e.value if isinstance(e, ast.Starred) else e, at)
                if x == TOP:
                    return TOP
                if d == ANY:
                    d = x
                elif x != ANY and x != d:
                    return TOP
            return d
        if isinstance(n, ast.IfExp):
            a = self.ev(n.body, at)
            b = self.ev(n.orelse, at)
            return a if a == b else (b if a == ANY else a if b == ANY else TOP)
        if isinstance(n, ast.Compare):
            a = self.ev(n.left, at)
            for op, c in zip(n.ops, n.comparators):
                b = self.ev(c, at)
                if isinstance(op, (ast.Lt, ast.LtE, ast.Gt, ast.GtE, ast.Eq, ast.NotEq)):
                    self.unify(a, b, n, "comparison of quantities with different powers of hbar")
                a = b
            return Fr(0)
        if isinstance(n, ast.BoolOp):
            for v in n.values:
                self.ev(v, at)
            return TOP
        if isinstance(n, (ast.ListComp, ast.GeneratorExp, ast.SetComp)):
            return self._comp(n, at)
        if isinstance(n, ast.Call):
            return self._call(n, at)
        if isinstance(n, ast.JoinedStr):
            return TOP
        return TOP

    def _comp(self, n, at):
        # bind comprehension variables to the dimension of their iterables
        saved = dict(self.decl)
        saved_bound = set(self._bound)
        try:
            for g in n.generators:
                for x in ast.walk(g.target):
                    if isinstance(x, ast.Name):
                        self._bound.add(x.id)
                d = self.ev(g.iter, at)
                if isinstance(g.target, ast.Name):
                    self.decl[g.target.id] = d if not (isinstance(g.iter, ast.Call) and
                                                        (dotted(g.iter.func) or "").split(".")[-1] in
                                                        ("range", "enumerate", "zip", "product")) else TOP
                else:
                    for x in ast.walk(g.target):
                        if isinstance(x, ast.Name):
                            self.decl[x.id] = TOP
            self._memo = {k: v for k, v in self._memo.items() if k[1] != at}
            return self.ev(n.elt, at)
        finally:
            self.decl = saved
            self._bound = saved_bound
            self._memo = {k: v for k, v in self._memo.items() if k[1] != at}

    def _call(self, n: ast.Call, at):
        fn = n.func
        name = fn.attr if isinstance(fn, ast.Attribute) else (fn.id if isinstance(fn, ast.Name) else None)
        args = [self.ev(a.value if isinstance(a, ast.Starred) else a, at) for a in n.args]
        for kw in n.keywords:
            self.ev(kw.value, at)
        if self.call_dims is not None:
            r = self.call_dims(n, self, at)
            if r is not None and not isinstance(r, tuple):
                return r
        recv = self.ev(fn.value, at) if isinstance(fn, ast.Attribute) and not _is_module(fn.value) else None
        if name == "sqrt" and args:
            a = args[0]
            return a if a in (TOP, ANY) else a / 2
        if name == "inv" and args:
            a = args[0]
            return a if a in (TOP, ANY) else -a
        if name == "det" and args:
            return Fr(0) if args[0] == 0 else TOP
        if name in DIMLESS_FUNCS:
            for a in args:
                if a not in (TOP, ANY) and a != 0:
                    self.conflicts.append(Conflict(n, f"argument of {name}() must be dimensionless", a, Fr(0)))
            return Fr(0)
        if name in MUL_FUNCS:
            ops = args
            if name == "einsum" and n.args and isinstance(n.args[0], ast.Constant) and isinstance(n.args[0].value, str):
                ops = args[1:]
            d = Fr(0)
            for a in ops:
                d = self.mul(d, a)
            return d
        if name in UNIFY_SEQ_FUNCS and args:
            if name == "append" and recv is not None and isinstance(fn.value, ast.Name):
                return TOP  # list.append
            d = args[0]
            for a in args[1:2] if name in ("append", "union1d") else ():
                d = self.unify(d, a, n, f"{name}() joins quantities with different powers of hbar")
            return d
        if name in ("allclose", "isclose", "array_equal") and len(args) >= 2:
            self.unify(args[0], args[1], n, "comparison of quantities with different powers of hbar")
            return Fr(0)
        if name in ZERO_FUNCS:
            return Fr(0)
        if name in ANY_FUNCS:
            return ANY
        if name in SAME_FUNCS:
            if recv is not None and not args:
                return recv
            if recv is not None and name in ("reshape", "astype", "repeat", "transpose", "sum", "mean", "dot",
                                             "conj", "conjugate", "copy", "flatten", "ravel", "tolist", "item",
                                             "squeeze", "round", "max", "min", "diagonal", "trace", "swapaxes"):
                return recv
            return args[0] if args else TOP
        if name in ("normal", "multivariate_normal") and args:
            return args[0]
        if name == "get" and isinstance(fn, ast.Attribute):
            return TOP
        return TOP


def _is_module(e) -> bool:
    return isinstance(e, ast.Name) and e.id in ("np", "numpy", "math", "sp", "scipy", "twq", "pf", "ssp", "sf",
                                               "symp", "ops", "dec", "tf", "nx", "it", "itertools")


def analyse(f: FuncInfo, decl: Dict[str, object], call_dims=None, hbar_names=("hbar",)) -> DimEval:
    """evaluate every statement of f; returns the evaluator with .conflicts and lets callers query dims"""
    ev = DimEval(f, decl, call_dims, hbar_names)
    cfg = ev.rd.cfg
    for nd in cfg.nodes:
        st = nd.ast
        if st is None:
            continue
        if nd.kind == "stmt":
            if isinstance(st, (ast.Assign, ast.AnnAssign)) and getattr(st, "value", None) is not None:
                v = ev.ev(st.value, nd.id)
                tg = st.targets if isinstance(st, ast.Assign) else [st.target]
                for t in tg:
                    base = t
                    while isinstance(base, ast.Subscript):
                        base = base.value
                    k = dotted(base)
                    if k and k in ev.decl:
                        ev.unify(ev.decl[k], v, st, f"value stored in `{k}` (declared {show(ev.decl[k])})")
                    elif k and isinstance(t, ast.Subscript):
                        cur = ev.var(k, nd.id, base)
                        ev.unify(cur, v, st, f"element stored into `{k}`")
            elif isinstance(st, ast.AugAssign):
                v = ev.ev(st.value, nd.id)
                base = st.target
                while isinstance(base, ast.Subscript):
                    base = base.value
                k = dotted(base)
                cur = ev.var(k, nd.id, base) if k else TOP
                if isinstance(st.op, (ast.Add, ast.Sub)):
                    ev.unify(cur, v, st, f"in-place sum on `{k}`")
                elif k and k in ev.decl and v not in (TOP, ANY) and v != 0 and isinstance(st.op, (ast.Mult, ast.Div)):
                    ev.conflicts.append(Conflict(st, f"in-place rescaling of declared `{k}` by a dimensionful factor",
                                                 ev.decl[k], ev.mul(ev.decl[k], v) if isinstance(st.op, ast.Mult)
                                                 else ev.div(ev.decl[k], v)))
            elif isinstance(st, ast.Return) and st.value is not None:
                ev.ev(st.value, nd.id)
            elif isinstance(st, ast.Expr):
                ev.ev(st.value, nd.id)
        elif nd.kind in ("if", "while"):
            ev.ev(st, nd.id)
    return ev
