"""E7 (part) - which parameters / expressions are *mode indices*.

Seeds: the backend API declared in backends/base.py names its mode arguments mode / modes / mode1 / mode2.
Overrides inherit the kind by position; the kind is propagated through call sites into the circuit
classes (self.circuit.m(...), self.m(...)) by a fixpoint over 'index-like' argument expressions.
"""
from __future__ import annotations

import ast
from typing import Dict, List, Optional, Set

from .dataflow import rd_of
from .loader import ClassInfo, FuncInfo, Tree, dotted, walk_no_nested

MODE_NAMES = ("mode", "modes", "mode1", "mode2")
WRAPPERS = {"list", "tuple", "array", "np.array", "np.asarray", "asarray", "sorted", "np.sort", "np.atleast_1d"}


def attr_types(tree: Tree, cls: ClassInfo) -> Dict[str, ClassInfo]:
    """self.<a> = Class(...) anywhere in the class (MRO) -> a: Class"""
    out: Dict[str, ClassInfo] = {}
    for c in cls.mro():
        for m in c.methods.values():
            for n in walk_no_nested(m.node):
                if isinstance(n, ast.Assign) and isinstance(n.value, ast.Call):
                    cn = dotted(n.value.func)
                    if not cn:
                        continue
                    r = tree.resolve_dotted(c.module, cn)
                    if r and r[0] == "class":
                        for t in n.targets:
                            k = dotted(t)
                            if k and k.startswith("self.") and k.count(".") == 1:
                                out.setdefault(k[5:], r[1])
    return out


def resolve_call(tree: Tree, f: FuncInfo, call: ast.Call, types_cache: dict) -> Optional[FuncInfo]:
    """resolve self.m(), self.attr.m(), super().m(), module.func(), func() to a FuncInfo of the package"""
    fn = call.func
    cls = f.cls
    if isinstance(fn, ast.Attribute):
        recv = fn.value
        if isinstance(recv, ast.Name) and recv.id == "self" and cls is not None:
            return cls.lookup(fn.attr)
        if isinstance(recv, ast.Call) and dotted(recv.func) == "super" and cls is not None:
            owner = cls
            return cls.lookup_after(owner, fn.attr)
        k = dotted(recv)
        if k and k.startswith("self.") and cls is not None and k.count(".") == 1:
            if cls not in types_cache:
                types_cache[cls] = attr_types(tree, cls)
            t = types_cache[cls].get(k[5:])
            if t is not None:
                return t.lookup(fn.attr)
            return None
        d = dotted(fn)
        if d:
            r = tree.resolve_dotted(f.module, d)
            if r and r[0] == "func":
                return r[1]
        return None
    if isinstance(fn, ast.Name):
        r = tree.resolve_dotted(f.module, fn.id)
        if r and r[0] == "func":
            return r[1]
        if r and r[0] == "class":
            return r[1].lookup("__init__")
    return None


class ModeKinds:
    def __init__(self, tree: Tree):
        self.tree = tree
        self.kinds: Dict[FuncInfo, Set[str]] = {}
        self._types: dict = {}
        self._seed()
        self._propagate()

    def _seed(self):
        t = self.tree
        base = t.cls("backends/base.py", "BaseBackend")
        api_classes = [c for c in t.module("backends/base.py").classes.values() if base in c.mro()]
        self.api: Dict[str, FuncInfo] = {}
        for c in api_classes:
            for name, m in c.methods.items():
                self.api.setdefault(name, m)
        for cls in t.subclasses(base, strict=False):
            if cls.module.rel.startswith("backends/tfbackend"):
                continue
            for name, m in cls.methods.items():
                decl = self.api.get(name)
                ks: Set[str] = set()
                if decl is not None:
                    dp, mp = decl.pos_params, m.pos_params
                    for i, p in enumerate(dp):
                        if p in MODE_NAMES and i < len(mp):
                            ks.add(mp[i])
                for p in m.params:
                    if p in MODE_NAMES:
                        ks.add(p)
                if ks:
                    self.kinds[m] = ks

    def modeish(self, f: FuncInfo, e: ast.AST, at: Optional[int] = None, _depth=0) -> bool:
        """is `e`, evaluated in f, an index-like expression built only from mode-kind parameters?"""
        ks = self.kinds.get(f, set())
        if _depth > 8:
            return False
        if isinstance(e, ast.Starred):
            return self.modeish(f, e.value, at, _depth + 1)
        if isinstance(e, ast.Name):
            rd = rd_of(f.node)
            if at is None:
                ids = rd.cfg.node_of_expr(e)
                at = ids[0] if ids else rd.cfg.entry
            ds = rd.reaching(e.id, at)
            if not ds:
                return False
            ok = True
            for d in ds:
                if d.kind == "param":
                    ok = ok and d.var in ks
                elif d.kind in ("assign",) and d.value is not None and d.index is None:
                    ok = ok and self.modeish(f, d.value, d.node, _depth + 1)
                elif d.kind == "for" and d.value is not None:
                    it = d.value
                    # for i, m in enumerate(modes): second element
                    if isinstance(it, ast.Call) and dotted(it.func) == "enumerate" and d.index == (1,):
                        ok = ok and self.modeish(f, it.args[0], d.node, _depth + 1)
                    elif d.index is None:
                        ok = ok and self.modeish(f, it, d.node, _depth + 1)
                    else:
                        ok = False
                else:
                    ok = False
            return ok
        if isinstance(e, ast.Subscript):
            return self.modeish(f, e.value, at, _depth + 1)
        if isinstance(e, (ast.List, ast.Tuple)):
            return bool(e.elts) and all(self.modeish(f, x, at, _depth + 1) for x in e.elts)
        if isinstance(e, ast.Call):
            cn = dotted(e.func) or ""
            if cn in WRAPPERS and len(e.args) >= 1:
                return self.modeish(f, e.args[0], at, _depth + 1)
            if cn == "self._remap_modes" and e.args:
                return self.modeish(f, e.args[0], at, _depth + 1)
            if cn.endswith(".reshape") or cn.endswith(".flatten") or cn.endswith(".tolist"):
                return self.modeish(f, e.func.value, at, _depth + 1)
            if cn in ("np.reshape",) and e.args:
                return self.modeish(f, e.args[0], at, _depth + 1)
            return False
        if isinstance(e, ast.ListComp) and len(e.generators) == 1:
            g = e.generators[0]
            if isinstance(e.elt, ast.Name) and isinstance(g.target, ast.Name) and e.elt.id == g.target.id:
                return self.modeish(f, g.iter, at, _depth + 1)
            if isinstance(e.elt, ast.Call) and dotted(e.elt.func) == "self._remap_modes":
                return self.modeish(f, g.iter, at, _depth + 1)
            return False
        if isinstance(e, ast.IfExp):
            return self.modeish(f, e.body, at, _depth + 1) and self.modeish(f, e.orelse, at, _depth + 1)
        return False

    def _propagate(self):
        work = list(self.kinds)
        seen_rounds = 0
        while work and seen_rounds < 10000:
            seen_rounds += 1
            f = work.pop()
            for n in walk_no_nested(f.node):
                if not isinstance(n, ast.Call):
                    continue
                callee = resolve_call(self.tree, f, n, self._types)
                if callee is None or callee.module.rel.startswith("backends/tfbackend"):
                    continue
                cp = callee.pos_params
                off = 0
                if callee.cls is not None and not callee.is_static and cp and cp[0] in ("self", "cls"):
                    off = 1
                added = False
                for i, a in enumerate(n.args):
                    if isinstance(a, ast.Starred):
                        break
                    j = i + off
                    if j < len(cp) and self.modeish(f, a):
                        if cp[j] not in self.kinds.setdefault(callee, set()):
                            self.kinds[callee].add(cp[j])
                            added = True
                for kw in n.keywords:
                    if kw.arg and kw.arg in callee.params and self.modeish(f, kw.value):
                        if kw.arg not in self.kinds.setdefault(callee, set()):
                            self.kinds[callee].add(kw.arg)
                            added = True
                if added:
                    work.append(callee)

    def of(self, f: FuncInfo) -> Set[str]:
        return self.kinds.get(f, set())


_mk = {}


def mode_kinds(tree: Tree) -> ModeKinds:
    k = id(tree)
    if k not in _mk:
        _mk.clear()
        _mk[k] = ModeKinds(tree)
    return _mk[k]
