P = "program.py"
PU = "program_utils.py"
E = "engine.py"
GB = "backends/gaussianbackend/backend.py"
BB = "backends/bosonicbackend/backend.py"
FB = "backends/fockbackend/backend.py"
G = "backends/gaussianbackend/gaussiancircuit.py"
BC = "backends/bosonicbackend/bosoniccircuit.py"
CASES = [
    {"id": "state-positional", "expect": "fire", "key": "C08.state-index",
     "edits": [(GB, "            modes = self.get_modes()\n", "            modes = list(range(len(self.get_modes())))\n")]},
    {"id": "values-enumerate", "expect": "fire", "key": "C08.values",
     "edits": [(E, "                for k, v in (self.samples_dict or {}).items():\n                    p.reg_refs[k].val = v[-1]",
                "                for k, v in enumerate(self.samples):\n                    p.reg_refs[k].val = v")]},
    {"id": "append-no-deps-test", "expect": "fire", "key": "C08.validation",
     "edits": [(P, "        self._test_regrefs(op.measurement_deps)\n", "")]},
    {"id": "append-unvalidated-reg", "expect": "fire", "key": "C08.validation",
     "edits": [(P, "        reg = self._test_regrefs(reg)\n        # also", "        self._test_regrefs(reg)\n        # also")]},
    {"id": "no-inactive-guard", "expect": "fire", "key": "C08.validation",
     "edits": [(P, "            if not rr.active:\n                raise RegRefError(\"Subsystem {} has already been deleted.\".format(rr.ind))\n", "")]},
    {"id": "dup-guard-after-append", "expect": "fire", "key": "C08.validation",
     "edits": [(P, "            if rr in temp:\n                raise RegRefError(\"Trying to act on the same subsystem more than once.\")\n            temp.append(rr)\n",
                "            temp.append(rr)\n            if temp.count(rr) > 1:\n                raise RegRefError(\"Trying to act on the same subsystem more than once.\")\n")]},
    {"id": "can-follow-skipped", "expect": "fire", "key": "C08.validation",
     "edits": [(E, "                if not p.can_follow(prev):\n", "                if not p.can_follow(prev) and False:\n")]},
    {"id": "regref-elsewhere", "expect": "fire", "key": "C08.ownership",
     "edits": [(P, "        for r in refs:\n            # mark the RegRef as deleted\n            r.active = False\n",
                "        for r in refs:\n            # mark the RegRef as deleted\n            self.reg_refs[r.ind] = RegRef(r.ind)\n            self.reg_refs[r.ind].active = False\n")]},
    {"id": "reactivate-in-engine", "expect": "fire", "key": "C08.ownership",
     "edits": [(E, "                    p.reg_refs[k].val = v[-1]\n", "                    p.reg_refs[k].val = v[-1]\n                    p.reg_refs[k].active = True\n")]},
    {"id": "gauss-squeeze-no-guard", "expect": "fire", "key": "C08.active-guard",
     "edits": [(G, "        if self.active[k] is None:\n            raise ValueError(\"Cannot squeeze mode, mode does not exist\")\n", "")]},
    {"id": "bosonic-guard-wrong-mode", "expect": "fire", "key": "C08.active-guard",
     "edits": [(BC, "        if self.active[k] is None or self.active[l] is None:\n            raise ValueError(\"Cannot perform beamsplitter, mode(s) do not exist\")",
                "        if self.active[k] is None:\n            raise ValueError(\"Cannot perform beamsplitter, mode(s) do not exist\")")]},
    {"id": "remap-no-none-check", "expect": "fire", "key": "C08.remap",
     "edits": [(FB, "        if not self._modemap.valid(modes) or None in submap:", "        if not self._modemap.valid(modes):")]},
    {"id": "fock-del-raw", "expect": "fire", "key": "C08.remap",
     "edits": [(FB, "        self.circuit.dealloc(remapped_modes)", "        self.circuit.dealloc(modes)")]},
    {"id": "gauss-addmode-fixed-active", "expect": "fire", "key": "C08.add-mode",
     "edits": [(G, "        self.active = newactive\n", "        self.active.append(self.nlen)\n")]},
    # twins
    {"id": "twin-guard-ifelse", "expect": "silent",
     "edits": [(G, "        if self.active[i] is None:\n            raise ValueError(\"Cannot displace mode, mode does not exist\")\n\n        self.mean[i] += r * np.exp(1j * phi)",
                "        if self.active[i] is None:\n            raise ValueError(\"Cannot displace mode, mode does not exist\")\n        else:\n            self.mean[i] += r * np.exp(1j * phi)")]},
    {"id": "twin-values-keys", "expect": "silent",
     "edits": [(E, "                for k, v in (self.samples_dict or {}).items():\n                    p.reg_refs[k].val = v[-1]",
                "                latest = self.samples_dict or {}\n                for k in latest:\n                    p.reg_refs[k].val = latest[k][-1]")]},
    {"id": "twin-state-local", "expect": "silent",
     "edits": [(GB, "            modes = self.get_modes()\n", "            active = self.get_modes()\n            modes = list(active)\n")]},
    {"id": "twin-del-mode-one-at-a-time-remapped-each-time", "expect": "silent",
     "edits": [("backends/fockbackend/backend.py", '        remapped_modes = self._remap_modes(modes)\n        if isinstance(remapped_modes, int):\n            remapped_modes = [remapped_modes]\n        self.circuit.dealloc(remapped_modes)\n        self._modemap.delete(modes)\n', '        if isinstance(modes, int):\n            modes = [modes]\n        for m in modes:\n            self.circuit.dealloc([self._remap_modes(m)])\n            self._modemap.delete([m])\n')]},
    {"id": "del-mode-stale-positions", "expect": "fire", "key": "C08.remap",
     "edits": [("backends/fockbackend/backend.py", '        remapped_modes = self._remap_modes(modes)\n        if isinstance(remapped_modes, int):\n            remapped_modes = [remapped_modes]\n        self.circuit.dealloc(remapped_modes)\n        self._modemap.delete(modes)\n', '        if isinstance(modes, int):\n            modes = [modes]\n        for pos in self._remap_modes(modes):\n            self.circuit.dealloc([pos])\n        self._modemap.delete(modes)\n')]},
    {"id": "bosonic-state-sorted-selection", "expect": "fire", "key": "C08.state-index",
     "edits": [("backends/bosonicbackend/backend.py", "        mode_ind = np.array([[2 * m, 2 * m + 1] for m in modes]).flatten()\n",
                "        mode_ind = np.sort(np.append(2 * np.array(modes), 2 * np.array(modes) + 1))\n")]},
]
