E = "engine.py"
O = "ops.py"
BB = "backends/bosonicbackend/backend.py"
GC = "backends/gaussianbackend/gaussiancircuit.py"
FC = "backends/fockbackend/circuit.py"
CASES = [
    {"id": "no-sort", "expect": "fire", "key": "C06.collation",
     "edits": [(E, "        samples = np.transpose([i for _, i in sorted(single_sample_dict.items())])",
                "        samples = np.transpose([i for _, i in single_sample_dict.items()])")]},
    {"id": "values-not-sorted", "expect": "fire", "key": "C06.collation",
     "edits": [(E, "        samples = np.transpose([i for _, i in sorted(single_sample_dict.items())])",
                "        samples = np.transpose(list(single_sample_dict.values()))")]},
    {"id": "key-is-position", "expect": "fire", "key": "C06.co",
     "edits": [(E, "                            if r.ind not in samples_dict:\n                                samples_dict[r.ind] = []\n                            samples_dict[r.ind].append(val[:, i])",
                "                            if i not in samples_dict:\n                                samples_dict[i] = []\n                            samples_dict[i].append(val[:, i])")]},
    {"id": "column-zero", "expect": "fire", "key": "C06.columns",
     "edits": [(BB, "                            samples_dict[r.ind].append(val[:, i])", "                            samples_dict[r.ind].append(val[:, 0])")]},
    {"id": "val-not-transposed", "expect": "fire", "key": "C06.store",
     "edits": [(O, "        for v, r in zip(np.transpose(values), reg):", "        for v, r in zip(values, reg):")]},
    {"id": "msgate-divide", "expect": "fire", "key": "C06.units",
     "edits": [(O, "        return ancillae_val * s\n", "        return ancillae_val / s\n")]},
    {"id": "select-not-converted", "expect": "fire", "key": "C06.units",
     "edits": [(O, "        if select is not None:\n            select = select / s\n", "")]},
    {"id": "bosonic-het-unscaled", "expect": "fire", "key": "C06.amplitude-units",
     "edits": [(BB, "self.circuit.post_select_heterodyne(mode, np.sqrt(2 * self.circuit.hbar) * select)", "self.circuit.post_select_heterodyne(mode, select)")]},
    {"id": "gaussian-het-unscaled", "expect": "fire", "key": "C06.amplitude-units",
     "edits": [(GC, "        vm = 2.0 * np.array([np.real(alpha_val), np.imag(alpha_val)])", "        vm = np.array([np.real(alpha_val), np.imag(alpha_val)])")]},
    {"id": "fock-unpermute-wrong", "expect": "fire", "key": "C06.reset",
     "edits": [(FC, "                outcome[permutation[i]] = permuted_outcome[i]", "                outcome[i] = permuted_outcome[permutation[i]]")]},
    {"id": "twin-sort-local", "expect": "silent",
     "edits": [(E, "        samples = np.transpose([i for _, i in sorted(single_sample_dict.items())])",
                "        ordered = sorted(single_sample_dict.items())\n        samples = np.transpose([i for _, i in ordered])")]},
    {"id": "twin-setdefault", "expect": "silent",
     "edits": [(E, "                            if r.ind not in samples_dict:\n                                samples_dict[r.ind] = []\n                            samples_dict[r.ind].append(val[:, i])",
                "                            samples_dict.setdefault(r.ind, [])\n                            samples_dict[r.ind].append(val[:, i])")]},
]
