O = "ops.py"
P = "program.py"
PU = "program_utils.py"
E = "engine.py"
T = "tdm/program.py"
BB = "backends/bosonicbackend/backend.py"
FC = "backends/fockbackend/circuit.py"
XU = "compilers/xunitary.py"
CASES = [
    {"id": "gate-apply-no-finally", "expect": "fire", "key": "C09.paired-restore",
     "edits": [(O, "        try:\n            # call the child class specialized _apply method\n            self._apply(temp, backend, **kwargs)\n        finally:\n            self.p[0] = original_p0  # restore the original Parameter instance\n",
                "        # call the child class specialized _apply method\n        self._apply(temp, backend, **kwargs)\n        self.p[0] = original_p0  # restore the original Parameter instance\n")]},
    {"id": "gate-apply-no-restore", "expect": "fire", "key": "C09.paired-restore",
     "edits": [(O, "        finally:\n            self.p[0] = original_p0  # restore the original Parameter instance\n", "        finally:\n            pass\n")]},
    {"id": "tdm-early-return-unlocked", "expect": "fire", "key": "C09.paired-restore",
     "edits": [(T, "        try:\n            if self.unrolled_circuit is not None:\n                if self._unrolled_shots == shots:\n                    self.circuit = self.unrolled_circuit\n                    return\n                self.roll()\n",
                "        if self.unrolled_circuit is not None and self._unrolled_shots == shots:\n            self.circuit = self.unrolled_circuit\n            return\n        try:\n            if self.unrolled_circuit is not None:\n                self.roll()\n")]},
    {"id": "optimize-in-place", "expect": "fire", "key": "C09.effects",
     "edits": [(P, "        opt = self._linked_copy()\n        opt.circuit = pu.optimize_circuit(self.circuit)", "        opt = self\n        opt.circuit = pu.optimize_circuit(self.circuit)")]},
    {"id": "merge-mutates-self", "expect": "fire", "key": "C09.effects",
     "edits": [(O, "            temp = copy.copy(self)\n            temp.p = [p0] + self.p[1:]  # change the parameter list", "            temp = self\n            temp.p = [p0] + self.p[1:]  # change the parameter list")]},
    {"id": "compile-writes-source", "expect": "fire", "key": "C09.effects",
     "edits": [(P, "        compiled._target = target  # pylint: disable=protected-access\n", "        compiled._target = target  # pylint: disable=protected-access\n        self.circuit = seq\n")]},
    {"id": "new-writer-of-dagger", "expect": "fire", "key": "C09.effects",
     "edits": [(PU, "                    op = a.op.merge(b.op)\n", "                    b.op.dagger = a.op.dagger\n                    op = a.op.merge(b.op)\n")]},
    {"id": "xunitary-shallow-copy", "expect": "fire", "key": "C09.effects",
     "edits": [(XU, "        U2 = copy.deepcopy(U1)\n", "        U2 = list(U1)\n")]},
    {"id": "linked-copy-shares-options", "expect": "fire", "key": "C09.effects",
     "edits": [(P, 'if name not in ("circuit", "reg_refs", "init_reg_refs", "free_params"):', 'if name not in ("circuit", "reg_refs", "init_reg_refs", "free_params", "run_options"):')]},
    {"id": "run-before-bind", "expect": "fire", "key": "C09.order",
     "edits": [(E, "            # bind free parameters to their values\n            p.bind_params(args)\n            p.lock()\n\n            _, self.samples, self.samples_dict = self._run_program(p, **kwargs)\n",
                "            p.lock()\n\n            _, self.samples, self.samples_dict = self._run_program(p, **kwargs)\n            # bind free parameters to their values\n            p.bind_params(args)\n")]},
    {"id": "append-only-if-samples", "expect": "fire", "key": "C09.order",
     "edits": [(E, "            self.run_progs.append(p)\n", "            if self.samples_dict:\n                self.run_progs.append(p)\n")]},
    {"id": "reset-keeps-samples-dict", "expect": "fire", "key": "C09.reset",
     "edits": [(E, "        self.samples = None\n        self.samples_dict = None\n", "        self.samples = None\n")]},
    {"id": "bosonic-reset-keeps-ancillae", "expect": "fire", "key": "C09.reset",
     "edits": [(BB, "        self.circuit.reset(num_subsystems=self._init_modes, num_weights=1)\n        self.ancillae_samples_dict = {}\n", "        self.circuit.reset(num_subsystems=self._init_modes, num_weights=1)\n")]},
    {"id": "reset-no-clear-regrefs", "expect": "fire", "key": "C09.reset",
     "edits": [(E, "        for p in self.run_progs:\n            p._clear_regrefs()\n", "")]},
    {"id": "cached-matrix-inplace", "expect": "fire", "key": "C09.cache-alias",
     "edits": [(FC, "        mat = ops.phase(theta, self._trunc)\n        self._state = self.apply_gate_BLAS(mat, [mode])",
                "        mat = ops.phase(theta, self._trunc)\n        mat *= 1.0\n        self._state = self.apply_gate_BLAS(mat, [mode])")]},
    # twins
    {"id": "twin-restore-renamed", "expect": "silent",
     "edits": [(O, "        original_p0 = self.p[0]  # store the original Parameter\n", "        keep = self.p[0]  # store the original Parameter\n"),
               (O, "            self.p[0] = original_p0  # restore the original Parameter instance\n", "            self.p[0] = keep  # restore the original Parameter instance\n")]},
    {"id": "twin-optimize-two-steps", "expect": "silent",
     "edits": [(P, "        opt = self._linked_copy()\n        opt.circuit = pu.optimize_circuit(self.circuit)", "        opt = self._linked_copy()\n        new_circuit = pu.optimize_circuit(self.circuit)\n        opt.circuit = new_circuit")]},
    {"id": "twin-reset-order", "expect": "silent",
     "edits": [(E, "        self.samples = None\n        self.samples_dict = None\n", "        self.samples_dict = None\n        self.samples = None\n")]},
    {"id": "blackbird-args-aliased", "expect": "fire", "key": "C09.alias-write",
     "edits": [("io/blackbird_io.py", 'op["args"] = list(cmd.op.p)', 'op["args"] = cmd.op.p')]},
    {"id": "twin-blackbird-args-copied-otherwise", "expect": "silent",
     "edits": [("io/blackbird_io.py", 'op["args"] = list(cmd.op.p)', 'op["args"] = cmd.op.p[:]')]},
]
