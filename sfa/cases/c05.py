G = "backends/gaussianbackend/gaussiancircuit.py"
GB = "backends/gaussianbackend/backend.py"
BC = "backends/bosonicbackend/bosoniccircuit.py"
BB = "backends/bosonicbackend/backend.py"
FB = "backends/fockbackend/backend.py"
CASES = [
    {"id": "thermal-loss-whole", "expect": "fire", "key": "C05.gauss-footprint",
     "edits": [(G, "self.nmat[k][k] += (1 - T) * nbar", "self.nmat += (1 - T) * nbar")]},
    {"id": "squeeze-wrong-row", "expect": "fire", "key": "C05.gauss-",
     "edits": [(G, "            self.nmat[k, l] = -(sh * np.conj(phase) * mk[l]) + ch * nk[l]",
                "            self.nmat[l, l] = -(sh * np.conj(phase) * mk[l]) + ch * nk[l]")]},
    {"id": "bs-loop-range", "expect": "fire", "key": "C05.gauss-",
     "edits": [(G, "for i in np.delete(np.arange(self.nlen), (k, l)):", "for i in np.delete(np.arange(self.nlen), k):")]},
    {"id": "init-thermal-no-reset", "expect": "fire", "key": "C05.prep-reset",
     "edits": [(G, "        self.loss(0.0, mode)\n        self.nmat[mode][mode] = population",
                "        self.nmat[mode][mode] = population")]},
    {"id": "coherent-no-reset", "expect": "fire", "key": "C05.prep-reset",
     "edits": [(GB, "        self.circuit.loss(0.0, mode)\n        self.circuit.displace(r, phi, mode)",
                "        self.circuit.displace(r, phi, mode)")]},
    {"id": "bosonic-expandxy-noclear", "expect": "fire", "key": "C05.bosonic-footprint",
     "edits": [(BC, "            if i not in modes:\n                Y2[i, i] = 0", "            if i in modes:\n                Y2[i, i] = 0")]},
    {"id": "bosonic-bs-swapped", "expect": "fire", "key": "C05.bosonic-footprint",
     "edits": [(BC, "symp.expand(symp.beam_splitter(theta, phi), [k, l], self.nlen)",
                "symp.expand(symp.beam_splitter(theta, phi), [l, k], self.nlen)")]},
    {"id": "fock-raw-mode", "expect": "fire", "key": "C05.mode-routing",
     "edits": [(FB, "self.circuit.beamsplitter(theta, phi, self._remap_modes(mode1), self._remap_modes(mode2))",
                "self.circuit.beamsplitter(theta, phi, self._remap_modes(mode1), mode2)")]},
    {"id": "fock-swapped-modes", "expect": "fire", "key": "C05.mode-routing",
     "edits": [(FB, "self.circuit.two_mode_squeeze(r, phi, self._remap_modes(mode1), self._remap_modes(mode2))",
                "self.circuit.two_mode_squeeze(r, phi, self._remap_modes(mode2), self._remap_modes(mode1))")]},
    # behaviour-preserving twins
    {"id": "twin-rename-param", "expect": "silent",
     "edits": [(G, "    def displace(self, r, phi, i):", "    def displace(self, r, phi, target):"),
               (G, "        if self.active[i] is None:\n            raise ValueError(\"Cannot displace mode, mode does not exist\")\n\n        self.mean[i] += r * np.exp(1j * phi)",
                "        if self.active[target] is None:\n            raise ValueError(\"Cannot displace mode, mode does not exist\")\n\n        self.mean[target] += r * np.exp(1j * phi)")]},
    {"id": "twin-comma-index", "expect": "silent",
     "edits": [(G, "        self.mmat[k][k] = phase2 * self.mmat[k][k]", "        self.mmat[k, k] = phase2 * self.mmat[k, k]")]},
    {"id": "twin-local-var", "expect": "silent",
     "edits": [(GB, "        self.circuit.loss(0.0, mode)\n        self.circuit.displace(r, phi, mode)",
                "        target = mode\n        self.circuit.loss(0.0, target)\n        self.circuit.displace(r, phi, target)")]},
]
