T = "tdm/program.py"
E = "engine.py"
CASES = [
    {"id": "apply-op-reinstantiate", "expect": "fire", "key": "C13.op-clone",
     "edits": [(T, "        op = copy.copy(cmd.op)\n        op.p = params\n        self.append(op, modes)", "        self.append(cmd.op.__class__(*params), modes)")]},
    {"id": "apply-op-fixed-bin", "expect": "fire", "key": "C13.op-clone",
     "edits": [(T, "params[i] = self.parameters[params[i].name][t % self.timebins]", "params[i] = self.parameters[params[i].name][0]")]},
    {"id": "apply-op-mutates-template", "expect": "fire", "key": "C13.op-clone",
     "edits": [(T, "        params = cmd.op.p.copy()\n", "        params = cmd.op.p\n")]},
    {"id": "roll-keeps-added-count", "expect": "fire", "key": "C13.undo",
     "edits": [(T, "                self.init_num_subsystems -= self._num_added_subsystems\n", "")]},
    {"id": "unroll-cache-ignores-shots", "expect": "fire", "key": "C13.undo",
     "edits": [(T, "                if self._unrolled_shots == shots:\n                    self.circuit = self.unrolled_circuit\n                    return\n                self.roll()",
                "                self.circuit = self.unrolled_circuit\n                return")]},
    {"id": "space-unroll-early-return-unlocked", "expect": "fire", "key": "C13.lock",
     "edits": [(T, "        try:\n            if self.space_unrolled_circuit is not None and self._unrolled_shots == shots:\n                self.circuit = self.space_unrolled_circuit\n                return\n            self.roll()\n",
                "        if self.space_unrolled_circuit is not None and self._unrolled_shots == shots:\n            self.circuit = self.space_unrolled_circuit\n            return\n        try:\n            self.roll()\n")]},
    {"id": "measured-modes-unsorted", "expect": "fire", "key": "C13.set-order",
     "edits": [(T, "        return sorted(self._measured_modes)", "        return list(self._measured_modes)")]},
    {"id": "reshape-args-swapped", "expect": "fire", "key": "C13.set-order",
     "edits": [(E, "reshape_samples(samples_dict, prog.measured_modes, prog.N, prog.timebins)", "reshape_samples(samples_dict, prog.N, prog.measured_modes, prog.timebins)")]},
    {"id": "twin-deepcopy-op", "expect": "silent",
     "edits": [(T, "        op = copy.copy(cmd.op)\n", "        op = copy.deepcopy(cmd.op)\n")]},
]
