PU = "program_utils.py"
O = "ops.py"
PA = "parameters.py"
GB = "compilers/gbs.py"
CASES = [
    {"id": "deps-only-reg", "expect": "fire", "key": "C04.dep-key",
     "edits": [(PU, "        deps = self.op.measurement_deps | set(self.reg)", "        deps = set(self.reg)")]},
    {"id": "deps-first-param-only", "expect": "fire", "key": "C04.dep-key",
     "edits": [(O, "            self.p.append(q)\n            self._measurement_deps |= par_regref_deps(q)", "            self.p.append(q)\n            if not self._measurement_deps:\n                self._measurement_deps |= par_regref_deps(q)")]},
    {"id": "deps-no-array-recursion", "expect": "fire", "key": "C04.dep-key",
     "edits": [(PA, "        for k in p:\n            ret.update(par_regref_deps(k))", "        pass")]},
    {"id": "grid-key-reg-only", "expect": "fire", "key": "C04.grid-key",
     "edits": [(PU, "        for r in cmd.get_dependencies():", "        for r in cmd.reg:")]},
    {"id": "dag-skip-edge", "expect": "fire", "key": "C04.grid-key",
     "edits": [(PU, "        for i in range(1, len(q)):", "        for i in range(2, len(q)):")]},
    {"id": "dag-to-list-insertion-order", "expect": "fire", "key": "C04.grid-key",
     "edits": [(PU, "    temp = nx.algorithms.dag.topological_sort(dag)\n    return list(temp)", "    return list(dag.nodes())")]},
    {"id": "group-ops-overlap", "expect": "fire", "key": "C04.partition",
     "edits": [(PU, "    A = C[:ind]  # initial unmarked instances", "    A = C[: ind + 1]  # initial unmarked instances")]},
    {"id": "gbs-allows-double-measure", "expect": "fire", "key": "C04.gbs-guards",
     "edits": [(GB, "            if measured & temp:\n                raise CircuitError(\"Measuring the same mode more than once.\")\n", "")]},
    {"id": "gbs-unsorted-register", "expect": "fire", "key": "C04.gbs-guards",
     "edits": [(GB, "sorted(list(measured), key=lambda x: x.ind)", "list(measured)")]},
    {"id": "gbs-trailing-allowed", "expect": "fire", "key": "C04.gbs-guards",
     "edits": [(GB, "        if C:\n            raise CircuitError(\"Operations following the Fock measurements.\")\n", "")]},
    {"id": "grid-to-dag-drops", "expect": "fire", "key": "C04.conservation",
     "edits": [(PU, "    for _, q in grid.items():\n        if q:", "    for _, q in grid.items():\n        if len(q) > 50:\n            q.pop()\n        if q:")]},
    {"id": "twin-edges-forward", "expect": "silent",
     "edits": [(PU, "        for i in range(1, len(q)):\n            # add the edge between the operations, and the operation nodes themselves\n            DAG.add_edge(q[i - 1], q[i])",
                "        for i in range(len(q) - 1):\n            DAG.add_edge(q[i], q[i + 1])")]},
    {"id": "twin-deps-union-call", "expect": "silent",
     "edits": [(PU, "        deps = self.op.measurement_deps | set(self.reg)", "        deps = set(self.reg).union(self.op.measurement_deps)")]},
]
