O = "ops.py"
PU = "program_utils.py"
CASES = [
    {"id": "gate-merge-no-rest-compare", "expect": "fire", "key": "C03.merge-guards",
     "edits": [(O, "        # gates can be merged if they are the same class and share all the other parameters\n        if self.p[1:] == other.p[1:]:",
                "        # gates can be merged if they are the same class and share all the other parameters\n        if len(self.p) == len(other.p):")]},
    {"id": "gate-merge-ignores-dagger", "expect": "fire", "key": "C03.merge-guards",
     "edits": [(O, "            if self.dagger == other.dagger:\n                temp = other.p[0]\n            else:\n                temp = -other.p[0]", "            temp = other.p[0]")]},
    {"id": "gate-merge-into-self", "expect": "fire", "key": "C03.merge-guards",
     "edits": [(O, "            temp = copy.copy(self)\n            temp.p = [p0] + self.p[1:]  # change the parameter list\n            return temp",
                "            self.p[0] = p0\n            return self")]},
    {"id": "channel-merge-no-class-test", "expect": "fire", "key": "C03.merge-guards",
     "edits": [(O, "        if not self.__class__ == other.__class__:\n            raise MergeFailure(\"Not the same channel family.\")\n", "")]},
    {"id": "optimizer-merges-measured-params", "expect": "fire", "key": "C03.wire-uniqueness",
     "edits": [(PU, "                    if a.op.ns != 1 or a.op.measurement_deps or b.op.measurement_deps:", "                    if a.op.ns != 1:")]},
    {"id": "optimizer-swallow-all", "expect": "fire", "key": "C03.wire-uniqueness",
     "edits": [(PU, "            except MergeFailure:\n                pass", "            except Exception:\n                pass")]},
    {"id": "optimizer-pops-input", "expect": "fire", "key": "C03.no-mutation",
     "edits": [(PU, "    grid = list_to_grid(seq)\n\n    # try merging", "    grid = list_to_grid(seq)\n    seq.clear()\n\n    # try merging")]},
    {"id": "new-gate-inherits-merge-silent", "expect": "silent",
     "edits": [(O, "class Ggate(Gate):", "class Tgate(Gate):\n    def __init__(self, t):\n        super().__init__([t])\n\n    def _apply(self, reg, backend, **kwargs):\n        backend.rotation(par_evaluate(self.p[0]), *reg)\n\n\nclass Ggate(Gate):")]},
    {"id": "twin-merge-guard-form", "expect": "silent",
     "edits": [(O, "        if not self.__class__ == other.__class__:\n            raise MergeFailure(\"Not the same gate family.\")", "        if self.__class__ != other.__class__:\n            raise MergeFailure(\"Not the same gate family.\")")]},
]
