P = "program.py"
PU = "program_utils.py"
D = "device.py"
C = "compilers/compiler.py"
XU = "compilers/xunitary.py"
XC = "compilers/xcov.py"
T = "tdm/program.py"
CASES = [
    {"id": "skip-validation-with-loss", "expect": "fire", "key": "C12.validation",
     "edits": [(P, "        if kwargs.get(\"realistic_loss\", False):\n            try:\n                compiler.add_loss(compiled, device)\n            except NotImplementedError:\n                warnings.warn(f\"Compiler {compiler} does not support adding realistic loss.\")\n",
                "        if kwargs.get(\"realistic_loss\", False):\n            try:\n                compiler.add_loss(compiled, device)\n                return compiled\n            except NotImplementedError:\n                warnings.warn(f\"Compiler {compiler} does not support adding realistic loss.\")\n")]},
    {"id": "validate-source-not-compiled", "expect": "fire", "key": "C12.validation",
     "edits": [(P, "            pu.validate_gate_parameters(compiled)", "            pu.validate_gate_parameters(self)")]},
    {"id": "range-one-sided", "expect": "fire", "key": "C12.validation",
     "edits": [(C, "        return self.x - self.atol <= item <= self.y + self.atol", "        return item <= self.y + self.atol")]},
    {"id": "iterable-not-checked", "expect": "fire", "key": "C12.validation",
     "edits": [(D, "                for i in _flatten(v):\n                    if i not in self.gate_parameters[p]:\n                        raise ValueError(\n                            f\"'{p}' has invalid value {i}. Only {self.gate_parameters[p]} allowed.\"\n                        )", "                pass")]},
    {"id": "template-error-swallowed", "expect": "fire", "key": "C12.validation",
     "edits": [(PU, "    except TemplateError as e:\n        raise CircuitError(\n            \"Program cannot be matched with the device layout due to incompatible topology.\"\n        ) from e", "    except TemplateError:\n        return {}")]},
    {"id": "pnr-limit-dropped", "expect": "fire", "key": "C12.validation",
     "edits": [(P, "        if num_pnr > max_pnr:", "        if num_pnr > max_pnr and False:")]},
    {"id": "tdm-concurrent-le", "expect": "fire", "key": "C12.validation",
     "edits": [(T, "        if self.concurr_modes != device.modes[\"concurrent\"]:", "        if self.concurr_modes > device.modes[\"concurrent\"]:")]},
    {"id": "xunitary-odd-modes", "expect": "fire", "key": "C12.xseries-guards",
     "edits": [(XU, "        if n_modes % 2 != 0:\n            raise CircuitError(\"The X series only supports programs with an even number of modes.\")\n", "")]},
    {"id": "xcov-asymmetric-ok", "expect": "fire", "key": "C12.xseries-guards",
     "edits": [(XC, "            if not np.allclose(B01, B10):", "            if not np.allclose(B01, B01):")]},
    {"id": "xunitary-phase-check-dropped", "expect": "fire", "key": "C12.xseries-guards",
     "edits": [(XU, "                    if k > 0 and phi_new != phi:\n                        raise CircuitError(\"Cannot merge S2gates with different phase values.\")\n", "")]},
    {"id": "layout-params-unchecked", "expect": "fire", "key": "C12.xseries-guards",
     "edits": [(C, "                    if x != y and not (isinstance(x, sym.Symbol) or isinstance(y, sym.Expr)):", "                    if False:")]},
    {"id": "twin-range-and-form", "expect": "silent",
     "edits": [(C, "        return self.x - self.atol <= item <= self.y + self.atol", "        return (self.x - self.atol <= item) and (item <= self.y + self.atol)")]},
    {"id": "xunitary-idler-commands-shallow-copied", "expect": "fire", "key": "C12.shallow-copy",
     "edits": [("compilers/xunitary.py", "        U2 = copy.deepcopy(U1)\n", "        U2 = copy.copy(U1)\n")]},
    {"id": "xcov-idler-commands-list-copied", "expect": "fire", "key": "C12.shallow-copy",
     "edits": [("compilers/xcov.py", "        U2 = copy.deepcopy(U1)\n", "        U2 = list(U1)\n")]},
    {"id": "xunitary-extracts-conjugate-unitary", "expect": "fire", "key": "C12.block-sign",
     "edits": [("compilers/xunitary.py", "U = S[:n_modes, :n_modes] - 1j * S[:n_modes, n_modes:]", "U = S[:n_modes, :n_modes] + 1j * S[:n_modes, n_modes:]")]},
    {"id": "twin-xunitary-unitary-from-lower-left-block", "expect": "silent",
     "edits": [("compilers/xunitary.py", "U = S[:n_modes, :n_modes] - 1j * S[:n_modes, n_modes:]", "Y = S[n_modes:, :n_modes]\n        U = S[:n_modes, :n_modes] + 1j * Y")]},
    {"id": "borealis-offset-wrapped-by-half-period", "expect": "fire", "key": "C12.pitfalls",
     "edits": [("compilers/tdm.py", "                    cmd.op.p[0] = device.certificate[\"loop_phases\"][loop]\n",
                "                    offset = device.certificate[\"loop_phases\"][loop]\n                    if offset > np.pi:\n                        offset -= np.pi\n                    cmd.op.p[0] = offset\n")]},
    {"id": "twin-borealis-offset-wrapped-by-full-period", "expect": "silent",
     "edits": [("compilers/tdm.py", "                    cmd.op.p[0] = device.certificate[\"loop_phases\"][loop]\n",
                "                    offset = device.certificate[\"loop_phases\"][loop]\n                    if offset > np.pi:\n                        offset -= 2 * np.pi\n                    cmd.op.p[0] = offset\n")]},
]
