S = "apps/similarity.py"
C = "apps/clique.py"
SG = "apps/subgraph.py"
SM = "apps/sample.py"
CASES = [
    {"id": "cardinality-float", "expect": "fire", "key": "C19.exact",
     "edits": [(S, "    cardinality = factorial(modes, exact=True)\n    for count in counts:\n        cardinality //= factorial(count, exact=True)\n\n    return cardinality",
                "    return int(factorial(modes, exact=False) / np.prod(factorial(counts, exact=False)))")]},
    {"id": "cardinality-truediv", "expect": "fire", "key": "C19.exact",
     "edits": [(S, "        cardinality //= factorial(count, exact=True)", "        cardinality /= factorial(count, exact=True)")]},
    {"id": "shrink-weight-index", "expect": "fire", "key": "C19.index-space",
     "edits": [(C, "            to_remove_index = degrees_min[\n                np.random.choice(np.where(weights == weights.min())[0])\n            ]", "            to_remove_index = np.random.choice(np.where(weights == weights.min())[0])")]},
    {"id": "resize-grow-weight-index", "expect": "fire", "key": "C19.index-space",
     "edits": [(SG, "                to_add_index = degrees_max[\n                    np.random.choice(np.where(weights == weights.max())[0])\n                ]", "                to_add_index = np.random.choice(np.where(weights == weights.max())[0])")]},
    {"id": "grow-degree-index-on-graph", "expect": "fire", "key": "C19.index-space",
     "edits": [(C, "            to_add_index = np.random.choice(np.where(degrees == degrees.max())[0])\n            to_add = _c_0[to_add_index]\n            clique.add(to_add)\n        elif node_select == \"weight\":",
                "            to_add_index = np.random.choice(np.where(degrees == degrees.max())[0])\n            nodes = sorted(graph.nodes)\n            to_add = nodes[to_add_index]\n            clique.add(to_add)\n        elif node_select == \"weight\":")]},
    {"id": "grow-no-clique-check", "expect": "fire", "key": "C19.clique",
     "edits": [(C, "    if not is_clique(graph.subgraph(clique)):\n        raise ValueError(\"Input subgraph is not a clique\")\n\n    if isinstance(node_select, (list, np.ndarray)):\n        if len(node_select) != graph.number_of_nodes():\n            raise ValueError(\"Number of node weights must match number of nodes\")\n        w = {n: node_select[i] for i, n in enumerate(graph.nodes)}\n        node_select = \"weight\"\n\n    clique = set(clique)\n    _c_0",
                "    if isinstance(node_select, (list, np.ndarray)):\n        if len(node_select) != graph.number_of_nodes():\n            raise ValueError(\"Number of node weights must match number of nodes\")\n        w = {n: node_select[i] for i, n in enumerate(graph.nodes)}\n        node_select = \"weight\"\n\n    clique = set(clique)\n    _c_0")]},
    {"id": "grow-stale-candidates", "expect": "fire", "key": "C19.clique",
     "edits": [(C, "        _c_0 = sorted(c_0(clique, graph))\n\n    return sorted(clique)", "        _c_0 = [n for n in _c_0 if n not in clique]\n\n    return sorted(clique)")]},
    {"id": "c1-wrong-count", "expect": "fire", "key": "C19.clique",
     "edits": [(C, "        if len(neighbors_in_subgraph) == len(clique) - 1:", "        if len(neighbors_in_subgraph) >= len(clique) - 1:")]},
    {"id": "to-subgraphs-unsorted", "expect": "fire", "key": "C19.set-order",
     "edits": [(SM, "    subgraph_samples = [sorted(set(modes_from_counts(s))) for s in samples]", "    subgraph_samples = [list(set(modes_from_counts(s))) for s in samples]")]},
    {"id": "twin-shrink-two-steps", "expect": "silent",
     "edits": [(C, "            to_remove_index = degrees_min[\n                np.random.choice(np.where(weights == weights.min())[0])\n            ]", "            lightest = np.where(weights == weights.min())[0]\n            pick = np.random.choice(lightest)\n            to_remove_index = degrees_min[pick]")]},
    {"id": "orbit-cardinality-no-fit-case", "expect": "fire", "key": "C19.exact",
     "edits": [("apps/similarity.py", "    if len(orbit) > modes:\n        # an orbit with more non-zero entries than modes contains no samples\n        return 0\n", "")]},
    {"id": "twin-orbit-fits-other-spelling", "expect": "silent",
     "edits": [("apps/similarity.py", "    if len(orbit) > modes:\n        # an orbit with more non-zero entries than modes contains no samples\n        return 0\n", "    if not modes >= len(orbit):\n        return 0\n")]},
]
