FC = "backends/fockbackend/circuit.py"
FO = "backends/fockbackend/ops.py"
FB = "backends/fockbackend/backend.py"
GB = "backends/gaussianbackend/backend.py"
G = "backends/gaussianbackend/gaussiancircuit.py"
O = "ops.py"
CASES = [
    {"id": "twomode-pure-t2-zero", "expect": "fire", "key": "C01.layout",
     "edits": [(FC, "            if t2 == 0:\n                t2 = t1\n", "")]},
    {"id": "twomode-mixed-no-conj", "expect": "fire", "key": "C01.layout",
     "edits": [(FC, "                self._state = self._apply_two_mode_passive(mat.conj(), self._state, self._trunc)", "                self._state = self._apply_two_mode_passive(mat, self._state, self._trunc)")]},
    {"id": "twomode-mixed-wrong-undo", "expect": "fire", "key": "C01.layout",
     "edits": [(FC, "            self._state = self._state.transpose(switch_list_2)\n            ret = self._state.transpose(transpose_list)", "            self._state = self._state.transpose(switch_list_1)\n            ret = self._state.transpose(transpose_list)")]},
    {"id": "blas-modes-sorted", "expect": "fire", "key": "C01.layout",
     "edits": [(FC, "            transpose_list = [i for i in range(n) if not i in modes] + modes\n", "            transpose_list = [i for i in range(n) if not i in modes] + sorted(modes)\n")]},
    {"id": "blas-mixed-bra-order", "expect": "fire", "key": "C01.layout",
     "edits": [(FC, "        transpose_list = transpose_list + [2 * i for i in modes] + [2 * i + 1 for i in modes]", "        transpose_list = transpose_list + [2 * i for i in modes] + [2 * i + 1 for i in sorted(modes)]")]},
    {"id": "blas-mixed-no-dagger", "expect": "fire", "key": "C01.layout",
     "edits": [(FC, "                    matview, np.dot(view[i].reshape((dim, dim)), matview.conj().T)", "                    matview, np.dot(view[i].reshape((dim, dim)), matview.T)")]},
    {"id": "blas-untranspose-identity", "expect": "fire", "key": "C01.layout",
     "edits": [(FC, "        return np.transpose(ret, untranspose_list)\n\n    def apply_twomode_gate", "        return np.transpose(ret, transpose_list)\n\n    def apply_twomode_gate")]},
    {"id": "prepare-permutation-not-inverted", "expect": "fire", "key": "C01.layout",
     "edits": [(FC, "            index_permutation = np.argsort(index_permutation)\n", "")]},
    {"id": "partial-trace-wrong-axis", "expect": "fire", "key": "C01.layout",
     "edits": [(FO, "        indices[2 * i] + indices[2 * i] if i in modes else indices[2 * i : 2 * i + 2]", "        indices[2 * i] + indices[2 * i] if i in modes else indices[2 * i + 1 : 2 * i + 3]")]},
    {"id": "mix-wrong-interleave", "expect": "fire", "key": "C01.layout",
     "edits": [(FO, "    right_str = [indices[i] for i in range(1, 2 * n, 2)]\n    out_str = [indices[: 2 * n]]\n    einstr = \"\".join(left_str + [\",\"] + right_str + [\"->\"] + out_str)\n    return np.einsum(einstr, state, state.conj())",
                "    right_str = [indices[i] for i in range(1, 2 * n, 2)]\n    out_str = left_str + right_str\n    einstr = \"\".join(left_str + [\",\"] + right_str + [\"->\"] + out_str)\n    return np.einsum(einstr, state, state.conj())")]},
    {"id": "gauss-bs-args-swapped", "expect": "fire", "key": "C01.api",
     "edits": [(GB, "        self.circuit.beamsplitter(-theta, -phi, mode1, mode2)", "        self.circuit.beamsplitter(-phi, -theta, mode1, mode2)")]},
    {"id": "ops-squeeze-args-swapped", "expect": "fire", "key": "C01.api",
     "edits": [(O, "        r, phi = par_evaluate(self.p)\n        backend.squeeze(r, phi, *reg)", "        r, phi = par_evaluate(self.p)\n        backend.squeeze(phi, r, *reg)")]},
    {"id": "fock-impl-reorders-params", "expect": "fire", "key": "C01.api",
     "edits": [(FB, "    def squeeze(self, r, phi, mode):\n        self.circuit.squeeze(r, phi, self._remap_modes(mode))", "    def squeeze(self, phi, r, mode):\n        self.circuit.squeeze(r, phi, self._remap_modes(mode))")]},
    {"id": "gauss-bs-missing-mirror", "expect": "fire", "key": "C01.gauss-mirror",
     "edits": [(G, "        self.nmat[:, l] = np.conj(self.nmat[l])\n        self.mmat[:, l] = self.mmat[l]\n\n    def scovmatxp", "        self.mmat[:, l] = self.mmat[l]\n\n    def scovmatxp")]},
    # twins
    {"id": "twin-blas-local-perm", "expect": "silent",
     "edits": [(FC, "            transpose_list = [i for i in range(n) if not i in modes] + modes\n            view = np.transpose(state, transpose_list)", "            spectators = [i for i in range(n) if not i in modes]\n            transpose_list = spectators + modes\n            view = np.transpose(state, transpose_list)")]},
    {"id": "twin-twomode-single-perm", "expect": "silent",
     "edits": [(FC, "            if t2 == 0:\n                t2 = t1\n            switch_list_2[[1, t2]] = switch_list_2[[t2, 1]]", "            t2 = t1 if t2 == 0 else t2\n            switch_list_2[[1, t2]] = switch_list_2[[t2, 1]]")]},
]
