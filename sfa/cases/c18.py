P = "program.py"
PU = "program_utils.py"
CASES = [
    {"id": "eq-no-length", "expect": "fire", "key": "C18.length",
     "edits": [(P, "        if len(self.circuit) != len(prog.circuit):\n            return False\n", "")]},
    {"id": "eq-ignores-dagger", "expect": "fire", "key": "C18.fields",
     "edits": [(P, "            if not all((names_eq, param_eq, modes_eq, dagger_eq)):", "            if not all((names_eq, param_eq, modes_eq)):")]},
    {"id": "eq-ignores-modes", "expect": "fire", "key": "C18.fields",
     "edits": [(P, "            if not all((names_eq, param_eq, modes_eq, dagger_eq)):", "            if not all((names_eq, param_eq, dagger_eq)):")]},
    {"id": "equiv-ignores-dagger", "expect": "fire", "key": "C18.fields",
     "edits": [(PU, '        name_match = n1["name"] == n2["name"] and n1["dagger"] == n2["dagger"]', '        name_match = n1["name"] == n2["name"]')]},
    {"id": "equiv-noparam-ignores-wires", "expect": "fire", "key": "C18.fields",
     "edits": [(PU, "        return name_match and wire_match\n\n    # check if circuits", "        return name_match\n\n    # check if circuits")]},
    {"id": "equiv-no-identity-shortcut", "expect": "fire", "key": "C18.relation",
     "edits": [(PU, "    if prog1 is prog2:\n        return True\n", "")]},
    {"id": "twin-length-first", "expect": "silent",
     "edits": [(P, "        if len(self.circuit) != len(prog.circuit):\n            return False\n", "        n_self, n_prog = len(self.circuit), len(prog.circuit)\n        if len(self.circuit) != len(prog.circuit):\n            return False\n")]},
    {"id": "equiv-rtol-ignored", "expect": "fire", "key": "C18.param-used",
     "edits": [(PU, 'p_match = np.allclose(n1["p"], n2["p"], atol=atol, rtol=rtol)', 'p_match = np.allclose(n1["p"], n2["p"], atol=atol)')]},
    {"id": "twin-new-stub-with-unread-params", "expect": "silent",
     "edits": [(PU, "def program_equivalence(", "def _future_hook(prog, options):\n    raise NotImplementedError\n\n\ndef program_equivalence(")]},
    {"id": "new-function-ignores-argument", "expect": "fire", "key": "C18.param-used",
     "edits": [(PU, "def program_equivalence(", "def _circuit_len(prog, other):\n    return len(prog.circuit)\n\n\ndef program_equivalence(")]},
]
