G = "backends/gaussianbackend/gaussiancircuit.py"
BB = "backends/bosonicbackend/backend.py"
FO = "backends/fockbackend/ops.py"
CASES = [
    {"id": "loss-no-mirror", "expect": "fire", "key": "C07.mirror",
     "edits": [(G, "        self.nmat[:, k] = np.conj(self.nmat[k])\n        self.mmat[:, k] = self.mmat[k]\n        self.mean[k] = sqrtT * self.mean[k]", "        self.mmat[:, k] = self.mmat[k]\n        self.mean[k] = sqrtT * self.mean[k]")]},
    {"id": "squeeze-mirror-no-conj", "expect": "fire", "key": "C07.mirror",
     "edits": [(G, "        # Update row k\n        self.nmat[:, k] = np.conj(self.nmat[k])\n        self.mmat[:, k] = self.mmat[k]\n\n    def phase_shift", "        # Update row k\n        self.nmat[:, k] = self.nmat[k]\n        self.mmat[:, k] = self.mmat[k]\n\n    def phase_shift")]},
    {"id": "mmat-mirror-conj", "expect": "fire", "key": "C07.mirror",
     "edits": [(G, "        self.nmat[:, l] = np.conj(self.nmat[l])\n        self.mmat[:, l] = self.mmat[l]\n\n    def scovmatxp", "        self.nmat[:, l] = np.conj(self.nmat[l])\n        self.mmat[:, l] = np.conj(self.mmat[l])\n\n    def scovmatxp")]},
    {"id": "heterodyne-gain-no-noise", "expect": "fire", "key": "C07.gain",
     "edits": [(G, "        covmat = np.identity(2)\n        indices = [n]\n        expind = np.concatenate((2 * np.array(indices), 2 * np.array(indices) + 1))\n        mp = self.scovmat()\n        (A, B, C) = ops.chop_in_blocks(mp, expind)\n        V = A - np.dot(np.dot(B, np.linalg.inv(C + covmat)), np.transpose(B))",
                "        covmat = np.identity(2)\n        indices = [n]\n        expind = np.concatenate((2 * np.array(indices), 2 * np.array(indices) + 1))\n        mp = self.scovmat()\n        (A, B, C) = ops.chop_in_blocks(mp, expind)\n        V = A - np.dot(np.dot(B, np.linalg.inv(C)), np.transpose(B))")]},
    {"id": "gkp-filter-after-normalise", "expect": "fire", "key": "C07.weights-normalised",
     "edits": [(BB, "        weights = weights[filt]\n\n        weights /= np.sum(weights)\n", "        weights /= np.sum(weights)\n        weights = weights[filt]\n\n")]},
    {"id": "loss-kraus-off-by-one", "expect": "fire", "key": "C07.kraus-complete",
     "edits": [(FO, "    return [E(n) for n in range(trunc)]", "    return [E(n) for n in range(trunc - 1)]")]},
    {"id": "twin-mirror-conjugate-name", "expect": "silent",
     "edits": [(G, "        self.nmat[:, k] = np.conj(self.nmat[k])\n        self.mmat[:, k] = self.mmat[k]\n        self.mean[k] = sqrtT * self.mean[k]", "        self.nmat[:, k] = np.conjugate(self.nmat[k])\n        self.mmat[:, k] = self.mmat[k]\n        self.mean[k] = sqrtT * self.mean[k]")]},
]
