BB = "io/blackbird_io.py"
X = "io/xir_io.py"
PA = "parameters.py"
O = "ops.py"
CASES = [
    {"id": "xir-target-key-mismatch", "expect": "fire", "key": "C14.keys",
     "edits": [(X, '    prog._target = xir_prog.options.get("target", None)  # pylint: disable=protected-access\n\n    if "shots" in xir_prog.options:\n        prog.run_options["shots"] = xir_prog.options["shots"]\n    if "cutoff_dim"',
                '    prog._target = xir_prog.options.get("_target_", None)  # pylint: disable=protected-access\n\n    if "shots" in xir_prog.options:\n        prog.run_options["shots"] = xir_prog.options["shots"]\n    if "cutoff_dim"')]},
    {"id": "xir-shots-renamed", "expect": "fire", "key": "C14.keys",
     "edits": [(X, '        xir_prog.add_option("shots", prog.run_options["shots"])', '        xir_prog.add_option("_shots_", prog.run_options["shots"])')]},
    {"id": "bb-select-dropped", "expect": "fire", "key": "C14.fields",
     "edits": [(BB, '            if cmd.op.select is not None:\n                op["kwargs"]["select"] = cmd.op.select\n', '')]},
    {"id": "xir-dark-counts-dropped", "expect": "fire", "key": "C14.fields",
     "edits": [(X, '                if cmd.op.dark_counts is not None:\n                    params["dark_counts"] = cmd.op.dark_counts\n', '                pass\n')]},
    {"id": "new-gate-not-exported", "expect": "fire", "key": "C14.names",
     "edits": [(O, "class Ggate(Gate):", "class Tgate(Gate):\n    def __init__(self, t):\n        super().__init__([t])\n\n    def _apply(self, reg, backend, **kwargs):\n        backend.rotation(par_evaluate(self.p[0]), *reg)\n\n\nclass Ggate(Gate):")]},
    {"id": "par-convert-positional", "expect": "fire", "key": "C14.par-convert",
     "edits": [(PA, "MeasuredParameter(prog.reg_refs[int(k.name[1:])])", "MeasuredParameter(prog.register[int(k.name[1:])])")]},
    {"id": "twin-select-local", "expect": "silent",
     "edits": [(BB, '            if cmd.op.select is not None:\n                op["kwargs"]["select"] = cmd.op.select\n', '            sel = cmd.op.select\n            if sel is not None:\n                op["kwargs"]["select"] = sel\n')]},
    {"id": "blackbird-args-aliased", "expect": "fire", "key": "C14.alias",
     "edits": [("io/blackbird_io.py", 'op["args"] = list(cmd.op.p)', 'op["args"] = cmd.op.p')]},
    {"id": "twin-blackbird-args-copied-otherwise", "expect": "silent",
     "edits": [("io/blackbird_io.py", 'op["args"] = list(cmd.op.p)', 'op["args"] = cmd.op.p[:]')]},
    {"id": "xir-writer-evaluates-symbolic-parameters", "expect": "fire", "key": "C14.fields",
     "edits": [("io/xir_io.py", '                    if not getattr(a, "free_symbols", None):\n                        try:\n', '                    if True:\n                        try:\n')]},
    {"id": "xir-reader-sends-strings-to-the-list-converter", "expect": "fire", "key": "C14.reader-types",
     "edits": [("io/xir_io.py", "                        elif isinstance(p, str):\n", "                        elif isinstance(p, bytes):\n")]},
    {"id": "twin-xir-reader-excludes-strings-in-the-test", "expect": "silent",
     "edits": [("io/xir_io.py", "                        elif isinstance(p, Iterable):\n                            params.append(np.array(_listr(p)))", "                        elif isinstance(p, Iterable) and not isinstance(p, str):\n                            params.append(np.array(_listr(p)))")]},
    {"id": "blackbird-writes-the-first-mode-only", "expect": "fire", "key": "C14.presence",
     "edits": [("io/blackbird_io.py", "        op[\"modes\"] = [i.ind for i in cmd.reg]", "        op[\"modes\"] = [cmd.reg[0].ind]")]},
]
