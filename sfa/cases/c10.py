PA = "parameters.py"
O = "ops.py"
P = "program.py"
CASES = [
    {"id": "measured-none-returns-zero", "expect": "fire", "key": "C10.errors",
     "edits": [(PA, "        if res is None:\n            raise ParameterError(\n                \"{}: trying to use a nonexistent measurement result (e.g., before it has been measured).\".format(\n                    self\n                )\n            )", "        if res is None:\n            res = 0.0")]},
    {"id": "free-unbound-silent", "expect": "fire", "key": "C10.errors",
     "edits": [(PA, "            if self.default is None:\n                raise ParameterError(\"{}: unbound parameter with no default value.\".format(self))\n            return self.default", "            return self.default or 0.0")]},
    {"id": "bind-ignores-unknown", "expect": "fire", "key": "C10.errors",
     "edits": [(P, "            else:\n                raise ParameterError(\"Unknown free parameter '{}'\".format(k))", "            else:\n                continue")]},
    {"id": "apply-raw-param", "expect": "fire", "key": "C10.evaluate-at-apply",
     "edits": [(O, "        p = par_evaluate(self.p)\n        backend.kerr_interaction(p[0], *reg)", "        backend.kerr_interaction(self.p[0], *reg)")]},
    {"id": "apply-caches-value", "expect": "fire", "key": "C10.evaluate-at-apply",
     "edits": [(O, "        p = par_evaluate(self.p)\n        backend.rotation(p[0], *reg)", "        p = par_evaluate(self.p)\n        self.p[0] = p[0]\n        backend.rotation(p[0], *reg)")]},
    {"id": "evaluate-free-only", "expect": "fire", "key": "C10.evaluate-at-apply",
     "edits": [(PA, "atoms = list(p.atoms(MeasuredParameter, FreeParameter))", "atoms = list(p.atoms(FreeParameter))")]},
    {"id": "par-convert-positional", "expect": "fire", "key": "C10.par-convert",
     "edits": [(PA, "MeasuredParameter(prog.reg_refs[int(k.name[1:])])", "MeasuredParameter(prog.register[int(k.name[1:])])")]},
    {"id": "deps-dropped", "expect": "fire", "key": "C10.deps",
     "edits": [(O, "            self._measurement_deps |= par_regref_deps(q)\n", "")]},
    {"id": "twin-evaluate-elementwise", "expect": "silent",
     "edits": [(O, "        p = par_evaluate(self.p)\n        backend.rotation(p[0], *reg)", "        theta = par_evaluate(self.p[0])\n        backend.rotation(theta, *reg)")]},
    {"id": "twin-bind-params-lookup-with-sentinel", "expect": "silent",
     "edits": [("program.py", "            temp = self.free_params.get(k)  # it's a name\n            if temp:", "            temp = self.free_params.get(k, 0)  # it's a name\n            if temp != 0:")]},
]
