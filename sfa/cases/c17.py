D = "decompositions.py"
CASES = [
    {"id": "takagi-no-symmetry", "expect": "fire", "key": "C17.guards",
     "edits": [(D, "    if np.linalg.norm(N - np.transpose(N)) >= tol:\n        raise ValueError(\"The input matrix is not symmetric\")\n", "")]},
    {"id": "williamson-posdef-warn", "expect": "fire", "key": "C17.guards",
     "edits": [(D, "    for val in vals:\n        if val <= 0:\n            raise ValueError(\"Input matrix is not positive definite\")\n\n    Mm12", "    for val in vals:\n        if val <= 0:\n            pass\n\n    Mm12")]},
    {"id": "bloch-messiah-no-symplectic", "expect": "fire", "key": "C17.guards",
     "edits": [(D, "    if np.linalg.norm(np.transpose(S) @ omega @ S - omega) >= tol:\n        raise ValueError(\"The input matrix is not symplectic\")\n", "")]},
    {"id": "rect-mz-unitary-after", "expect": "fire", "key": "C17.guards",
     "edits": [(D, "def rectangular_symmetric(V, tol=1e-11):", "def rectangular_symmetric(V, tol=1e-11, check=False):"),
               (D, "    tilist, diags, tlist = rectangular_MZ(V, tol)\n    new_tlist, new_diags = tilist.copy(), diags.copy()", "    tilist, diags, tlist = rectangular_MZ(np.array(V) + 0, tol) if check else _fast_mz(V)\n    new_tlist, new_diags = tilist.copy(), diags.copy()")]},
    {"id": "triangular-compact-wrong-polarity", "expect": "fire", "key": "C17.guards",
     "edits": [(D, "    if not U.shape[0] == U.shape[1]:\n        raise ValueError(\"Matrix is not square\")\n\n    if not np.allclose(U @ U.conj().T, np.eye(U.shape[0]), rtol=rtol, atol=atol):\n        raise ValueError(\"The input matrix is not unitary\")\n\n    V = U.conj()",
                "    if not U.shape[0] == U.shape[1]:\n        raise ValueError(\"Matrix is not square\")\n\n    if np.allclose(U @ U.conj().T, np.eye(U.shape[0]), rtol=rtol, atol=atol):\n        pass\n    else:\n        pass\n\n    V = U.conj()")]},
    {"id": "twin-guard-order", "expect": "silent",
     "edits": [(D, "    if n != m:\n        raise ValueError(\"The input matrix is not square\")\n    if n % 2 != 0:\n        raise ValueError(\"The input matrix must have an even number of rows/columns\")\n\n    n = n // 2\n    omega = sympmat(n)\n    if np.linalg.norm(np.transpose(S)",
                "    if n % 2 != 0:\n        raise ValueError(\"The input matrix must have an even number of rows/columns\")\n    if n != m:\n        raise ValueError(\"The input matrix is not square\")\n\n    n = n // 2\n    omega = sympmat(n)\n    if np.linalg.norm(np.transpose(S)")]},
]
