TP = "apps/train/param.py"
QU = "apps/qchem/utils.py"
DY = "apps/qchem/dynamics.py"
VB = "apps/qchem/vibronic.py"
CASES = [
    {"id": "click-mean-no-hbar", "expect": "fire", "key": "C20.hbar",
     "edits": [(TP, "        Q = Qmat(cov, hbar=sf.hbar)", "        Q = Qmat(cov)")]},
    {"id": "a-to-cov-fixed-two", "expect": "fire", "key": "C20.hbar",
     "edits": [(TP, "    return sf.hbar * (np.linalg.inv(I - _Omat(A)) - I / 2)", "    return 2 * (np.linalg.inv(I - _Omat(A)) - I / 2)")]},
    {"id": "marginals-no-hbar", "expect": "fire", "key": "C20.hbar",
     "edits": [(QU, "quantum.density_matrix_element(mui, vi, [i], [i], hbar=hbar)", "quantum.density_matrix_element(mui, vi, [i], [i])")]},
    {"id": "time-evolution-squeezes", "expect": "fire", "key": "C20.passive",
     "edits": [(DY, "            sf.ops.Rgate(theta[i]) | q[i]", "            sf.ops.Rgate(theta[i]) | q[i]\n            sf.ops.Sgate(1e-9 * theta[i]) | q[i]")]},
    {"id": "time-evolution-wrong-mode", "expect": "fire", "key": "C20.passive",
     "edits": [(DY, "            sf.ops.Rgate(theta[i]) | q[i]", "            sf.ops.Rgate(theta[0]) | q[i]")]},
    {"id": "sandwich-swapped", "expect": "fire", "key": "C20.passive",
     "edits": [(DY, "        sf.ops.Interferometer(Ul.T) | q[:N]\n\n        TimeEvolution(w, t) | q[:N]\n\n        sf.ops.Interferometer(Ul) | q[:N]", "        sf.ops.Interferometer(Ul) | q[:N]\n\n        TimeEvolution(w, t) | q[:N]\n\n        sf.ops.Interferometer(Ul.T) | q[:N]")]},
    {"id": "doktorov-u1-u2-swapped", "expect": "fire", "key": "C20.doktorov",
     "edits": [(VB, "    return t, U1, np.log(s), U2, alpha", "    return t, U2, np.log(s), U1, alpha")]},
    {"id": "doktorov-displacement-first", "expect": "fire", "key": "C20.doktorov",
     "edits": [(VB, "        sf.ops.Interferometer(U1) | q\n\n        for i in range(n_modes):\n            sf.ops.Sgate(r[i]) | q[i]", "        for i in range(n_modes):\n            sf.ops.Sgate(r[i]) | q[i]\n\n        sf.ops.Interferometer(U1) | q")]},
    {"id": "twin-theta-local", "expect": "silent",
     "edits": [(DY, "        for i in range(n_modes):\n            sf.ops.Rgate(theta[i]) | q[i]", "        for i in range(n_modes):\n            rot = sf.ops.Rgate(theta[i])\n            rot | q[i]")]},
    {"id": "orbit-probability-fit-guard-on-photon-number", "expect": "fire", "key": "C20.fit-guard",
     "edits": [("apps/similarity.py", "    state = _get_state(graph, n_mean, loss)\n\n    click = orbit + [0] * (modes - len(orbit))", "    if photons > modes:\n        return 0.0\n    state = _get_state(graph, n_mean, loss)\n\n    click = orbit + [0] * (modes - len(orbit))")]},
    {"id": "twin-orbit-probability-fit-guard-on-orbit-length", "expect": "silent",
     "edits": [("apps/similarity.py", "    state = _get_state(graph, n_mean, loss)\n\n    click = orbit + [0] * (modes - len(orbit))", "    if len(orbit) > modes:\n        return 0.0\n    state = _get_state(graph, n_mean, loss)\n\n    click = orbit + [0] * (modes - len(orbit))")]},
    {"id": "mean-number-of-the-other-detector", "expect": "fire", "key": "C20.passive",
     "edits": [("apps/train/param.py", "        if self.threshold:\n            return np.sum(self.mean_clicks_by_mode(params))\n\n        return np.sum(self.mean_photons_by_mode(params))", "        if not self.threshold:\n            return np.sum(self.mean_clicks_by_mode(params))\n\n        return np.sum(self.mean_photons_by_mode(params))")]},
    {"id": "rescale-for-the-other-detector", "expect": "fire", "key": "C20.passive",
     "edits": [("apps/train/param.py", "    scale = rescale_tor(A, n_mean) if threshold else rescale(A, n_mean)", "    scale = rescale(A, n_mean) if threshold else rescale_tor(A, n_mean)")]},
    {"id": "twin-mean-number-as-conditional-expression", "expect": "silent",
     "edits": [("apps/train/param.py", "        if self.threshold:\n            return np.sum(self.mean_clicks_by_mode(params))\n\n        return np.sum(self.mean_photons_by_mode(params))", "        by_mode = self.mean_photons_by_mode(params) if not self.threshold else self.mean_clicks_by_mode(params)\n        return np.sum(by_mode)")]},
]
