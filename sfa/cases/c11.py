GU = "compilers/gaussian_unitary.py"
PV = "compilers/passive.py"
CASES = [
    {"id": "used-modes-unsorted", "expect": "fire", "key": "C11.set-order",
     "edits": [(GU, "used_modes = sorted(set([item for sublist in used_modes for item in sublist]))", "used_modes = list(set([item for sublist in used_modes for item in sublist]))")]},
    {"id": "passive-unsorted", "expect": "fire", "key": "C11.set-order",
     "edits": [(PV, "used_modes = sorted(set(item for sublist in used_modes for item in sublist))", "used_modes = list(set(item for sublist in used_modes for item in sublist))")]},
    {"id": "raw-mode-index", "expect": "fire", "key": "C11.index-map",
     "edits": [(GU, "                        squeezing(params[0], params[1]), Snet, rnet, dict_indices[modes[0]]", "                        squeezing(params[0], params[1]), Snet, rnet, modes[0]")]},
    {"id": "raw-displacement-index", "expect": "fire", "key": "C11.index-map",
     "edits": [(GU, "                rnet[dict_indices[modes[0]] + nmodes] += 2 * alpha.imag", "                rnet[modes[0] + nmodes] += 2 * alpha.imag")]},
    {"id": "bs-modes-transposed", "expect": "fire", "key": "C11.index-map",
     "edits": [(PV, "                T = _apply_two_mode_gate(G, T, dict_indices[modes[0]], dict_indices[modes[1]])\n            elif name == \"MZgate\":", "                T = _apply_two_mode_gate(G, T, dict_indices[modes[1]], dict_indices[modes[0]])\n            elif name == \"MZgate\":")]},
    {"id": "passive-ix-raw", "expect": "fire", "key": "C11.index-map",
     "edits": [(PV, "                    modes = [dict_indices[mode] for mode in modes]\n                    U_expand = np.eye(nmodes, dtype=np.complex128)", "                    U_expand = np.eye(nmodes, dtype=np.complex128)")]},
    {"id": "new-primitive-no-branch", "expect": "fire", "key": "C11.dispatch",
     "edits": [(PV, '        "Rgate",\n        "LossChannel",', '        "Rgate",\n        "Fouriergate",\n        "LossChannel",')]},
    {"id": "twin-sorted-list", "expect": "silent",
     "edits": [(GU, "used_modes = sorted(set([item for sublist in used_modes for item in sublist]))", "used_modes = list(set([item for sublist in used_modes for item in sublist]))\n        used_modes.sort()")]},
]
