S = "backends/states.py"
GB = "backends/gaussianbackend/backend.py"
CASES = [
    {"id": "parity-ignores-modes", "expect": "fire", "key": "C16.param-flow",
     "edits": [(S, "        mu, cov = self.reduced_gaussian(sorted(modes))\n        num = np.exp(-(0.5) * (mu @ (np.linalg.inv(cov) @ mu)))", "        mu = self.means()\n        cov = self.cov()\n        num = np.exp(-(0.5) * (mu @ (np.linalg.inv(cov) @ mu)))")]},
    {"id": "fock-mean-photon-full", "expect": "fire", "key": "C16.param-flow",
     "edits": [(S, "        probs = np.diagonal(self.reduced_dm(mode))\n        mean = np.sum(n * probs).real", "        probs = np.diagonal(self.reduced_dm([0]))\n        mean = np.sum(n * probs).real")]},
    {"id": "squeezing-inplace", "expect": "fire", "key": "C16.alias",
     "edits": [(S, "            mu, cov = self.reduced_gaussian([i])  # pylint: disable=unused-variable\n            cov = cov / (self._hbar / 2)", "            mu, cov = self.reduced_gaussian([i])  # pylint: disable=unused-variable\n            cov /= self._hbar / 2")]},
    {"id": "quad-expectation-units", "expect": "fire", "key": "C16.dim",
     "edits": [(S, "        x = np.sqrt(self._hbar / 2) * (a + a.T)\n", "        x = (self._hbar / 2) * (a + a.T)\n")]},
    {"id": "labels-positional", "expect": "fire", "key": "C16.labels",
     "edits": [(GB, '        mode_names = ["q[{}]".format(i) for i in modes]', '        mode_names = ["q[{}]".format(i) for i in range(len(modes))]')]},
    {"id": "twin-reduce-local", "expect": "silent",
     "edits": [(S, "        mu, cov = self.reduced_gaussian(sorted(modes))\n        num = np.exp(", "        wanted = sorted(modes)\n        mu, cov = self.reduced_gaussian(wanted)\n        num = np.exp(")]},
    {"id": "bosonic-state-sorted-selection", "expect": "fire", "key": "C16.labels",
     "edits": [("backends/bosonicbackend/backend.py", "        mode_ind = np.array([[2 * m, 2 * m + 1] for m in modes]).flatten()\n",
                "        mode_ind = np.sort(np.append(2 * np.array(modes), 2 * np.array(modes) + 1))\n")]},
    {"id": "bosonic-displacement-sorted", "expect": "fire", "key": "C16.labels",
     "edits": [("backends/states.py", "        ind = np.array([[2 * m, 2 * m + 1] for m in modes], dtype=int).flatten()\n",
                "        ind = np.sort(np.concatenate([2 * np.array(modes), 2 * np.array(modes) + 1]))\n")]},
]
