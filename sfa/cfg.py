"""E2 - statement-level control-flow graph with exceptional edges, dominators and path predicates.

Nodes are simple statements plus one node per compound-statement header.  Two exits: EXIT (return /
fall-through) and EXC (uncaught exception).  A node *may raise* iff it is a Raise/Assert or contains a
Call (not inside a nested def / lambda); it then has an 'x' edge to the innermost handler / finally copy,
else to EXC.  `finally` bodies are duplicated for the normal, the exceptional and every
return/break/continue continuation.
"""
from __future__ import annotations

import ast
from collections import defaultdict
from typing import Dict, Iterable, List, Optional, Set, Tuple

from .loader import AnalysisError, walk_no_nested

N, T, F, X = "n", "t", "f", "x"  # edge labels: normal, true-branch, false-branch, exceptional


class Node:
    __slots__ = ("id", "kind", "ast", "stmt")

    def __init__(self, id, kind, node, stmt):
        self.id = id
        self.kind = kind  # entry exit exc stmt if while for with try except join
        self.ast = node  # the expression / statement evaluated at this node (None for synthetic)
        self.stmt = stmt  # the ast.stmt this node belongs to

    @property
    def line(self):
        return getattr(self.stmt, "lineno", 0) if self.stmt is not None else 0

    def __repr__(self):
        t = ""
        if self.ast is not None:
            try:
                t = ast.unparse(self.ast).split("\n")[0][:60]
            except Exception:  # pragma: no cover
                t = "?"
        return f"<{self.id}:{self.kind}@{self.line} {t}>"


def may_raise(node: ast.AST) -> bool:
    if isinstance(node, (ast.Raise, ast.Assert)):
        return True
    for n in walk_no_nested(node):
        if isinstance(n, ast.Call):
            return True
        if isinstance(n, ast.Lambda):
            continue
    return False


class CFG:
    def __init__(self, func: ast.AST):
        self.func = func
        self.nodes: List[Node] = []
        self.succ: Dict[int, List[Tuple[int, str]]] = defaultdict(list)
        self.pred: Dict[int, List[Tuple[int, str]]] = defaultdict(list)
        self.nodes_of: Dict[ast.AST, List[int]] = defaultdict(list)
        self.entry = self._new("entry", None, None)
        self.exit = self._new("exit", None, None)
        self.exc = self._new("exc", None, None)
        # context stacks
        self._loops: List[Tuple[int, List[int], int]] = []  # (header id, break-collector, finally depth)
        self._exc_targets: List = [lambda: self.exc]
        self._finals: List[Tuple[List[ast.stmt], int, int]] = []  # (finalbody, exc depth, loop depth)
        body = func.body if not isinstance(func, ast.Lambda) else [ast.Return(value=func.body)]
        out = self._seq(body, {(self.entry, N)})
        for s, l in out:
            self._edge(s, self.exit, l)
        self._dom = {}

    # ---- construction ---------------------------------------------------------
    def _new(self, kind, node, stmt) -> int:
        n = Node(len(self.nodes), kind, node, stmt)
        self.nodes.append(n)
        if stmt is not None:
            self.nodes_of[stmt].append(n.id)
        return n.id

    def _edge(self, a, b, label=N):
        if (b, label) not in self.succ[a]:
            self.succ[a].append((b, label))
            self.pred[b].append((a, label))

    def _connect(self, cur: Set[Tuple[int, str]], b: int):
        for a, l in cur:
            self._edge(a, b, l)

    def _raise_edge(self, a):
        self._edge(a, self._exc_targets[-1](), X)

    def _seq(self, stmts, cur):
        for st in stmts:
            cur = self._stmt(st, cur)
        return cur

    def _run_finals(self, cur, down_to: int):
        """copy the bodies of the enclosing `finally` blocks (innermost first) down to depth `down_to`"""
        saved = (self._finals, self._exc_targets, self._loops)
        try:
            for i in range(len(saved[0]) - 1, down_to - 1, -1):
                body, exc_depth, loop_depth = saved[0][i]
                self._finals = saved[0][:i]
                self._exc_targets = saved[1][:exc_depth]
                self._loops = saved[2][:loop_depth]
                cur = self._seq(body, cur)
        finally:
            self._finals, self._exc_targets, self._loops = saved
        return cur

    def _stmt(self, st, cur):
        if not cur:
            # unreachable code: still create nodes so that rules can find them, but leave unconnected
            pass
        if isinstance(st, (ast.FunctionDef, ast.AsyncFunctionDef, ast.ClassDef)):
            n = self._new("stmt", None, st)
            self._connect(cur, n)
            return {(n, N)}
        if isinstance(st, ast.If):
            n = self._new("if", st.test, st)
            self._connect(cur, n)
            if may_raise(st.test):
                self._raise_edge(n)
            a = self._seq(st.body, {(n, T)})
            b = self._seq(st.orelse, {(n, F)}) if st.orelse else {(n, F)}
            return a | b
        if isinstance(st, ast.While):
            n = self._new("while", st.test, st)
            self._connect(cur, n)
            if may_raise(st.test):
                self._raise_edge(n)
            breaks: List[Tuple[int, str]] = []
            self._loops.append((n, breaks, len(self._finals)))
            body_out = self._seq(st.body, {(n, T)})
            self._loops.pop()
            self._connect(body_out, n)
            const_true = isinstance(st.test, ast.Constant) and bool(st.test.value)
            out = set() if const_true else {(n, F)}
            if st.orelse:
                out = self._seq(st.orelse, out)
            return out | set(breaks)
        if isinstance(st, (ast.For, ast.AsyncFor)):
            n = self._new("for", st, st)
            self._connect(cur, n)
            if may_raise(st.iter):
                self._raise_edge(n)
            breaks = []
            self._loops.append((n, breaks, len(self._finals)))
            body_out = self._seq(st.body, {(n, T)})
            self._loops.pop()
            self._connect(body_out, n)
            out = {(n, F)}
            if st.orelse:
                out = self._seq(st.orelse, out)
            return out | set(breaks)
        if isinstance(st, (ast.With, ast.AsyncWith)):
            n = self._new("with", st, st)
            self._connect(cur, n)
            self._raise_edge(n)
            return self._seq(st.body, {(n, N)})
        if isinstance(st, ast.Try) or st.__class__.__name__ == "TryStar":
            return self._try(st, cur)
        if isinstance(st, ast.Return):
            n = self._new("stmt", st, st)
            self._connect(cur, n)
            if st.value is not None and may_raise(st.value):
                self._raise_edge(n)
            out = self._run_finals({(n, N)}, 0)
            self._connect(out, self.exit)
            return set()
        if isinstance(st, ast.Raise):
            n = self._new("stmt", st, st)
            self._connect(cur, n)
            self._raise_edge(n)
            return set()
        if isinstance(st, ast.Break):
            n = self._new("stmt", st, st)
            self._connect(cur, n)
            if not self._loops:
                raise AnalysisError("break outside loop")
            hdr, breaks, fdepth = self._loops[-1]
            out = self._run_finals({(n, N)}, fdepth)
            breaks.extend(out)
            return set()
        if isinstance(st, ast.Continue):
            n = self._new("stmt", st, st)
            self._connect(cur, n)
            hdr, breaks, fdepth = self._loops[-1]
            out = self._run_finals({(n, N)}, fdepth)
            self._connect(out, hdr)
            return set()
        if st.__class__.__name__ == "Match":
            raise AnalysisError("match statement not modelled by the CFG builder")
        # simple statement
        n = self._new("stmt", st, st)
        self._connect(cur, n)
        if may_raise(st):
            self._raise_edge(n)
        return {(n, N)}

    def _try(self, st, cur):
        head = self._new("try", None, st)
        self._connect(cur, head)
        after: Set[Tuple[int, str]] = set()
        has_final = bool(st.finalbody)
        outer_exc_depth = len(self._exc_targets)
        outer_loop_depth = len(self._loops)
        if has_final:
            # exceptional continuation of the finally block: built lazily, once
            fin_exc_entry: List[Optional[int]] = [None]

            def fin_exc_target():
                if fin_exc_entry[0] is None:
                    j = self._new("join", None, st)
                    fin_exc_entry[0] = j
                    saved = (self._finals, self._exc_targets, self._loops)
                    self._finals = saved[0][: fdepth]
                    self._exc_targets = saved[1][:outer_exc_depth]
                    self._loops = saved[2][:outer_loop_depth]
                    try:
                        out = self._seq(st.finalbody, {(j, N)})
                        for a, l in out:
                            self._edge(a, self._exc_targets[-1](), X)
                    finally:
                        self._finals, self._exc_targets, self._loops = saved
                return fin_exc_entry[0]

            fdepth = len(self._finals)
            self._exc_targets.append(fin_exc_target)
            self._finals.append((st.finalbody, outer_exc_depth, outer_loop_depth))
        # handlers
        if st.handlers:
            dispatch = self._new("join", None, st)
            self._exc_targets.append(lambda: dispatch)
            body_out = self._seq(st.body, {(head, N)})
            self._exc_targets.pop()
            catches_all = False
            for h in st.handlers:
                hn = self._new("except", h, st)
                self._edge(dispatch, hn, N)
                tname = ast.unparse(h.type) if h.type is not None else None
                if tname is None or tname in ("BaseException", "Exception"):
                    catches_all = True
                after |= self._seq(h.body, {(hn, N)})
            if not catches_all:
                self._edge(dispatch, self._exc_targets[-1](), X)
        else:
            body_out = self._seq(st.body, {(head, N)})
        if st.orelse:
            body_out = self._seq(st.orelse, body_out)
        after |= body_out
        if has_final:
            self._finals.pop()
            self._exc_targets.pop()
            after = self._seq(st.finalbody, after)
        return after

    # ---- queries --------------------------------------------------------------
    def ids(self) -> Iterable[int]:
        return range(len(self.nodes))

    def node(self, i) -> Node:
        return self.nodes[i]

    def successors(self, i, exc=True):
        return [(b, l) for b, l in self.succ[i] if exc or l != X]

    def reachable(self, start: Iterable[int], avoid: Iterable[int] = (), exc=True,
                  skip_edges: Iterable[Tuple[int, str]] = ()) -> Set[int]:
        """nodes reachable from `start` (inclusive) along edges, never entering `avoid`;
        skip_edges: (source id, label) pairs that are removed"""
        avoid = set(avoid)
        skip = set(skip_edges)
        seen = set()
        todo = [s for s in start if s not in avoid]
        while todo:
            a = todo.pop()
            if a in seen:
                continue
            seen.add(a)
            for b, l in self.succ[a]:
                if (not exc and l == X) or (a, l) in skip or b in avoid or b in seen:
                    continue
                todo.append(b)
        return seen

    def live_nodes(self) -> Set[int]:
        return self.reachable([self.entry])

    def must_pass(self, a: int, through: Iterable[int], exits: Iterable[int] = None, exc=True) -> bool:
        """every path from a (exclusive) to one of `exits` contains a node of `through`"""
        exits = set(exits) if exits is not None else {self.exit, self.exc}
        through = set(through)
        starts = [b for b, l in self.succ[a] if exc or l != X]
        r = self.reachable(starts, avoid=through, exc=exc)
        return not (r & exits)

    def dominators(self, exc=False) -> Dict[int, Set[int]]:
        key = ("dom", exc)
        if key in self._dom:
            return self._dom[key]
        live = self.reachable([self.entry], exc=exc)
        dom = {i: set(live) for i in live}
        dom[self.entry] = {self.entry}
        changed = True
        order = sorted(live)
        while changed:
            changed = False
            for i in order:
                if i == self.entry:
                    continue
                ps = [a for a, l in self.pred[i] if a in live and (exc or l != X)]
                if not ps:
                    continue
                new = set.intersection(*(dom[p] for p in ps)) | {i}
                if new != dom[i]:
                    dom[i] = new
                    changed = True
        self._dom[key] = dom
        return dom

    def dominates(self, a: int, b: int, exc=False) -> bool:
        d = self.dominators(exc)
        return b in d and a in d[b]

    def branch_conditions(self, target: int, exc=False) -> List[Tuple[int, str]]:
        """(header id, label) pairs such that every path entry -> target takes that branch edge
        (label 't' / 'f' of an if / while / for header)."""
        key = ("bc", target, exc)
        if key in self._dom:
            return self._dom[key]
        out = []
        base = self.reachable([self.entry], exc=exc)
        if target not in base:
            self._dom[key] = out
            return out
        for n in self.nodes:
            if n.kind in ("if", "while", "for") and n.id in base:
                for lab in (T, F):
                    r = self.reachable([self.entry], exc=exc, skip_edges=[(n.id, lab)])
                    if target not in r:
                        out.append((n.id, lab))
        self._dom[key] = out
        return out

    def stmt_nodes(self, pred=None) -> List[Node]:
        return [n for n in self.nodes if n.ast is not None and (pred is None or pred(n))]

    def find(self, stmt: ast.AST) -> List[int]:
        return self.nodes_of.get(stmt, [])

    def node_of_expr(self, expr: ast.AST) -> List[int]:
        """ids of the CFG nodes whose statement contains the expression"""
        p = expr
        while p is not None and p not in self.nodes_of:
            p = getattr(p, "parent", None)
        return self.nodes_of.get(p, []) if p is not None else []

    def raising_exits(self) -> List[int]:
        return [a for a, l in self.pred[self.exc]]

    def ends_in_raise(self, start: int, label: str) -> bool:
        """all paths leaving `start` through branch `label` end in EXC without reaching EXIT
        (the branch is a 'raising guard')"""
        firsts = [b for b, l in self.succ[start] if l == label]
        if not firsts:
            return False
        r = self.reachable(firsts)
        return self.exit not in r and self.exc in r


_cache: Dict[int, CFG] = {}


def cfg_of(func_node) -> CFG:
    k = id(func_node)
    c = _cache.get(k)
    if c is None or c.func is not func_node:
        c = CFG(func_node)
        _cache[k] = c
    return c
