"""sfa - purpose-built static analyser for the strawberryfields properties C01-C20.

Pure standard library.  Nothing from /repo is imported or executed; every run parses the
current working tree of $SFA_REPO/strawberryfields (default /repo).
"""
