"""Behaviour-preserving whole-package transformations (metamorphic self-test of the checker).

Each transformation rewrites EVERY module of a scratch copy of the package with an ast.NodeTransformer that leaves the
behaviour of the code unchanged (renaming locals, flipping if/else, hoisting temporaries, swapping comparison operands,
early return <-> else, reordering methods, re-printing the source).  A sound rule decides the same thing before and after:
the thorough tier requires the same failing keys on the transformed copy as on the analysed tree."""
import ast
import os

class Rename(ast.NodeTransformer):
    """rename the plain locals of every function (not parameters, not globals, not names bound in nested scopes)"""

    def visit_FunctionDef(self, node):
        self.generic_visit(node)
        params = {a.arg for a in node.args.args + node.args.kwonlyargs + node.args.posonlyargs}
        if node.args.vararg:
            params.add(node.args.vararg.arg)
        if node.args.kwarg:
            params.add(node.args.kwarg.arg)
        stored, banned = set(), set(params)
        for sub in ast.walk(node):
            if isinstance(sub, (ast.Global, ast.Nonlocal)):
                banned.update(sub.names)
            if isinstance(sub, (ast.FunctionDef, ast.Lambda)) and sub is not node:
                a = sub.args
                banned.update(x.arg for x in a.args + a.kwonlyargs + a.posonlyargs)
                if a.vararg:
                    banned.add(a.vararg.arg)
                if a.kwarg:
                    banned.add(a.kwarg.arg)
                if isinstance(sub, ast.FunctionDef):
                    banned.add(sub.name)
            if isinstance(sub, ast.ClassDef):
                banned.add(sub.name)
            if isinstance(sub, (ast.Import, ast.ImportFrom)):
                banned.update((al.asname or al.name).split(".")[0] for al in sub.names)
            if isinstance(sub, ast.ExceptHandler) and sub.name:
                banned.add(sub.name)
        own = [s for s in ast.walk(node)]
        for sub in own:
            if isinstance(sub, ast.Name) and isinstance(sub.ctx, (ast.Store, ast.Del)):
                stored.add(sub.id)
        todo = {n for n in stored - banned if not n.startswith("__")}
        for sub in ast.walk(node):
            if isinstance(sub, ast.Name) and sub.id in todo:
                sub.id = sub.id + "_rn"
        return node


class FlipIf(ast.NodeTransformer):
    """if c: A else: B  ->  if not c: B else: A   (only when both branches exist and it is not an elif chain)"""

    def visit_If(self, node):
        self.generic_visit(node)
        if node.orelse and not (len(node.orelse) == 1 and isinstance(node.orelse[0], ast.If)):
            node.test = ast.UnaryOp(op=ast.Not(), operand=node.test)
            node.body, node.orelse = node.orelse, node.body
        return node


class Noop(ast.NodeTransformer):
    """a harmless local statement at the start of every function and after every assignment"""

    def visit_FunctionDef(self, node):
        self.generic_visit(node)
        k = 1 if (node.body and isinstance(node.body[0], ast.Expr) and isinstance(getattr(node.body[0], "value", None), ast.Constant)) else 0
        node.body.insert(k, ast.parse("_dbg = None").body[0])
        return node


class Reorder(ast.NodeTransformer):
    """reverse the order of the methods of every class that defines no class-level statements depending on order"""

    def visit_ClassDef(self, node):
        self.generic_visit(node)
        idx = [i for i, s in enumerate(node.body) if isinstance(s, ast.FunctionDef) and not s.decorator_list]
        funcs = [node.body[i] for i in idx][::-1]
        for i, f in zip(idx, funcs):
            node.body[i] = f
        return node


class TmpVar(ast.NodeTransformer):
    """return <expr>  ->  _ret = <expr>; return _ret"""

    def _blk(self, body):
        out = []
        for s in body:
            if isinstance(s, ast.Return) and s.value is not None and not isinstance(s.value, (ast.Name, ast.Constant)):
                out.append(ast.Assign(targets=[ast.Name(id="_ret", ctx=ast.Store())], value=s.value, lineno=s.lineno))
                out.append(ast.Return(value=ast.Name(id="_ret", ctx=ast.Load())))
            else:
                out.append(s)
        return out

    def generic_visit(self, node):
        super().generic_visit(node)
        for f in ("body", "orelse", "finalbody"):
            b = getattr(node, f, None)
            if isinstance(b, list) and b and isinstance(b[0], ast.stmt):
                setattr(node, f, self._blk(b))
        return node


class Elseify(ast.NodeTransformer):
    """if c: ...return/raise;  rest   ->   if c: ...return/raise  else: rest      (pylint's no-else-return, reversed)"""

    def _blk(self, body):
        for i, st in enumerate(body):
            if isinstance(st, ast.If) and not st.orelse and st.body and isinstance(st.body[-1], (ast.Return, ast.Raise)) \
                    and i + 1 < len(body):
                st.orelse = self._blk(body[i + 1:])
                return body[:i + 1]
        return body

    def generic_visit(self, node):
        super().generic_visit(node)
        for f in ("body", "orelse", "finalbody"):
            b = getattr(node, f, None)
            if isinstance(b, list) and b and isinstance(b[0], ast.stmt) and not isinstance(node, (ast.For, ast.While)):
                setattr(node, f, self._blk(b))
        return node


class DeElse(ast.NodeTransformer):
    """if c: ...return/raise  else: rest   ->   if c: ...return/raise;  rest      (pylint's no-else-return)"""

    def _blk(self, body):
        out = []
        for st in body:
            out.append(st)
            if isinstance(st, ast.If) and st.orelse and st.body and isinstance(st.body[-1], (ast.Return, ast.Raise)) and \
                    not (len(st.orelse) == 1 and isinstance(st.orelse[0], ast.If) and False):
                rest = st.orelse
                st.orelse = []
                out.extend(self._blk(rest))
        return out

    def generic_visit(self, node):
        super().generic_visit(node)
        for f in ("body", "orelse", "finalbody"):
            b = getattr(node, f, None)
            if isinstance(b, list) and b and isinstance(b[0], ast.stmt):
                setattr(node, f, self._blk(b))
        return node


class CmpSwap(ast.NodeTransformer):
    """a == b -> b == a,  a != b -> b != a,  a < b -> b > a ...   (single comparisons of side-effect-free operands)"""
    M = {ast.Eq: ast.Eq, ast.NotEq: ast.NotEq, ast.Lt: ast.Gt, ast.Gt: ast.Lt, ast.LtE: ast.GtE, ast.GtE: ast.LtE}

    def visit_Compare(self, node):
        self.generic_visit(node)
        if len(node.ops) == 1 and type(node.ops[0]) in self.M and not any(isinstance(x, ast.Call) for x in ast.walk(node)):
            return ast.Compare(left=node.comparators[0], ops=[self.M[type(node.ops[0])]()], comparators=[node.left])
        return node


class TmpArgs(ast.NodeTransformer):
    """f(g(x), y)  ->  _a0 = g(x); f(_a0, y)   for call-valued positional arguments of calls that are a whole statement
    (expression statement or the value of a plain assignment); evaluation order is preserved"""

    def _blk(self, body):
        out = []
        for st in body:
            call = None
            if isinstance(st, ast.Expr) and isinstance(st.value, ast.Call):
                call = st.value
            elif isinstance(st, ast.Assign) and isinstance(st.value, ast.Call):
                call = st.value
            if call is not None and not any(isinstance(a, ast.Starred) for a in call.args):
                # the callee expression is evaluated first: only plain names / attribute chains of names are safe
                fn = call.func
                while isinstance(fn, ast.Attribute):
                    fn = fn.value
                if isinstance(fn, ast.Name):
                    k = 0
                    for i, a in enumerate(call.args):
                        if isinstance(a, (ast.Call, ast.BinOp)) and not any(isinstance(x, (ast.Lambda, ast.Yield, ast.Await, ast.NamedExpr)) for x in ast.walk(a)):
                            nm = f"_a{k}"
                            k += 1
                            out.append(ast.Assign(targets=[ast.Name(id=nm, ctx=ast.Store())], value=a, lineno=st.lineno))
                            call.args[i] = ast.Name(id=nm, ctx=ast.Load())
                        elif not isinstance(a, (ast.Name, ast.Constant, ast.Attribute)):
                            break  # a later argument must not be evaluated before this one
            out.append(st)
        return out

    def generic_visit(self, node):
        super().generic_visit(node)
        for f in ("body", "orelse", "finalbody"):
            b = getattr(node, f, None)
            if isinstance(b, list) and b and isinstance(b[0], ast.stmt):
                setattr(node, f, self._blk(b))
        return node


class KwCalls(ast.NodeTransformer):
    """obj.m(a, b) -> obj.m(x=a, y=b) for method calls on self / self.circuit / backend whose method name has one
    positional signature in the whole package (the signatures are collected by transform() before rewriting)"""
    SIGS = {}

    def visit_Call(self, node):
        self.generic_visit(node)
        f = node.func
        if not (isinstance(f, ast.Attribute) and node.args and not node.keywords):
            return node
        recv = ast.unparse(f.value)
        if recv not in ("self", "self.circuit", "backend", "self.backend"):
            return node
        sig = self.SIGS.get(f.attr)
        if not sig or any(isinstance(a, ast.Starred) for a in node.args) or len(node.args) > len(sig):
            return node
        node.keywords = [ast.keyword(arg=p, value=a) for p, a in zip(sig, node.args)]
        node.args = []
        return node


def _collect_sigs(root):
    sigs = {}
    for dp, _, fs in os.walk(os.path.join(root, "strawberryfields")):
        for f in fs:
            if f.endswith(".py"):
                tree = ast.parse(open(os.path.join(dp, f)).read())
                for n in ast.walk(tree):
                    if isinstance(n, ast.ClassDef):
                        for m in n.body:
                            if isinstance(m, ast.FunctionDef):
                                a = m.args
                                if a.vararg or a.posonlyargs or any(isinstance(d, ast.Name) and d.id in ("staticmethod", "classmethod", "property") for d in m.decorator_list):
                                    sigs.setdefault(m.name, set()).add(None)
                                    continue
                                ps = tuple(x.arg for x in a.args[1:])
                                sigs.setdefault(m.name, set()).add(ps)
                    elif isinstance(n, ast.FunctionDef):
                        pass
    return {k: list(next(iter(v))) for k, v in sigs.items() if len(v) == 1 and None not in v}


T = {"unparse": None, "rename": Rename, "flipif": FlipIf, "noop": Noop, "reorder": Reorder, "tmpvar": TmpVar, "elseify": Elseify, "deelse": DeElse, "cmpswap": CmpSwap, "tmpargs": TmpArgs, "kwcalls": KwCalls}


def transform(root, name):
    n = 0
    if name == "kwcalls":
        KwCalls.SIGS = _collect_sigs(root)
    for dp, _, fs in os.walk(os.path.join(root, "strawberryfields")):
        for f in fs:
            if not f.endswith(".py"):
                continue
            p = os.path.join(dp, f)
            src = open(p).read()
            tree = ast.parse(src)
            if T[name] is not None:
                tree = T[name]().visit(tree)
                ast.fix_missing_locations(tree)
            out = ast.unparse(tree)
            ast.parse(out)
            open(p, "w").write(out + "\n")
            n += 1
    return n


