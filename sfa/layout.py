"""E8 - abstract interpretation of tensor axis layouts.

A Fock state is abstracted to the tuple of its axis labels ('K', m) / ('B', m) (ket / bra axis of mode m);
gate matrices are opaque values with a conjugation / transposition bit.  Integer scalars, integer
lists / arrays, strings and shapes are concrete and folded by this module's own evaluator for the Python
subset used by the Fock backend - nothing from the repository is imported or executed.  Every numeric
kernel site records an obligation: the axes the kernel contracts must carry the labels of the target
modes (and bra axes go with the conjugated matrix).

A construct that is not modelled raises NotModelled: the case is 'not analysed' (never a violation).
"""
from __future__ import annotations

import ast
import itertools
from typing import Dict, List, Optional, Tuple

from .loader import FuncInfo, Tree, dotted, strip_docstring

TRUNC = 3  # concrete stand-in for the cutoff dimension (only shapes are compared with it)


class NotModelled(Exception):
    pass


class Violation(Exception):
    pass


class Tensor:
    def __init__(self, labels, note=""):
        self.labels = tuple(labels)
        self.note = note

    @property
    def shape(self):
        return tuple(TRUNC for _ in self.labels)

    @property
    def ndim(self):
        return len(self.labels)

    def conj(self):
        flip = {"K": "B", "B": "K", "PK": "PB", "PB": "PK"}
        return Tensor(tuple((flip.get(k, k), m) for k, m in self.labels), self.note)

    def transpose(self, perm):
        perm = [int(p) for p in _tolist(perm)]
        if sorted(perm) != list(range(len(self.labels))):
            raise Violation(f"transpose permutation {perm} is not a permutation of the {len(self.labels)} axes")
        return Tensor(tuple(self.labels[i] for i in perm), self.note)

    def __repr__(self):
        return "T[" + " ".join(f"{k}{m}" for k, m in self.labels) + "]"


class Flat:
    """a tensor viewed as vector (ravel) or as matrix (reshape((dim, dim))) over its trailing axes"""

    def __init__(self, rows, cols=None):
        self.rows = tuple(rows)
        self.cols = None if cols is None else tuple(cols)


class Mat:
    """opaque gate matrix / Kraus operator"""

    def __init__(self, nmodes=1, conj=False, transposed=False, flat=False, diag=False):
        self.nmodes = nmodes
        self.conj_ = conj
        self.transposed = transposed
        self.flat = flat
        self.diag = diag

    def conj(self):
        return Mat(self.nmodes, not self.conj_, self.transposed, self.flat, self.diag)

    @property
    def T(self):
        return Mat(self.nmodes, self.conj_, not self.transposed, self.flat, self.diag)


class IntArr:
    """minimal stand-in for a 1-d numpy integer array"""

    def __init__(self, vals):
        self.v = [int(x) for x in vals]

    def __len__(self):
        return len(self.v)

    def __iter__(self):
        return iter(self.v)

    def get(self, idx):
        if isinstance(idx, (list, IntArr)):
            return IntArr([self.v[int(i)] for i in idx])
        if isinstance(idx, slice):
            return IntArr(self.v[idx])
        return self.v[int(idx)]

    def set(self, idx, val):
        if isinstance(idx, (list, IntArr)):
            vals = list(val) if isinstance(val, (list, IntArr)) else [val] * len(list(idx))
            idx = [int(i) for i in idx]
            if len(vals) != len(idx):
                raise NotModelled("fancy store shape")
            for i, x in zip(idx, vals):
                self.v[i] = int(x)
        else:
            self.v[int(idx)] = int(val)

    def arith(self, other, op):
        if isinstance(other, (IntArr, list)):
            o = list(other)
            return IntArr([op(a, b) for a, b in zip(self.v, o)])
        return IntArr([op(a, other) for a in self.v])

    def __eq__(self, o):
        return isinstance(o, (IntArr, list)) and list(self) == list(o)

    def __hash__(self):
        return hash(tuple(self.v))

    def __repr__(self):
        return f"IntArr({self.v})"


class Zeros:
    """np.zeros(shape) that is filled by slice / loop-index stores"""

    def __init__(self, ndim):
        self.ndim = ndim
        self.labels = [None] * ndim

    @property
    def shape(self):
        return tuple(TRUNC for _ in range(self.ndim))


class LoopIndex:
    """index tuple of `for i in product(range(trunc) x k)`: addresses the k leading axes"""

    def __init__(self, k):
        self.k = k
        self.lead = None


class UnknownBool:
    def __init__(self, what):
        self.what = what


class Obj:
    def __init__(self, **attrs):
        self.attrs = dict(attrs)


class Returned(Exception):
    def __init__(self, v):
        self.v = v


class Raised(Exception):
    def __init__(self, what):
        self.what = what


def _tolist(x):
    if isinstance(x, IntArr):
        return list(x.v)
    if isinstance(x, (list, tuple, range)):
        return list(x)
    raise NotModelled(f"not a sequence: {type(x).__name__}")


def canonical(n, pure):
    if pure:
        return tuple(("K", i) for i in range(n))
    return tuple(x for i in range(n) for x in (("K", i), ("B", i)))


class Machine:
    """one abstract execution; `oracle` decides unknown booleans (case split by the driver)"""

    def __init__(self, tree: Tree, oracle: List[bool], kernel_modes=None):
        self.tree = tree
        self.oracle = list(oracle)
        self.decisions = 0
        self.needed = 0
        self.obligations: List[Tuple[str, bool, str]] = []
        self.kernel_modes = kernel_modes
        self.steps = 0

    # ------------------------------------------------------------------ obligations
    def oblige(self, what, ok, detail=""):
        self.obligations.append((what, bool(ok), detail))

    def decide(self, ub: UnknownBool) -> bool:
        i = self.decisions
        self.decisions += 1
        if i < len(self.oracle):
            return self.oracle[i]
        self.needed = max(self.needed, i + 1)
        return False

    # ------------------------------------------------------------------ function calls
    def call(self, f: FuncInfo, args: list, kwargs: dict, selfobj: Optional[Obj] = None):
        fr = Frame(self, f, selfobj)
        params = f.pos_params
        a = f.node.args
        env = {}
        off = 0
        if selfobj is not None and params and params[0] == "self":
            env["self"] = selfobj
            off = 1
        names = params[off:]
        if len(args) > len(names) and not a.vararg:
            raise NotModelled(f"too many arguments for {f.qualname}")
        for nme, v in zip(names, args):
            env[nme] = v
        defaults = a.defaults
        dnames = (a.posonlyargs + a.args)[len(a.posonlyargs + a.args) - len(defaults):] if defaults else []
        for dn, dv in zip(dnames, defaults):
            if dn.arg not in env:
                env[dn.arg] = kwargs.pop(dn.arg) if dn.arg in kwargs else fr.ev_const(dv)
        for ko, kd in zip(a.kwonlyargs, a.kw_defaults):
            env[ko.arg] = kwargs.pop(ko.arg) if ko.arg in kwargs else (fr.ev_const(kd) if kd is not None else None)
        for nme in names:
            if nme not in env:
                if nme in kwargs:
                    env[nme] = kwargs.pop(nme)
                else:
                    raise NotModelled(f"missing argument {nme} of {f.qualname}")
        if a.kwarg:
            env[a.kwarg.arg] = dict(kwargs)
        elif kwargs:
            raise NotModelled(f"unexpected keyword arguments {sorted(kwargs)} for {f.qualname}")
        fr.env = env
        try:
            fr.block(strip_docstring(f.node.body))
        except Returned as r:
            return r.v
        return None


class Frame:
    def __init__(self, m: Machine, f: FuncInfo, selfobj):
        self.m = m
        self.f = f
        self.selfobj = selfobj
        self.env: Dict[str, object] = {}

    # ------------------------------------------------------------------ statements
    def ev_const(self, n):
        try:
            return ast.literal_eval(n)
        except Exception:
            return self.ev(n)

    def block(self, body):
        for st in body:
            self.stmt(st)

    def stmt(self, st):
        self.m.steps += 1
        if self.m.steps > 200000:
            raise NotModelled("step limit")
        if isinstance(st, ast.Expr):
            if isinstance(st.value, ast.Constant):
                return
            self.ev(st.value)
        elif isinstance(st, ast.Assign):
            v = self.ev(st.value)
            for t in st.targets:
                self.assign(t, v)
        elif isinstance(st, ast.AugAssign):
            cur = self.ev(_load(st.target))
            v = self.binop(st.op, cur, self.ev(st.value))
            self.assign(st.target, v)
        elif isinstance(st, ast.If):
            t = self.truth(self.ev(st.test))
            self.block(st.body if t else st.orelse)
        elif isinstance(st, ast.For):
            it = self.ev(st.iter)
            if isinstance(it, LoopIndex):
                self.assign(st.target, it)
                self.block(st.body)  # one symbolic iteration
                return
            for x in self.iterate(it):
                self.assign(st.target, x)
                self.block(st.body)
        elif isinstance(st, ast.Return):
            raise Returned(self.ev(st.value) if st.value is not None else None)
        elif isinstance(st, ast.Raise):
            raise Raised(ast.unparse(st)[:60])
        elif isinstance(st, ast.Pass):
            return
        elif isinstance(st, ast.Assert):
            return
        else:
            raise NotModelled(f"statement {type(st).__name__}")

    def truth(self, v) -> bool:
        if isinstance(v, UnknownBool):
            return self.m.decide(v)
        if isinstance(v, (bool, int, str, list, tuple, dict)) or v is None:
            return bool(v)
        if isinstance(v, IntArr):
            return len(v) > 0
        if isinstance(v, range):
            return len(v) > 0
        raise NotModelled(f"truth value of {type(v).__name__}")

    def iterate(self, it):
        if isinstance(it, (list, tuple, range, str)):
            return list(it)
        if isinstance(it, IntArr):
            return list(it.v)
        if isinstance(it, dict):
            return list(it)
        raise NotModelled(f"iteration over {type(it).__name__}")

    def assign(self, t, v):
        if isinstance(t, ast.Name):
            self.env[t.id] = v
        elif isinstance(t, (ast.Tuple, ast.List)):
            vals = self.iterate(v)
            if len(vals) != len(t.elts):
                raise NotModelled("unpack length")
            for e, x in zip(t.elts, vals):
                self.assign(e, x)
        elif isinstance(t, ast.Attribute):
            o = self.ev(t.value)
            if isinstance(o, Obj):
                o.attrs[t.attr] = v
            else:
                raise NotModelled("attribute store")
        elif isinstance(t, ast.Subscript):
            o = self.ev(t.value)
            idx = self.ev_index(t.slice)
            self.store_item(o, idx, v)
        else:
            raise NotModelled("assignment target")

    def store_item(self, o, idx, v):
        if isinstance(o, IntArr):
            o.set(idx, v)
        elif isinstance(o, list):
            if isinstance(idx, slice):
                o[idx] = list(v)
            else:
                o[int(idx)] = v
        elif isinstance(o, dict):
            o[idx] = v
        elif isinstance(o, Zeros):
            if isinstance(idx, LoopIndex):
                lab = _labels_of(v)
                if idx.lead is None:
                    raise NotModelled("loop index never used to read a view")
                if len(idx.lead) + len(lab) != o.ndim:
                    raise Violation(f"stored block has {len(lab)} axes, {o.ndim - len(idx.lead)} expected")
                o.labels = list(idx.lead) + list(lab)
            elif isinstance(idx, tuple):
                lab = list(_labels_of(v))
                if len(idx) != o.ndim:
                    raise NotModelled("slice tuple length")
                for p, s in enumerate(idx):
                    if isinstance(s, slice):
                        if s != slice(None, None, None):
                            raise NotModelled("partial slice store")
                        if not lab:
                            raise Violation("stored block has too few axes")
                        o.labels[p] = lab.pop(0)
                    else:
                        o.labels[p] = ("R", int(s))
                if lab:
                    raise Violation("stored block has too many axes")
            else:
                raise NotModelled("store into zeros")
        else:
            raise NotModelled(f"item store into {type(o).__name__}")

    # ------------------------------------------------------------------ expressions
    def ev_index(self, s):
        if isinstance(s, ast.Slice):
            return slice(self.ev(s.lower) if s.lower else None, self.ev(s.upper) if s.upper else None,
                         self.ev(s.step) if s.step else None)
        if isinstance(s, ast.Tuple):
            return tuple(self.ev_index(e) for e in s.elts)
        return self.ev(s)

    def ev(self, n):
        self.m.steps += 1
        if isinstance(n, ast.Constant):
            return n.value
        if isinstance(n, ast.Name):
            if n.id in self.env:
                return self.env[n.id]
            return self.global_name(n.id)
        if isinstance(n, ast.Attribute):
            return self.attribute(n)
        if isinstance(n, ast.BinOp):
            return self.binop(n.op, self.ev(n.left), self.ev(n.right))
        if isinstance(n, ast.UnaryOp):
            v = self.ev(n.operand)
            if isinstance(n.op, ast.Not):
                if isinstance(v, UnknownBool):
                    return not self.m.decide(v)
                return not self.truth(v)
            if isinstance(n.op, ast.USub):
                return -v
            if isinstance(n.op, ast.UAdd):
                return v
            if isinstance(n.op, ast.Invert):
                raise NotModelled("invert")
        if isinstance(n, ast.BoolOp):
            if isinstance(n.op, ast.And):
                r = True
                for v in n.values:
                    r = self.ev(v)
                    if not self.truth(r):
                        return r
                return r
            r = False
            for v in n.values:
                r = self.ev(v)
                if self.truth(r):
                    return r
            return r
        if isinstance(n, ast.Compare):
            left = self.ev(n.left)
            for op, c in zip(n.ops, n.comparators):
                right = self.ev(c)
                r = self.compare(op, left, right)
                if isinstance(r, UnknownBool):
                    return r
                if not r:
                    return False
                left = right
            return True
        if isinstance(n, ast.IfExp):
            return self.ev(n.body) if self.truth(self.ev(n.test)) else self.ev(n.orelse)
        if isinstance(n, (ast.List, ast.Tuple)):
            out = []
            for e in n.elts:
                if isinstance(e, ast.Starred):
                    out.extend(self.iterate(self.ev(e.value)))
                else:
                    out.append(self.ev(e))
            return out if isinstance(n, ast.List) else tuple(out)
        if isinstance(n, ast.Dict):
            return {self.ev(k): self.ev(v) for k, v in zip(n.keys, n.values)}
        if isinstance(n, (ast.ListComp, ast.GeneratorExp)):
            return self.comprehension(n)
        if isinstance(n, ast.Subscript):
            return self.subscript(self.ev(n.value), self.ev_index(n.slice))
        if isinstance(n, ast.Call):
            return self.call(n)
        if isinstance(n, ast.JoinedStr):
            return "<fstring>"
        if isinstance(n, ast.Lambda):
            raise NotModelled("lambda")
        raise NotModelled(f"expression {type(n).__name__}")

    def comprehension(self, n):
        out = []

        def rec(gi):
            if gi == len(n.generators):
                out.append(self.ev(n.elt))
                return
            g = n.generators[gi]
            for x in self.iterate(self.ev(g.iter)):
                self.assign(g.target, x)
                if all(self.truth(self.ev(c)) for c in g.ifs):
                    rec(gi + 1)
        saved = dict(self.env)
        rec(0)
        self.env = saved
        return out

    def global_name(self, name):
        m = self.f.module
        if name in ("True", "False", "None"):
            return {"True": True, "False": False, "None": None}[name]
        if name == "indices":
            return "abcdefghijklmnopqrstuvwxyz"
        if name in ("def_type",):
            return "dtype"
        if name in m.functions:
            return ("func", m.functions[name])
        if name in ("np", "ops", "string", "copy"):
            return ("module", name)
        if name in ("range", "len", "list", "tuple", "sum", "isinstance", "sorted", "zip", "enumerate", "dict", "set",
                    "bool", "max", "min", "int", "product", "reversed", "slice", "all", "any", "str", "abs", "chain"):
            return ("builtin", name)
        r = self.m.tree.resolve_dotted(m, name)
        if r and r[0] == "class":
            return ("class", r[1])
        if name in m.globals and len(m.globals[name]) == 1:
            try:
                return ast.literal_eval(m.globals[name][0])
            except Exception:
                pass
        raise NotModelled(f"global name {name}")

    def attribute(self, n):
        if isinstance(n.value, ast.Name) and n.value.id in ("np", "ops", "string") and n.value.id not in self.env:
            if n.value.id == "string" and n.attr == "ascii_lowercase":
                return "abcdefghijklmnopqrstuvwxyz"
            if n.value.id == "ops" and n.attr == "def_type":
                return "dtype"
            if n.value.id == "np" and n.attr in ("complex128", "float64", "newaxis"):
                return "dtype"
            return ("modattr", n.value.id, n.attr)
        o = self.ev(n.value)
        if o == ("builtin", "chain") and n.attr == "from_iterable":
            return ("builtin", "chain.from_iterable")
        if isinstance(o, Obj):
            if n.attr in o.attrs:
                return o.attrs[n.attr]
            # method of the simulated class
            cls = o.attrs.get("__class__")
            if cls is not None:
                f = cls.lookup(n.attr)
                if f is not None:
                    if "property" in f.decorators:
                        return self.m.call(f, [], {}, o)
                    return ("method", f, o)
            raise NotModelled(f"attribute {n.attr}")
        if isinstance(o, (Tensor, Zeros)):
            if n.attr == "shape":
                return o.shape
            if n.attr == "ndim":
                return o.ndim
            if n.attr in ("transpose", "conj", "astype", "reshape", "ravel", "copy", "diagonal"):
                return ("bound", o, n.attr)
            if n.attr == "T" and isinstance(o, Tensor):
                return o.transpose(list(reversed(range(o.ndim))))
            if n.attr in ("real",):
                return o
        if isinstance(o, Mat):
            if n.attr == "T":
                return o.T
            if n.attr in ("conj", "diagonal", "reshape"):
                return ("bound", o, n.attr)
            if n.attr == "shape":
                return tuple([TRUNC] * (2 * o.nmodes)) if not o.flat else (TRUNC ** o.nmodes, TRUNC ** o.nmodes)
        if isinstance(o, Flat):
            if n.attr in ("reshape", "ravel", "conj"):
                return ("bound", o, n.attr)
            if n.attr == "T":
                if o.cols is None:
                    return o
                return Flat(o.cols, o.rows)
        if isinstance(o, (list, dict, str, tuple)):
            return ("bound", o, n.attr)
        if isinstance(o, IntArr):
            if n.attr in ("tolist", "copy"):
                return ("bound", o, n.attr)
        raise NotModelled(f"attribute {n.attr} of {type(o).__name__}")

    def binop(self, op, a, b):
        if isinstance(a, IntArr) or isinstance(b, IntArr):
            import operator
            fn = {ast.Add: operator.add, ast.Sub: operator.sub, ast.Mult: operator.mul, ast.FloorDiv: operator.floordiv,
                  ast.Mod: operator.mod}.get(type(op))
            if fn is None:
                raise NotModelled("array operator")
            if isinstance(a, IntArr):
                return a.arith(b, fn)
            return b.arith(a, lambda x, y: fn(y, x))
        if isinstance(a, (Tensor, Mat, Flat)) or isinstance(b, (Tensor, Mat, Flat)):
            if isinstance(op, (ast.Add, ast.Sub)) and isinstance(a, Tensor) and isinstance(b, Tensor):
                if a.labels != b.labels:
                    raise Violation(f"sum of tensors with different axis layouts {a} + {b}")
                return a
            if isinstance(op, (ast.Mult, ast.Div)) and isinstance(a, Tensor) and not isinstance(b, (Tensor, Mat, Flat)):
                return a
            if isinstance(op, ast.Add) and a == 0 and isinstance(b, Tensor):
                return b
            raise NotModelled("tensor arithmetic")
        try:
            if isinstance(op, ast.Add):
                return a + b
            if isinstance(op, ast.Sub):
                return a - b
            if isinstance(op, ast.Mult):
                return a * b
            if isinstance(op, ast.FloorDiv):
                return a // b
            if isinstance(op, ast.Mod):
                return a % b
            if isinstance(op, ast.Pow):
                return a ** b
            if isinstance(op, ast.Div):
                return a / b
        except TypeError as e:
            raise NotModelled(f"binop on {type(a).__name__}, {type(b).__name__}: {e}")
        raise NotModelled("operator")

    def compare(self, op, a, b):
        if isinstance(a, (Tensor, Mat, Flat, Zeros)) or isinstance(b, (Tensor, Mat, Flat, Zeros)):
            return UnknownBool("tensor comparison")
        if isinstance(a, IntArr):
            a = list(a.v)
        if isinstance(b, IntArr):
            b = list(b.v)
        if isinstance(a, range):
            a = list(a)
        if isinstance(b, range):
            b = list(b)
        if isinstance(op, ast.Eq):
            return a == b
        if isinstance(op, ast.NotEq):
            return a != b
        if isinstance(op, ast.In):
            return a in b
        if isinstance(op, ast.NotIn):
            return a not in b
        if isinstance(op, ast.Is):
            return a is b
        if isinstance(op, ast.IsNot):
            return a is not b
        if isinstance(op, ast.Lt):
            return a < b
        if isinstance(op, ast.LtE):
            return a <= b
        if isinstance(op, ast.Gt):
            return a > b
        if isinstance(op, ast.GtE):
            return a >= b
        raise NotModelled("comparison")

    def subscript(self, o, idx):
        if isinstance(o, IntArr):
            return o.get(idx)
        if isinstance(o, (list, tuple, str)):
            if isinstance(idx, (list, IntArr)):
                return [o[int(i)] for i in idx]
            return o[idx]
        if isinstance(o, range):
            return list(o)[idx]
        if isinstance(o, dict):
            return o[idx]
        if isinstance(o, Tensor):
            if isinstance(idx, LoopIndex):
                idx.lead = o.labels[: idx.k]
                return Tensor(o.labels[idx.k:], o.note)
            if isinstance(idx, tuple):
                if len(idx) != o.ndim:
                    raise NotModelled("index tuple length")
                keep = []
                for p, s in enumerate(idx):
                    if isinstance(s, slice):
                        if s != slice(None, None, None):
                            raise NotModelled("partial slice")
                        keep.append(o.labels[p])
                return Tensor(keep, o.note)
            raise NotModelled("tensor subscript")
        raise NotModelled(f"subscript of {type(o).__name__}")

    # ------------------------------------------------------------------ calls
    def call(self, n: ast.Call):
        fn = self.ev(n.func) if not (isinstance(n.func, ast.Attribute) and isinstance(n.func.value, ast.Constant)) else None
        args = []
        for a in n.args:
            if isinstance(a, ast.Starred):
                args.extend(self.iterate(self.ev(a.value)))
            else:
                args.append(self.ev(a))
        kwargs = {}
        for k in n.keywords:
            if k.arg is None:
                kwargs.update(self.ev(k.value))
            else:
                kwargs[k.arg] = self.ev(k.value)
        if fn is None:
            # "".join(...)
            s = n.func.value.value
            if n.func.attr == "join":
                return s.join(self._flatten_str(args[0]))
            if n.func.attr == "format":
                try:
                    return s.format(*[a if isinstance(a, (int, str)) else "<v>" for a in args])
                except (IndexError, KeyError):
                    return "<msg>"
            raise NotModelled("string method")
        if isinstance(fn, tuple):
            kind = fn[0]
            if kind == "builtin":
                return self.builtin(fn[1], args, kwargs)
            if kind == "func":
                return self.m.call(fn[1], args, kwargs, None)
            if kind == "method":
                return self.method(fn[1], fn[2], args, kwargs)
            if kind == "modattr":
                return self.modcall(fn[1], fn[2], args, kwargs)
            if kind == "bound":
                return self.bound(fn[1], fn[2], args, kwargs)
            if kind == "class":
                # instantiation of a package class: record the constructor arguments, do not run __init__
                return Obj(__class__=fn[1], __args__=list(args), __kwargs__=dict(kwargs))
        raise NotModelled(f"call of {ast.unparse(n.func)[:40]}")

    def _flatten_str(self, x):
        out = []
        for e in self.iterate(x):
            if isinstance(e, str):
                out.append(e)
            else:
                raise NotModelled("join of non-strings")
        return out

    def method(self, f: FuncInfo, o: Obj, args, kwargs):
        k = self.m.kernel_hook(self, f, o, args, kwargs) if hasattr(self.m, "kernel_hook") else NotImplemented
        if k is not NotImplemented:
            return k
        return self.m.call(f, args, kwargs, o if not f.is_static else None)

    def builtin(self, name, args, kwargs):
        if name == "range":
            return range(*[int(a) for a in args])
        if name == "len":
            a = args[0]
            if isinstance(a, (Tensor, Zeros)):
                return TRUNC
            return len(a)
        if name == "list":
            return list(self.iterate(args[0])) if args else []
        if name == "tuple":
            return tuple(self.iterate(args[0])) if args else ()
        if name == "sum":
            vals = self.iterate(args[0])
            if vals and isinstance(vals[0], Tensor):
                for v in vals[1:]:
                    if v.labels != vals[0].labels:
                        raise Violation(f"sum over tensors with different axis layouts: {vals[0]} vs {v}")
                return vals[0]
            return sum(vals)
        if name == "isinstance":
            v, t = args
            tn = t[1] if isinstance(t, tuple) and t and t[0] == "builtin" else t
            if tn == "int":
                return isinstance(v, int) and not isinstance(v, bool)
            if tn in ("list",):
                return isinstance(v, list)
            raise NotModelled("isinstance type")
        if name == "sorted":
            return sorted(self.iterate(args[0]))
        if name == "zip":
            return list(zip(*[self.iterate(a) for a in args]))
        if name == "enumerate":
            return list(enumerate(self.iterate(args[0])))
        if name == "dict":
            return dict(args[0]) if args else dict(kwargs)
        if name == "set":
            return set(self.iterate(args[0])) if args else set()
        if name == "bool":
            return self.truth(args[0])
        if name in ("max", "min"):
            vals = self.iterate(args[0]) if len(args) == 1 else args
            return max(vals) if name == "max" else min(vals)
        if name == "int":
            return int(args[0])
        if name == "abs":
            return abs(args[0])
        if name == "reversed":
            return list(reversed(self.iterate(args[0])))
        if name == "slice":
            return slice(*args)
        if name == "product":
            seqs = [self.iterate(a) for a in args]
            rep = kwargs.get("repeat", 1)
            if all(isinstance(s, list) and s == list(range(TRUNC)) for s in seqs) and rep == 1:
                return LoopIndex(len(seqs))
            return list(itertools.product(*seqs, repeat=rep))
        if name in ("all", "any"):
            vals = [self.truth(v) for v in self.iterate(args[0])]
            return all(vals) if name == "all" else any(vals)
        if name == "str":
            return str(args[0])
        if name == "chain.from_iterable":
            out = []
            for x in self.iterate(args[0]):
                out.extend(self.iterate(x))
            return out
        if name == "chain":
            out = []
            for x in args:
                out.extend(self.iterate(x))
            return out
        raise NotModelled(f"builtin {name}")

    def bound(self, o, attr, args, kwargs):
        if isinstance(o, Tensor):
            if attr == "transpose":
                perm = args[0] if len(args) == 1 else args
                return o.transpose(perm)
            if attr == "conj":
                return o.conj()
            if attr in ("astype", "copy"):
                return o
            if attr == "ravel":
                return Flat(o.labels)
            if attr == "reshape":
                shp = args[0] if len(args) == 1 and isinstance(args[0], (list, tuple)) else args
                shp = tuple(int(x) for x in shp)
                if shp == o.shape:
                    return o
                if len(shp) == 2 and o.ndim % 2 == 0 and shp[0] == shp[1] == TRUNC ** (o.ndim // 2):
                    h = o.ndim // 2
                    return Flat(o.labels[:h], o.labels[h:])
                if len(shp) == 1 and shp[0] == TRUNC ** o.ndim:
                    return Flat(o.labels)
                raise NotModelled(f"reshape {o.shape} -> {shp}")
        if isinstance(o, Flat):
            if attr == "reshape":
                shp = args[0] if len(args) == 1 and isinstance(args[0], (list, tuple)) else args
                lab = o.rows + (o.cols or ())
                if len(shp) == len(lab):
                    return Tensor(lab)
                raise NotModelled("flat reshape")
            if attr == "ravel":
                return o
        if isinstance(o, Mat):
            if attr == "conj":
                return o.conj()
            if attr == "diagonal":
                return Mat(o.nmodes, o.conj_, o.transposed, True, True)
            if attr == "reshape":
                return Mat(o.nmodes, o.conj_, o.transposed, True, o.diag)
        if isinstance(o, list):
            if attr == "append":
                o.append(args[0])
                return None
            if attr == "insert":
                o.insert(int(args[0]), args[1])
                return None
            if attr == "copy":
                return list(o)
            if attr == "index":
                return o.index(args[0])
        if isinstance(o, dict):
            if attr == "get":
                return o.get(args[0], args[1] if len(args) > 1 else None)
            if attr == "items":
                return list(o.items())
            if attr == "keys":
                return list(o.keys())
            if attr == "values":
                return list(o.values())
        if isinstance(o, str):
            if attr == "join":
                return o.join(self._flatten_str(args[0]))
            if attr == "format":
                if all(isinstance(a, (str, int)) for a in args) and all(isinstance(v, (str, int)) for v in kwargs.values()):
                    try:
                        return o.format(*args, **kwargs)
                    except (IndexError, KeyError, ValueError):
                        return "<msg>"
                return "<msg>"
            if attr in ("upper", "lower", "strip", "swapcase") and not args:
                return getattr(o, attr)()
            if attr == "replace" and len(args) == 2 and all(isinstance(a, str) for a in args):
                return o.replace(*args)
        if isinstance(o, IntArr):
            if attr == "tolist":
                return list(o.v)
            if attr == "copy":
                return IntArr(o.v)
        raise NotModelled(f"method {attr} of {type(o).__name__}")

    def modcall(self, mod, name, args, kwargs):
        if mod == "ops":
            m = self.m.tree.module("backends/fockbackend/ops.py")
            f = m.functions.get(name)
            if f is None:
                raise NotModelled(f"ops.{name}")
            if any("lru_cache" in d for d in f.decorators):
                raise NotModelled(f"numeric builder ops.{name}")
            return self.m.call(f, args, kwargs, None)
        if mod != "np":
            raise NotModelled(f"{mod}.{name}")
        if name == "arange":
            return IntArr(range(*[int(a) for a in args]))
        if name == "array":
            a = args[0]
            if isinstance(a, (list, tuple, IntArr)) and all(isinstance(x, int) for x in a):
                return IntArr(a)
            if isinstance(a, list):
                return a
            raise NotModelled("np.array")
        if name == "argsort":
            v = _tolist(args[0])
            return IntArr(sorted(range(len(v)), key=lambda i: v[i]))
        if name == "transpose":
            t = args[0]
            perm = args[1] if len(args) > 1 else kwargs.get("axes")
            if isinstance(t, Tensor):
                return t.transpose(perm if perm is not None else list(reversed(range(t.ndim))))
            if isinstance(t, Zeros):
                if any(l is None for l in t.labels):
                    raise Violation("transposing a result tensor that was not completely filled")
                return Tensor(t.labels).transpose(perm)
            if isinstance(t, Mat):
                return Mat(t.nmodes, t.conj_, t.transposed, t.flat, t.diag)  # [0,2,..,1,3,..] regrouping of a gate tensor
            raise NotModelled("np.transpose")
        if name == "tensordot":
            a, b = args[0], args[1]
            ax = kwargs.get("axes", args[2] if len(args) > 2 else None)
            if ax == 0 and isinstance(a, Tensor) and isinstance(b, Tensor):
                return Tensor(a.labels + b.labels)
            if isinstance(a, Tensor) and isinstance(b, Tensor) and isinstance(ax, (tuple, list)) and len(ax) == 2:
                la = [int(x) for x in (_tolist(ax[0]) if not isinstance(ax[0], int) else [ax[0]])]
                lb = [int(x) for x in (_tolist(ax[1]) if not isinstance(ax[1], int) else [ax[1]])]
                if len(la) != len(lb):
                    raise Violation("tensordot axes lists of different length")
                for x, y in zip(la, lb):
                    (k1, m1), (k2, m2) = a.labels[x], b.labels[y]
                    ok = m1 == m2 and {k1, k2} in ({"K", "B"}, {"PK", "PB"})
                    self.m.oblige(f"tensordot contracts {a.labels[x]} with {b.labels[y]}", ok,
                                  "" if ok else "a contraction must pair the ket and the bra axis of one mode")
                return Tensor([l for i, l in enumerate(a.labels) if i not in la] +
                              [l for i, l in enumerate(b.labels) if i not in lb])
            raise NotModelled("tensordot")
        if name == "rollaxis":
            t, axis, start = args[0], int(args[1]), int(args[2]) if len(args) > 2 else 0
            if not isinstance(t, Tensor):
                raise NotModelled("rollaxis")
            lab = list(t.labels)
            x = lab.pop(axis)
            if start > axis:
                start -= 1
            lab.insert(start, x)
            return Tensor(lab)
        if name == "einsum":
            return einsum(self.m, args[0], args[1:])
        if name == "trace":
            t = args[0]
            a1 = int(kwargs.get("axis1", args[2] if len(args) > 2 else 0))
            a2 = int(kwargs.get("axis2", args[3] if len(args) > 3 else 1))
            if not isinstance(t, Tensor):
                raise NotModelled("np.trace operand")
            if not (0 <= a1 < t.ndim and 0 <= a2 < t.ndim and a1 != a2):
                raise Violation(f"np.trace axes ({a1}, {a2}) out of range for {t}")
            (k1, m1), (k2, m2) = t.labels[a1], t.labels[a2]
            ok = m1 == m2 and {k1, k2} in ({"K", "B"}, {"PK", "PB"})
            self.m.oblige(f"np.trace over axes {t.labels[a1]} and {t.labels[a2]}", ok,
                          "" if ok else "a partial trace must pair the ket and the bra axis of one mode")
            return Tensor([l for i, l in enumerate(t.labels) if i not in (a1, a2)])
        if name == "zeros":
            shp = args[0]
            return Zeros(len(_tolist(shp)) if not isinstance(shp, int) else 1)
        if name in ("dot", "multiply"):
            return self.m.contract(name, args[0], args[1])
        if name == "all":
            v = args[0]
            if isinstance(v, UnknownBool):
                return v
            return UnknownBool("np.all")
        if name in ("diag", "diagonal"):
            v = args[0]
            if isinstance(v, Mat):
                return Mat(v.nmodes, v.conj_, v.transposed, True, True)
            raise NotModelled("np.diag")
        if name == "outer":
            raise NotModelled("np.outer")
        raise NotModelled(f"np.{name}")


def _labels_of(v):
    if isinstance(v, Tensor):
        return v.labels
    if isinstance(v, Flat):
        return v.rows + (v.cols or ())
    raise NotModelled(f"labels of {type(v).__name__}")


def _load(t):
    import copy as _c
    x = _c.copy(t)
    x.ctx = ast.Load()
    return x


def einsum(m: Machine, subs: str, operands) -> Tensor:
    """interpret np.einsum on axis labels; a repeated letter inside one operand must pair ('K', i) with ('B', i)"""
    if not isinstance(subs, str):
        raise NotModelled("einsum subscripts not folded")
    if "->" in subs:
        ins, out = subs.split("->")
    else:
        ins, out = subs, None
    in_specs = ins.split(",")
    if len(in_specs) != len(operands):
        raise Violation(f"einsum '{subs}' has {len(in_specs)} operand specs for {len(operands)} operands")
    letter_axes: Dict[str, List[Tuple[int, int]]] = {}
    for oi, (spec, op) in enumerate(zip(in_specs, operands)):
        if not isinstance(op, Tensor):
            raise NotModelled("einsum operand")
        if len(spec) != op.ndim:
            raise Violation(f"einsum '{subs}': operand {oi} has {op.ndim} axes, spec '{spec}' names {len(spec)}")
        for ai, ch in enumerate(spec):
            letter_axes.setdefault(ch, []).append((oi, ai))
    if out is None:
        out = "".join(sorted(ch for ch, ax in letter_axes.items() if len(ax) == 1))
    labels = []
    for ch, axes in letter_axes.items():
        labs = [operands[oi].labels[ai] for oi, ai in axes]
        if len(axes) == 1:
            if ch not in out:
                raise Violation(f"einsum '{subs}': axis {labs[0]} is summed on its own")
            continue
        if len(axes) == 2:
            (k1, m1), (k2, m2) = labs
            ok = m1 == m2 and {k1, k2} in ({"K", "B"}, {"PK", "PB"})
            m.oblige(f"einsum '{subs}' pairs axes {labs[0]} and {labs[1]}", ok,
                     "" if ok else "a trace / diagonal must pair the ket and the bra axis of one mode")
            continue
        raise Violation(f"einsum '{subs}': letter '{ch}' occurs {len(axes)} times")
    for ch in out:
        if ch not in letter_axes:
            raise Violation(f"einsum '{subs}': output letter '{ch}' not among the inputs")
        oi, ai = letter_axes[ch][0]
        k, mm = operands[oi].labels[ai]
        labels.append(("D", mm) if len(letter_axes[ch]) == 2 else (k, mm))
    if len(set(out)) != len(out):
        raise Violation(f"einsum '{subs}': repeated output letter")
    return Tensor(labels)
