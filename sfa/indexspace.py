"""E7 - index-space kinds: an integer obtained by searching / sampling positions of a sequence is an index
into the arrays *aligned with that sequence*; using it on an array aligned with another sequence is a
kind error (the uniform branch of the same function is usually right - sibling contradiction).

kinds:  ('idx', base)     scalar index into arrays aligned with `base`
        ('idxseq', base)  sequence of such indices
base of an array X = the sequence it was mapped from (np.array([f(n) for n in S]) -> S), else X itself.
"""
from __future__ import annotations

import ast
from typing import Dict, List, Optional, Set, Tuple

from .dataflow import rd_of
from .loader import FuncInfo, dotted, walk_no_nested

SEARCH = {"np.where", "np.argwhere", "np.nonzero", "np.flatnonzero"}


class IndexKinds:
    def __init__(self, f: FuncInfo):
        self.f = f
        self.rd = rd_of(f.node)

    # ---- alignment ---------------------------------------------------------------------------
    def base_of_name(self, name: str, at: int, depth=0) -> Optional[str]:
        """base sequence the array/sequence `name` is aligned with"""
        if depth > 6:
            return name
        ds = [d for d in self.rd.reaching(name, at) if not d.weak]
        bases = set()
        for d in ds:
            v = d.value
            if d.kind != "assign" or v is None or d.index is not None:
                bases.add(name)
                continue
            bases.add(self._base_of_expr(v, d.node, name, depth + 1))
        return bases.pop() if len(bases) == 1 else name

    def _base_of_expr(self, v, at, self_name, depth) -> str:
        if isinstance(v, ast.Call):
            cn = dotted(v.func) or ""
            if cn in ("np.array", "np.asarray", "list", "tuple") and v.args:
                return self._base_of_expr(v.args[0], at, self_name, depth)
        if isinstance(v, ast.ListComp) and len(v.generators) == 1 and isinstance(v.generators[0].iter, ast.Name) \
                and not v.generators[0].ifs:
            return v.generators[0].iter.id  # mapped from this sequence: aligned with its positions
        return self_name

    def _array_root(self, e) -> Optional[str]:
        """name of the array a condition / expression is computed from (degrees[:, 1] == ... -> degrees)"""
        for x in ast.walk(e):
            if isinstance(x, ast.Name):
                return x.id
        return None

    # ---- kinds ---------------------------------------------------------------------------------
    def kind_of_expr(self, e, at, depth=0):
        if depth > 8:
            return None
        if isinstance(e, ast.Call):
            cn = dotted(e.func) or ""
            if cn in SEARCH and e.args:
                root = self._array_root(e.args[0])
                if root:
                    return ("idxseq", self.base_of_name(root, at))
                return None
            if isinstance(e.func, ast.Attribute) and e.func.attr in ("flatten", "ravel", "tolist"):
                return self.kind_of_expr(e.func.value, at, depth + 1)
            if cn == "np.random.choice" and e.args:
                a = e.args[0]
                k = self.kind_of_expr(a, at, depth + 1)
                if k and k[0] == "idxseq":
                    return ("idx", k[1])
                if isinstance(a, ast.Call) and dotted(a.func) == "len" and a.args and isinstance(a.args[0], ast.Name):
                    return ("idx", self.base_of_name(a.args[0].id, at))
                return None
            if cn in ("int", "np.int64") and e.args:
                return self.kind_of_expr(e.args[0], at, depth + 1)
            return None
        if isinstance(e, ast.Subscript):
            # np.where(c)[0]  /  I[j]
            k = self.kind_of_expr(e.value, at, depth + 1)
            if k and k[0] == "idxseq":
                if isinstance(e.value, ast.Call) and (dotted(e.value.func) or "") in SEARCH:
                    return k  # tuple of index arrays -> first index array
                return ("idx", k[1])
            return None
        if isinstance(e, ast.Name):
            ds = [d for d in self.rd.reaching(e.id, at) if not d.weak]
            ks = set()
            for d in ds:
                if d.kind == "assign" and d.value is not None and d.index is None:
                    ks.add(self.kind_of_expr(d.value, d.node, depth + 1))
                else:
                    ks.add(None)
            return ks.pop() if len(ks) == 1 else None
        return None

    def kinds_of_name_per_def(self, name, at):
        out = []
        for d in [d for d in self.rd.reaching(name, at) if not d.weak]:
            if d.kind == "assign" and d.value is not None and d.index is None:
                out.append((d, self.kind_of_expr(d.value, d.node)))
        return out

    # ---- violations ------------------------------------------------------------------------------
    def check(self):
        """yield (subscript node, array name, array base, index def, index kind) for every D[k] with k of a
        known kind; ok iff base(D) == kind base"""
        cfg = self.rd.cfg
        for nd in cfg.nodes:
            if nd.ast is None:
                continue
            for s in walk_no_nested(nd.ast):
                if not (isinstance(s, ast.Subscript) and isinstance(s.value, ast.Name) and isinstance(s.ctx, ast.Load)):
                    continue
                ix = s.slice
                if not isinstance(ix, ast.Name):
                    continue
                arr = s.value.id
                base = self.base_of_name(arr, nd.id)
                for d, k in self.kinds_of_name_per_def(ix.id, nd.id):
                    if k is None or k[0] != "idx":
                        continue
                    yield s, arr, base, d, k
