"""E9 - cross-module table extraction: compiler primitive / decomposition tables, operation classes,
decomposition products."""
from __future__ import annotations

import ast
from typing import Dict, List, Optional, Set

from .loader import ClassInfo, FuncInfo, Tree, dotted, walk_no_nested


def _const_set(tree: Tree, module, node, depth=0) -> Optional[Set[str]]:
    """evaluate a class attribute that is a set / dict display (keys), a union of such, or a reference to
    another class's table"""
    if depth > 6 or node is None:
        return None
    if isinstance(node, ast.Set):
        out = set()
        for e in node.elts:
            if isinstance(e, ast.Constant) and isinstance(e.value, str):
                out.add(e.value)
            else:
                return None
        return out
    if isinstance(node, ast.Dict):
        out = set()
        for k in node.keys:
            if isinstance(k, ast.Constant) and isinstance(k.value, str):
                out.add(k.value)
            elif k is None:
                return None
            else:
                return None
        return out
    if isinstance(node, ast.Call) and dotted(node.func) in ("set", "dict") and not node.args and not node.keywords:
        return set()
    if isinstance(node, ast.BinOp) and isinstance(node.op, (ast.BitOr, ast.Add)):
        a = _const_set(tree, module, node.left, depth + 1)
        b = _const_set(tree, module, node.right, depth + 1)
        return None if a is None or b is None else a | b
    if isinstance(node, ast.BinOp) and isinstance(node.op, ast.Sub):
        a = _const_set(tree, module, node.left, depth + 1)
        b = _const_set(tree, module, node.right, depth + 1)
        return None if a is None or b is None else a - b
    if isinstance(node, ast.Attribute):
        k = dotted(node)
        if k:
            cn, _, attr = k.rpartition(".")
            r = tree.resolve_dotted(module, cn)
            if r and r[0] == "class":
                return _const_set(tree, r[1].module, r[1].class_attr(attr), depth + 1)
    return None


class CompilerTable:
    def __init__(self, tree: Tree):
        self.tree = tree
        base = tree.cls("compilers/compiler.py", "Compiler")
        self.compilers: Dict[str, ClassInfo] = {}
        self.primitives: Dict[str, Set[str]] = {}
        self.decomps: Dict[str, Set[str]] = {}
        self.decomp_opts: Dict[str, Dict[str, ast.AST]] = {}
        self.unresolved: List[str] = []
        for c in tree.subclasses(base):
            p = _const_set(tree, c.module, c.class_attr("primitives"))
            d = _const_set(tree, c.module, c.class_attr("decompositions"))
            if p is None or d is None:
                self.unresolved.append(c.name)
                continue
            self.compilers[c.name] = c
            self.primitives[c.name] = p
            self.decomps[c.name] = d
            dn = c.class_attr("decompositions")
            self.decomp_opts[c.name] = {}
            if isinstance(dn, ast.Dict):
                for k, v in zip(dn.keys, dn.values):
                    if isinstance(k, ast.Constant):
                        self.decomp_opts[c.name][k.value] = v

    def primitive_somewhere(self, opname: str) -> List[str]:
        return sorted(c for c, p in self.primitives.items() if opname in p)


def op_classes(tree: Tree) -> Dict[str, ClassInfo]:
    base = tree.cls("ops.py", "Operation")
    return {c.name: c for c in tree.subclasses(base, strict=False) if c.module.rel == "ops.py"}


GLOBAL_OPS = {"Vac": "Vacuum", "Del": "_Delete", "MeasureX": "MeasureHomodyne", "MeasureP": "MeasureHomodyne",
              "MeasureHD": "MeasureHeterodyne", "Fourier": "Fouriergate"}


def command_ops(tree: Tree, f: FuncInfo, ops: Dict[str, ClassInfo], depth=2):
    """[(Command call node, first-argument expr, class name or None, via)] for Command(...) constructions in f
    and in the module-level helper builders it calls"""
    out = []
    seen = set()

    def visit(fn: FuncInfo, d):
        if fn in seen:
            return
        seen.add(fn)
        for n in walk_no_nested(fn.node):
            if isinstance(n, ast.Call) and dotted(n.func) == "Command" and n.args:
                out.append((n, n.args[0], fn))
            elif isinstance(n, ast.Call) and isinstance(n.func, ast.Name) and d > 0:
                g = fn.module.functions.get(n.func.id)
                if g is not None and g.cls is None:
                    visit(g, d - 1)
    visit(f, depth)
    return out


def class_of_expr(f: FuncInfo, e, ops: Dict[str, ClassInfo]):
    """class name of an operation expression: X(...), X(...).H, name bound to X(...), name.H, global singleton"""
    from .dataflow import rd_of
    if isinstance(e, ast.Attribute) and e.attr == "H":
        return class_of_expr(f, e.value, ops)
    if isinstance(e, ast.Call):
        cn = dotted(e.func)
        if cn and cn.split(".")[-1] in ops:
            return cn.split(".")[-1]
        return None
    if isinstance(e, ast.Name):
        if e.id in GLOBAL_OPS:
            rd = rd_of(f.node)
            ids = rd.cfg.node_of_expr(e)
            if not ids or not rd.reaching(e.id, ids[0]):
                return GLOBAL_OPS[e.id]
        rd = rd_of(f.node)
        ids = rd.cfg.node_of_expr(e)
        if ids:
            cs = set()
            for d in rd.reaching(e.id, ids[0]):
                if d.kind == "assign" and d.value is not None:
                    cs.add(class_of_expr(f, d.value, ops))
                else:
                    cs.add(None)
            if len(cs) == 1:
                return cs.pop()
    return None
