"""Obligation bookkeeping, known-findings matching, evidence files and exit codes."""
from __future__ import annotations

import json
import os
import sys
import time
import traceback
from typing import Dict, List, Optional

from .loader import AnalysisError

VERIF = os.path.dirname(os.path.dirname(os.path.abspath(__file__)))


class Obligation:
    __slots__ = ("rule", "site", "ok", "msg", "key", "line", "detail")

    def __init__(self, rule, site, ok, msg, key, line, detail):
        self.rule, self.site, self.ok, self.msg, self.key, self.line, self.detail = rule, site, ok, msg, key, line, detail

    def as_dict(self):
        d = {"rule": self.rule, "site": self.site, "ok": self.ok}
        if self.msg:
            d["msg"] = self.msg
        if self.line:
            d["line"] = self.line
        if self.detail is not None:
            d["detail"] = self.detail
        if not self.ok:
            d["key"] = self.key
        return d


class Ctx:
    """One run of the rule set of one property."""

    def __init__(self, prop: str, tier: str, tree):
        self.prop = prop
        self.tier = tier
        self.tree = tree
        self.obls: List[Obligation] = []
        self.not_analysed: List[dict] = []
        self.info: List[str] = []
        self.floors: Dict[str, int] = {}
        self.trusted: List[str] = []
        self.assumptions: List[str] = []
        self.explanations: List[str] = []

    # -- recording -----------------------------------------------------------
    def ob(self, rule: str, site: str, ok: bool, msg: str = "", role: Optional[str] = None,
           line: int = 0, detail=None):
        """record one obligation. key = rule::site::role identifies the construct (never a line number)."""
        key = f"{rule}::{site}" + (f"::{role}" if role else "")
        self.obls.append(Obligation(rule, site, bool(ok), msg, key, line, detail))
        return bool(ok)

    def na(self, rule: str, site: str, why: str):
        self.not_analysed.append({"rule": rule, "site": site, "why": why})

    def note(self, text: str):
        self.info.append(text)

    def require(self, cond, what: str):
        if not cond:
            raise AnalysisError(f"anchor vanished / precondition of the analysis failed: {what}")
        return cond

    def floor(self, rule: str, n: int):
        """the rule must have produced at least n obligations (confirmed by hand on the pinned tree)"""
        self.floors[rule] = n

    def shared(self, fn, *args, **kw):
        """run a rule function of ANOTHER property as part of this one: its obligations, floors and explanations are re-labelled
        `<this property>.<rule name>` (a change that breaks this property through a clause another property also relies on must
        be reported by this property's own check)"""
        n0 = len(self.obls)
        f0 = set(self.floors)
        fn(self, *args, **kw)
        for o in self.obls[n0:]:
            pre, _, rest = o.rule.partition(".")
            if pre != self.prop and len(pre) == 3 and pre[0] == "C":
                new = f"{self.prop}.{rest}"
                o.key = o.key.replace(o.rule + "::", new + "::", 1)
                o.rule = new
        for r in list(self.floors):
            if r not in f0:
                pre, _, rest = r.partition(".")
                if pre != self.prop and len(pre) == 3 and pre[0] == "C":
                    self.floors[f"{self.prop}.{rest}"] = self.floors.pop(r)
        for x in self.not_analysed:
            pre, _, rest = x.get("rule", "").partition(".")
            if pre != self.prop and len(pre) == 3 and pre[:1] == "C":
                x["rule"] = f"{self.prop}.{rest}"

    def trust(self, *what: str):
        for w in what:
            if w not in self.trusted:
                self.trusted.append(w)

    def explain(self, text: str):
        self.explanations.append(text)

    def count(self, rule: str) -> int:
        return sum(1 for o in self.obls if o.rule == rule)

    def check_floors(self):
        """floor failures; a proved violation takes precedence over them (see run_property)"""
        out = []
        for rule, n in self.floors.items():
            c = self.count(rule)
            if c < n:
                out.append(f"rule {rule} matched {c} instance(s), below the floor of {n} confirmed on the pinned tree "
                           f"- the rule no longer sees the code it was written for")
        return out


def load_known() -> List[dict]:
    p = os.path.join(VERIF, "known_findings.json")
    if not os.path.exists(p):
        return []
    with open(p) as f:
        return json.load(f)


def finish(ctx: Ctx, t0: float, seed: int, evidence_path: str) -> int:
    known = [k for k in load_known() if k.get("property") == ctx.prop and k.get("status") == "known"]
    known_keys = {k["key"]: k for k in known}
    viol = [o for o in ctx.obls if not o.ok]
    unlisted = [o for o in viol if o.key not in known_keys]
    listed = [o for o in viol if o.key in known_keys]
    seen_known = set()
    for o in listed:
        if o.key in seen_known:
            continue
        seen_known.add(o.key)
        print(f"KNOWN-FINDING: property={ctx.prop} {o.key} {known_keys[o.key].get('what', o.msg)}")
    stale = [k for k in known_keys if k not in seen_known]
    for k in stale:
        # a listed finding that no longer fires is only information (the defect may have been repaired)
        print(f"INFO: known finding no longer reported: {k}")
    rules = sorted({o.rule for o in ctx.obls})
    distinct = len({(o.rule, o.site) for o in ctx.obls})
    samples = []
    per_rule_seen = {}
    for o in ctx.obls:
        c = per_rule_seen.get(o.rule, 0)
        if c < 3:
            samples.append(o.as_dict())
            per_rule_seen[o.rule] = c + 1
    for o in viol[:40]:
        d = o.as_dict()
        if d not in samples:
            samples.append(d)
    ev = {
        "property_id": ctx.prop,
        "tier": ctx.tier,
        "seed": seed,
        "level": "other",
        "coverage": {
            "explanation": " ".join(ctx.explanations) or "structural rules over the parsed working tree",
            "obligations": len(ctx.obls),
            "discharged": len(ctx.obls) - len(viol),
            "known_findings_reported": len(seen_known),
            "not_analysed": ctx.not_analysed[:60],
            "not_analysed_count": len(ctx.not_analysed),
            "evaluations": len(ctx.obls),
            "distinct_nontrivial": distinct,
            "rule": "one obligation per (rule, construct) enumerated over the whole package; distinct = distinct (rule, site) pairs",
            "rules": {r: ctx.count(r) for r in rules},
            "floors": ctx.floors,
            "samples": samples,
            "trusted_base": ctx.trusted,
            "exhaustive": True,
            "files_parsed": len(ctx.tree.modules),
            "tree_digest": ctx.tree.digest(),
            "info": ctx.info[:80],
            "selftest": getattr(ctx, "selftest", None),
        },
        "assumptions": ctx.assumptions + ["CPython ast; class/alias resolution of sfa; no run-time rebinding of methods"],
        "wall_s": round(time.time() - t0, 3),
        "violations": len(unlisted),
    }
    os.makedirs(os.path.dirname(evidence_path), exist_ok=True)
    with open(evidence_path, "w") as f:
        json.dump(ev, f, indent=1, default=str)
    print(f"{ctx.prop}: {len(ctx.obls)} obligations over {len(rules)} rules, {len(viol)} failing "
          f"({len(listed)} known, {len(unlisted)} unlisted), {len(ctx.not_analysed)} not analysed, "
          f"{ev['wall_s']}s [{ctx.tier}]")
    if unlisted:
        vpath = evidence_path[:-5] + ".violations.json"
        with open(vpath, "w") as f:
            json.dump([o.as_dict() for o in unlisted], f, indent=1, default=str)
        for o in unlisted:
            print(f"  {o.site}:{o.line} [{o.rule}] {o.msg}  key={o.key}")
        print(f"VIOLATION property={ctx.prop} replay={vpath}")
        return 1
    stale = evidence_path[:-5] + ".violations.json"
    if os.path.exists(stale):
        os.remove(stale)
    return 0


def run_property(prop: str, tier: str, rule_fn, evidence_path: str, selftest_fn=None) -> int:
    from .loader import Tree

    t0 = time.time()
    seed = int(os.environ.get("VERIF_SEED", "0") or 0)
    try:
        tree = Tree()
        ctx = Ctx(prop, tier, tree)
        rule_fn(ctx)
        floors = ctx.check_floors()
        st_err = None
        if tier == "thorough" and selftest_fn is not None and not floors:
            try:
                selftest_fn(ctx)
            except AnalysisError as e:  # a violation found on this tree takes precedence over the checker's self-test
                st_err = e
        rc = finish(ctx, t0, seed, evidence_path)
        if rc == 0 and st_err is not None:
            raise st_err
        if st_err is not None:
            print(f"INFO: {st_err}")
        if rc == 0 and floors:
            raise AnalysisError("; ".join(floors))
        for fl in floors:
            print("INFO: " + fl)
        return rc
    except AnalysisError as e:
        print(f"ANALYSIS-ERROR property={prop}: {e}")
        _error_evidence(prop, tier, seed, t0, evidence_path, str(e))
        return 2
    except Exception as e:  # a crash of the analyser is never a violation
        traceback.print_exc()
        print(f"ANALYSIS-ERROR property={prop}: internal error {type(e).__name__}: {e}")
        _error_evidence(prop, tier, seed, t0, evidence_path, f"{type(e).__name__}: {e}")
        return 2


def _error_evidence(prop, tier, seed, t0, path, msg):
    ev = {"property_id": prop, "tier": tier, "seed": seed, "level": "other",
          "coverage": {"explanation": "ANALYSIS-ERROR: " + msg, "obligations": 0, "discharged": 0,
                       "evaluations": 1, "distinct_nontrivial": 0},
          "wall_s": round(time.time() - t0, 3), "violations": 0}
    try:
        os.makedirs(os.path.dirname(path), exist_ok=True)
        with open(path, "w") as f:
            json.dump(ev, f, indent=1)
    except OSError:
        pass
