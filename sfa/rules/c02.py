"""C02 - decompositions implement the documented transformation (structural clauses)."""
from __future__ import annotations

import ast

from ..cfg import cfg_of, T as TRUE, F as FALSE
from ..dataflow import derives, rd_of, resolve_local, return_values, expand_locals
from ..loader import dotted, walk_no_nested
from ..tables import CompilerTable, GLOBAL_OPS, class_of_expr, command_ops, op_classes
from . import common_hbar as Hb
from .common_guard import path_facts, raise_facts, facts

# backend methods for which "p0 == 0 is the identity and -p0 is the inverse" holds, with the documented formula
FIRST_PARAM_SOUND = {
    "displacement": "D(r, phi) = exp(r (e^{i phi} a^dag - e^{-i phi} a)): r -> 0 identity, r -> -r inverse",
    "squeeze": "S(r, phi) = exp(r/2 (e^{-i phi} a^2 - e^{i phi} a^dag^2))",
    "rotation": "R(theta) = exp(i theta n)",
    "beamsplitter": "BS(theta, phi) = exp(theta (e^{i phi} a b^dag - e^{-i phi} a^dag b))",
    "two_mode_squeeze": "S2(r, phi) = exp(r (e^{-i phi} a b - e^{i phi} a^dag b^dag))",
    "kerr_interaction": "K(kappa) = exp(i kappa n^2)",
    "cross_kerr_interaction": "CK(kappa) = exp(i kappa n1 n2)",
    "cubic_phase": "V(gamma) = exp(i gamma x^3 / (3 hbar))",
}
FIRST_PARAM_UNSOUND = {
    "mzgate": "MZ(phi_in, phi_ex) = BS (R(phi_in) x I) BS (R(phi_ex) x I): MZ(0, phi_ex) != 1, MZ(-a, b) != MZ(a, b)^dag",
    "gaussian_gate": "G(S, d): the first parameter is a symplectic matrix, -S is not its inverse",
}


def dagger_products(ctx, rule="C02.dagger-products"):
    ctx.explain(f"{rule}: every operation a Gate._decompose places in a returned Command is created in that call "
                "(constructor or .H copy), is placed in one Command only, and is an instance of a Gate subclass; "
                "Gate.decompose flips every product and reverses the list on the dagger path.")
    ops = op_classes(ctx.tree)
    gate = ops["Gate"]
    n_cls = 0
    for name, c in sorted(ops.items()):
        if gate not in c.mro() or "_decompose" not in c.methods:
            continue
        f = c.methods["_decompose"]
        cmds = command_ops(ctx.tree, f, ops, depth=0)
        if not cmds:
            continue
        n_cls += 1
        bare_names = {}
        for call, e, fn in cmds:
            role = f"product:{ast.unparse(e)[:30]}"
            cn = class_of_expr(fn, e, ops)
            # (a) fresh
            fresh = False
            why = ""
            if isinstance(e, ast.Call):
                fresh = cn is not None
                why = "" if fresh else f"`{ast.unparse(e)[:40]}` is not a constructor call of an operation class"
            elif isinstance(e, ast.Attribute) and e.attr == "H":
                fresh = True  # Gate.H returns a copy
            elif isinstance(e, ast.Name):
                rd = rd_of(fn.node)
                ids = rd.cfg.node_of_expr(e)
                ds = rd.reaching(e.id, ids[0]) if ids else set()
                if ds and all(d.kind == "assign" and isinstance(d.value, ast.Call) and
                              class_of_expr(fn, d.value, ops) for d in ds):
                    fresh = True
                    bare_names.setdefault(e.id, []).append(call)
                else:
                    why = f"`{e.id}` is not created in this call (shared object: flipping its dagger corrupts other users)"
            else:
                why = f"`{ast.unparse(e)[:40]}`: origin not understood"
            ctx.ob(rule, f.site, fresh, why, role=role + ":fresh", line=call.lineno)
            # (c) Gate-typed
            if cn is not None:
                ok = gate in ops[cn].mro()
                ctx.ob(rule, f.site, ok, "" if ok else f"product {cn} is not a Gate: Gate.decompose sets a meaningless "
                       "`dagger` attribute on it, the inverse of the composite is wrong", role=role + ":gate-typed",
                       line=call.lineno)
        for nm, calls in bare_names.items():
            ok = len(calls) == 1
            ctx.ob(rule, f.site, ok, "" if ok else f"the same object `{nm}` is placed in {len(calls)} commands: its dagger "
                   "flag is flipped twice when the composite is inverted", role=f"single-use:{nm}", line=calls[0].lineno)
    ctx.require(n_cls >= 8, f"only {n_cls} Gate classes with Command-producing _decompose found")
    # Gate.decompose
    f = ctx.tree.func("ops.py", "Gate.decompose")
    cfg = cfg_of(f.node)
    flips = [n for n in walk_no_nested(f.node) if isinstance(n, ast.Assign) and isinstance(n.targets[0], ast.Attribute)
             and n.targets[0].attr == "dagger"]
    if not flips:
        ctx.ob(rule, f.site, False, "Gate.decompose no longer inverts the products of a daggered gate (no `.dagger` assignment): "
               "G.H decomposes into the sequence of G", role="flip-all", line=f.node.lineno)
        return
    fl = flips[0]
    fid = cfg.find(fl)[0]
    conds = cfg.branch_conditions(fid)
    under = any(cfg.node(h).kind == "if" and ast.unparse(cfg.node(h).ast) == "self.dagger" and lab == TRUE for h, lab in conds)
    in_loop = [h for h, lab in conds if cfg.node(h).kind == "for" and lab == TRUE]
    negates = isinstance(fl.value, ast.UnaryOp) and isinstance(fl.value.op, ast.Not) and \
        ast.unparse(fl.value.operand) == ast.unparse(fl.targets[0])
    whole = False
    for h in in_loop:
        it = cfg.node(h).ast.iter
        d = derives(f.node, it, h)
        whole = d.has_call("self._decompose") and not isinstance(it, ast.Subscript)
    ok = under and bool(in_loop) and negates and whole
    ctx.ob(rule, f.site, ok, "" if ok else "Gate.decompose must negate `op.dagger` of every element of the sequence "
           "returned by _decompose, under `if self.dagger`", role="flip-all", line=fl.lineno)
    rev = False
    for n in walk_no_nested(f.node):
        if isinstance(n, ast.Call) and dotted(n.func) in ("reversed",) or \
                (isinstance(n, ast.Call) and isinstance(n.func, ast.Attribute) and n.func.attr == "reverse") or \
                (isinstance(n, ast.Subscript) and isinstance(n.slice, ast.Slice) and n.slice.step is not None and
                 ast.unparse(n.slice.step) == "-1"):
            ids = cfg.node_of_expr(n)
            if ids:
                c2 = cfg.branch_conditions(ids[0])
                if any(cfg.node(h).kind == "if" and ast.unparse(cfg.node(h).ast) == "self.dagger" and lab == TRUE
                       for h, lab in c2):
                    rev = True
    ctx.ob(rule, f.site, rev, "" if rev else "Gate.decompose does not reverse the command sequence on the dagger path",
           role="reverse", line=f.node.lineno)
    rets = [n for n in walk_no_nested(f.node) if isinstance(n, ast.Return) and n.value is not None]
    ok = bool(rets) and all(derives(f.node, r.value).has_call("self._decompose") for r in rets)
    ctx.ob(rule, f.site, ok, "" if ok else "Gate.decompose does not return the (processed) result of _decompose",
           role="returns-seq", line=f.node.lineno)
    ctx.floor(rule, 45)


def first_param(ctx, rule="C02.first-param"):
    ctx.explain(f"{rule}: classes that inherit Gate.apply (skip when p[0]==0, negate p[0] for the dagger) and are applied "
                "natively forward p[0] to a backend method for which that convention is the group law "
                "(frozen table with the documented generator per method); Gate.apply itself reads self.dagger and "
                "negates only then.")
    ctx.trust("FIRST_PARAM_SOUND / FIRST_PARAM_UNSOUND tables in sfa/rules/c02.py (docstring formulas)")
    ops = op_classes(ctx.tree)
    ct = CompilerTable(ctx.tree)
    gate_apply = ctx.tree.func("ops.py", "Gate.apply")
    n = 0
    for name, c in sorted(ops.items()):
        if c.lookup("apply") is not gate_apply or "_apply" not in c.methods:
            continue
        f = c.methods["_apply"]
        calls = [x for x in walk_no_nested(f.node) if isinstance(x, ast.Call) and (dotted(x.func) or "").startswith("backend.")]
        for call in calls:
            meth = dotted(call.func).split(".", 1)[1]
            n += 1
            if meth in FIRST_PARAM_SOUND:
                # p[0] must be the first argument
                a0 = call.args[0] if call.args else None
                d = derives(f.node, a0) if a0 is not None else None
                ok = d is not None and ("self.p" in d.attrs)
                first = _is_first_param(f, a0)
                ctx.ob(rule, f.site, ok and first, "" if ok and first else
                       f"backend.{meth} does not receive p[0] as its first argument: skipping on p[0]==0 and negating "
                       "p[0] act on the wrong parameter", role=f"conv:{meth}", line=call.lineno)
            elif meth in FIRST_PARAM_UNSOUND:
                prim = ct.primitive_somewhere(name)
                ctx.ob(rule, f.site, False, f"{name} inherits Gate.apply but backend.{meth} is not a one-parameter group "
                       f"in its first argument ({FIRST_PARAM_UNSOUND[meth]}); primitive of {prim}",
                       role=f"conv:{meth}", line=call.lineno)
            else:
                ctx.note(f"{rule}: {name}._apply calls backend.{meth}: unclassified method (not proof of a violation)")
    ctx.require(n >= 8, "fewer than 8 native Gate._apply backend calls found")
    # Gate.apply structure
    f = gate_apply
    cfg = cfg_of(f.node)
    app = [x for x in walk_no_nested(f.node) if isinstance(x, ast.Call) and dotted(x.func) == "self._apply"]
    ctx.require(app, "Gate.apply no longer calls self._apply")
    aid = cfg.node_of_expr(app[0])[0]
    neg = [x for x in walk_no_nested(f.node) if isinstance(x, ast.Assign) and isinstance(x.value, ast.UnaryOp)
           and isinstance(x.value.op, ast.USub)]
    ok = False
    for x in neg:
        i = cfg.find(x)[0]
        conds = cfg.branch_conditions(i)
        if any(cfg.node(h).kind == "if" and ast.unparse(cfg.node(h).ast) == "self.dagger" and lab == TRUE for h, lab in conds):
            # the negated value is what gets stored into self.p[0] before _apply
            for y in walk_no_nested(f.node):
                if isinstance(y, ast.Assign) and ast.unparse(y.targets[0]) == "self.p[0]" and \
                        cfg.dominates(cfg.find(y)[0], aid):
                    d = derives(f.node, y.value, cfg.find(y)[0])
                    if any(dd.stmt is x for dd in d.defs):
                        ok = True
    ctx.ob(rule, f.site, ok, "" if ok else "Gate.apply does not negate the first parameter exactly under `self.dagger` "
           "before calling _apply", role="negate-under-dagger", line=f.node.lineno)
    # zero skip: `if np.all(z == 0): return` dominates nothing else but must not depend on dagger
    ctx.floor(rule, 9)


def _is_first_param(f, a0) -> bool:
    """a0 is self.p[0], p[0] with p = par_evaluate(self.p), or the first name unpacked from par_evaluate(self.p)"""
    if a0 is None:
        return False
    if isinstance(a0, ast.Call) and dotted(a0.func) == "par_evaluate" and a0.args:
        return _is_first_param(f, a0.args[0])
    if isinstance(a0, ast.Subscript) and isinstance(a0.slice, ast.Constant):
        if a0.slice.value != 0:
            return False
        return True
    if isinstance(a0, ast.Name):
        rd = rd_of(f.node)
        ids = rd.cfg.node_of_expr(a0)
        ds = rd.reaching(a0.id, ids[0]) if ids else set()
        ok = bool(ds)
        for d in ds:
            if d.kind == "unpack" and d.index == (0,):
                continue
            if d.kind == "assign" and d.value is not None:
                # gamma_prime = self.p[0] * factor
                subs = [x for x in ast.walk(d.value) if isinstance(x, ast.Subscript) and dotted(x.value) == "self.p"]
                if subs and all(isinstance(x.slice, ast.Constant) and x.slice.value == 0 for x in subs):
                    continue
            ok = False
        return ok
    return False


def targets(ctx, rule="C02.targets"):
    ctx.explain(f"{rule}: every register expression of a decomposition product derives from the `reg` parameter of "
                "_decompose (no constants, no foreign registers).")
    ops = op_classes(ctx.tree)
    n = 0
    for name, c in sorted(ops.items()):
        if "_decompose" not in c.methods:
            continue
        f = c.methods["_decompose"]
        regp = f.pos_params[1] if len(f.pos_params) > 1 else None
        for call, e, fn in command_ops(ctx.tree, f, ops, depth=2):
            if len(call.args) < 2:
                continue
            n += 1
            d = derives(fn.node, call.args[1])
            rp = regp if fn is f else (fn.pos_params[0] if fn.pos_params else None)
            ok = rp in d.params
            ctx.ob(rule, fn.site, ok, "" if ok else f"register `{ast.unparse(call.args[1])[:40]}` of the product does not "
                   f"derive from `{rp}`", role=f"reg:{ast.unparse(e)[:24]}", line=call.lineno)
    ctx.floor(rule, 45)


def mesh_table(ctx, rule="C02.mesh"):
    ctx.explain(f"{rule}: every name in Interferometer's allowed_meshes is handled - by an explicit branch or by a "
                "function of that name in decompositions.py that returns a 3-tuple.")
    init = ctx.tree.func("ops.py", "Interferometer.__init__")
    dec = ctx.tree.func("ops.py", "Interferometer._decompose")
    # the set of allowed names is whatever the raising membership guard on `mesh` tests against
    names, guard_ok = None, False
    icfg = cfg_of(init.node)
    for n in icfg.nodes:
        if n.kind != "if":
            continue
        for c in ast.walk(n.ast):
            if isinstance(c, ast.Compare) and len(c.ops) == 1 and isinstance(c.ops[0], (ast.In, ast.NotIn)) and \
                    dotted(c.left) == "mesh":
                v = resolve_local(init.node, c.comparators[0])
                if isinstance(v, (ast.Set, ast.List, ast.Tuple)):
                    names = [e.value for e in v.elts if isinstance(e, ast.Constant)]
                    guard_ok = icfg.ends_in_raise(n.id, TRUE) or icfg.ends_in_raise(n.id, FALSE)
    ctx.require(names, "Interferometer.__init__ no longer tests `mesh` against a display of allowed names")
    explicit = set()
    for n in walk_no_nested(dec.node):
        if isinstance(n, ast.Compare) and len(n.ops) == 1 and isinstance(n.ops[0], ast.Eq):
            for c_, o_ in ((n.comparators[0], n.left), (n.left, n.comparators[0])):
                if isinstance(c_, ast.Constant) and isinstance(c_.value, str) and "self.mesh" in derives(dec.node, o_).attrs:
                    explicit.add(c_.value)
    uses_getattr = any(isinstance(n, ast.Call) and dotted(n.func) == "getattr" and len(n.args) >= 2 and
                       (ctx.tree.resolve_dotted(ctx.tree.module("ops.py"), dotted(n.args[0]) or "?") or ("", None))[0] == "module" and
                       "self.mesh" in derives(dec.node, n.args[1]).attrs
                       for n in walk_no_nested(dec.node))
    dm = ctx.tree.module("decompositions.py")
    for m in sorted(names):
        if m in explicit:
            ctx.ob(rule, dec.site, True, role=f"mesh:{m}", line=dec.node.lineno)
            continue
        g = dm.functions.get(m)
        ok = uses_getattr and g is not None
        why = "" if ok else f"mesh '{m}' is allowed but neither handled explicitly nor a function of decompositions.py"
        if ok:
            rets = [v for _, v in return_values(g.node)]
            ok = all(isinstance(v, ast.Tuple) and len(v.elts) == 3 or isinstance(v, ast.Call) for v in rets)
            why = "" if ok else f"decompositions.{m} does not return the (BS1, R, BS2) triple the caller unpacks"
        ctx.ob(rule, dec.site, ok, why, role=f"mesh:{m}", line=dec.node.lineno)
    # the guard that rejects unknown meshes
    cfg = cfg_of(init.node)
    ok = guard_ok
    ctx.ob(rule, init.site, ok, "" if ok else "unknown mesh names are no longer rejected", role="guard", line=init.node.lineno)
    ctx.floor(rule, 8)


def driver(ctx, rule="C02.driver"):
    ctx.explain(f"{rule}: Compiler.decompose routes decomposition products through the recursive decompose call with the "
                "compiler's option dict as keyword arguments; the decomp=False path only accepts primitives; unknown "
                "operations raise CircuitError.")
    f = ctx.tree.func("compilers/compiler.py", "Compiler.decompose")
    cfg = cfg_of(f.node)
    dcalls = [n for n in walk_no_nested(f.node) if isinstance(n, ast.Call) and isinstance(n.func, ast.Attribute)
              and n.func.attr == "decompose" and dotted(n.func.value) and dotted(n.func.value).endswith(".op")]
    ctx.require(dcalls, "Compiler.decompose no longer calls cmd.op.decompose")
    dc = dcalls[0]
    kw = [k for k in dc.keywords if k.arg is None]
    ok = False
    if kw:
        d = derives(f.node, kw[0].value)
        ok = "self.decompositions" in d.attrs
    ctx.ob(rule, f.site, ok, "" if ok else "the option dict of self.decompositions[op_name] is not passed to op.decompose "
           "(X-series compilers select the symmetric mesh this way)", role="options", line=dc.lineno)
    # products only reach the output through the recursive call
    cmdvar = (dotted(dc.func.value) or "cmd.op").split(".")[0]
    ext = [n for n in walk_no_nested(f.node) if isinstance(n, ast.Call) and isinstance(n.func, ast.Attribute)
           and n.func.attr in ("extend", "append") and n.args]
    ok = False
    for e in ext:
        d = derives(f.node, e.args[0])
        if d.has_call(f"{cmdvar}.op.decompose"):
            ok = d.has_call("self.decompose")
            if not ok:
                break
    ctx.ob(rule, f.site, ok, "" if ok else "decomposition products are appended without being decomposed recursively "
           "(non-primitive products reach the backend)", role="recursive", line=f.node.lineno)
    # appends of the original command are guarded by `in self.primitives`
    n_app = 0
    for e in ext:
        if e.func.attr == "append" and dotted(resolve_local(f.node, e.args[0])) == cmdvar:
            n_app += 1
            i = cfg.node_of_expr(e)[0]
            ok = any(truth and isinstance(a, ast.Compare) and isinstance(a.ops[0], ast.In) and
                     "self.primitives" in ast.unparse(expand_locals(f.node, a.comparators[0]))
                     for a, truth in path_facts(cfg, i))
            ctx.ob(rule, f.site, ok, "" if ok else "a command is accepted as is without being a primitive of the compiler",
                   role=f"primitive-guard{n_app}", line=e.lineno)
    # final else raises CircuitError
    raises = [n for n in walk_no_nested(f.node) if isinstance(n, ast.Raise) and n.exc is not None and
              isinstance(n.exc, ast.Call) and (dotted(n.exc.func) or "").endswith("CircuitError")]
    ctx.ob(rule, f.site, len(raises) >= 2, "" if len(raises) >= 2 else "Compiler.decompose lost a CircuitError raise "
           "(unknown operation / non-primitive with decomp=False)", role="raises", line=f.node.lineno)
    ctx.floor(rule, 5)


def _zero_tests(test):
    """names v whose vanishing the test examines: v == 0, v != 0, abs(v) >= tol, abs(v - 1) >= tol (either operand order)"""
    out = set()
    for c in ast.walk(test):
        if isinstance(c, ast.Compare) and len(c.ops) == 1:
            for l, r in ((c.left, c.comparators[0]), (c.comparators[0], c.left)):
                if isinstance(r, ast.Constant) and r.value == 0 and not isinstance(r.value, bool) and \
                        isinstance(c.ops[0], (ast.Eq, ast.NotEq)):
                    out |= {x.id for x in ast.walk(l) if isinstance(x, ast.Name)}
                if isinstance(c.ops[0], (ast.GtE, ast.Gt, ast.Lt, ast.LtE)) and isinstance(l, ast.Call) and \
                        (dotted(l.func) or "").split(".")[-1] in ("abs", "absolute") and \
                        ((dotted(r) or "").endswith("_tol") or isinstance(r, ast.Name) and "tol" in r.id):
                    out |= {x.id for x in ast.walk(l) if isinstance(x, ast.Name)} - {"np"}
    return out


def elision(ctx, rule="C02.elision"):
    ctx.explain(f"{rule}: a decomposition product may be skipped only as an identity: wherever the emission of "
                "Command(G(p, ...)) is control-dependent on a test that some value vanishes (v == 0, |v| < tol), the "
                "first parameter p of the elided gate derives from that very value - a test on another quantity would "
                "drop a non-trivial gate for special inputs.")
    ops = op_classes(ctx.tree)
    m = ctx.tree.module("ops.py")
    funcs = [c.methods["_decompose"] for c in ops.values() if "_decompose" in c.methods] + \
        [f for qn, f in m.functions.items() if f.cls is None and qn.endswith("_cmds")]
    n = 0
    for f in sorted(funcs, key=lambda x: x.qualname):
        cfg = cfg_of(f.node)
        for call in [x for x in walk_no_nested(f.node) if isinstance(x, ast.Call) and dotted(x.func) == "Command" and x.args]:
            g = call.args[0]
            if not (isinstance(g, ast.Call) and g.args):
                continue
            ids = cfg.node_of_expr(call)
            if not ids:
                continue
            conds = cfg.branch_conditions(ids[0])
            tested = set()
            for h, lab in conds:
                if cfg.node(h).kind == "if":
                    tested |= _zero_tests(cfg.node(h).ast)
            if not tested:
                continue
            n += 1
            # all parameters of the gate taken together must depend on each tested value
            d = set()
            for a in g.args:
                dv = derives(f.node, a, ids[0])
                d |= {x.var for x in dv.defs} | dv.params | dv.free
            missing = sorted(t for t in tested if t not in d and t not in ("drop_identity",))
            ok = not missing
            ctx.ob(rule, f.site, ok, "" if ok else f"`{ast.unparse(g)[:40]}` is emitted or skipped depending on whether "
                   f"{missing} vanishes, but its parameters do not depend on {missing}: a non-identity gate is dropped for "
                   "special inputs", role=f"elide:{ast.unparse(g)[:24]}", line=call.lineno)
    ctx.floor(rule, 10)


def pure_decompose(ctx, rule="C02.pure-decompose", methods=("_decompose", "decompose"), exempt=()):
    if methods is not None:
        ctx.explain(f"{rule}: _decompose / decompose of every operation class is a function of (parameters, reg, options): it "
                    "stores nothing in `self` (no attribute assignment, no item store, no mutator call on an attribute) - a "
                    "memoised command list would carry the registers, and the Command objects, of the first call into every "
                    "later application of the same operation object.")
    else:
        ctx.explain(f"{rule}: operation objects are values shared between programs, their compiled / optimised copies and "
                    "successive runs: outside __init__ no method of an operation class stores anything in `self` (exempt: "
                    f"{', '.join(exempt)} - the temporary overwrite checked by the paired-restore rule).")
    ops = op_classes(ctx.tree)
    from ..dataflow import MUTATORS
    n = 0
    for cn, c in sorted(ops.items()):
        for mn in (methods if methods is not None else sorted(c.methods)):
            f = c.methods.get(mn)
            if f is None or mn == "__init__" or f"{cn}.{mn}" in exempt:
                continue
            n += 1
            bad = None
            for x in walk_no_nested(f.node):
                tg = []
                if isinstance(x, ast.Assign):
                    tg = x.targets
                elif isinstance(x, (ast.AugAssign, ast.AnnAssign)):
                    tg = [x.target]
                elif isinstance(x, ast.Call) and isinstance(x.func, ast.Attribute) and x.func.attr in MUTATORS | {"setdefault"}:
                    tg = [x.func.value]
                elif isinstance(x, ast.Call) and dotted(x.func) == "setattr" and x.args and dotted(x.args[0]) == "self":
                    bad = x
                for t_ in tg:
                    r_ = t_
                    while isinstance(r_, ast.Subscript) or isinstance(r_, ast.Attribute) and not isinstance(r_.value, ast.Name):
                        r_ = r_.value
                    if isinstance(r_, ast.Attribute) and isinstance(r_.value, ast.Name) and r_.value.id == "self" and \
                            (t_ is not r_ or isinstance(x, (ast.Assign, ast.AugAssign, ast.AnnAssign)) or True):
                        bad = x
            ctx.ob(rule, f.site, bad is None, "" if bad is None else f"`{ast.unparse(bad)[:60]}` stores state in the operation object "
                   "while decomposing: later decompositions of the same object can return commands built for another register",
                   role="no-self-store", line=(bad.lineno if bad is not None else f.node.lineno))
    ctx.floor(rule, 15 if methods is not None else 60)


def zero_is_identity(ctx, rule="C02.first-param"):
    ctx.explain(f"{rule}: (generic zero test) 'first parameter 0 means identity' is a convention of SOME gate families only "
                "(MZgate(0, phi), sMZgate(0, phi), Ggate are not identities - see the known findings): outside the Gate class no "
                "code tests `<operation>.p[0]` against 0 for an operation whose class it has not pinned down (class-name comparison "
                "or isinstance of a concrete family on the path / in the same condition).")
    GENERIC = {"Gate", "Operation", "Channel", "Decomposition", "Preparation", "Measurement"}
    from .common_guard import path_facts
    n = 0
    for f in ctx.tree.all_functions():
        if f.module.rel.startswith("backends/tfbackend") or (f.module.rel == "ops.py" and f.cls is not None and f.cls.name == "Gate"):
            continue
        hits = []
        for x in walk_no_nested(f.node):
            if isinstance(x, ast.Subscript) and isinstance(x.slice, ast.Constant) and x.slice.value == 0 and \
                    isinstance(x.value, ast.Attribute) and x.value.attr == "p" and not dotted(x.value) == "self.p":
                # climbs to a comparison with 0 / an allclose(.., 0)
                p, zero = getattr(x, "parent", None), False
                while p is not None and not isinstance(p, ast.stmt):
                    if isinstance(p, ast.Compare) and any(isinstance(c, ast.Constant) and c.value == 0 and not isinstance(c.value, bool)
                                                          for c in [p.left] + p.comparators):
                        zero = True
                    if isinstance(p, ast.Call) and (dotted(p.func) or "").split(".")[-1] in ("allclose", "isclose") and \
                            any(isinstance(c, ast.Constant) and c.value == 0 for c in p.args[1:2]):
                        zero = True
                    p = getattr(p, "parent", None)
                if zero:
                    hits.append(x)
        if not hits:
            continue
        cfg = cfg_of(f.node)
        for x in hits:
            n += 1
            ids = cfg.node_of_expr(x)
            atoms = [a for a, v in path_facts(cfg, ids[0])] if ids else []
            # the condition the test itself sits in
            p = getattr(x, "parent", None)
            while p is not None and not isinstance(p, ast.stmt):
                if isinstance(p, ast.BoolOp):
                    atoms += list(p.values)
                p = getattr(p, "parent", None)
            # helper functions that return the test: the callers' conditions are not looked at (conservative)
            specific = False
            for a in atoms:
                for y in ast.walk(a):
                    if isinstance(y, ast.Compare) and any(isinstance(z, ast.Attribute) and z.attr == "__name__" for z in ast.walk(y)) and \
                            any(isinstance(z, ast.Constant) and isinstance(z.value, str) for z in ast.walk(y)):
                        specific = True
                    if isinstance(y, ast.Call) and dotted(y.func) == "isinstance" and len(y.args) == 2:
                        cls_names = {(dotted(z) or "").split(".")[-1] for z in ([y.args[1]] if not isinstance(y.args[1], ast.Tuple) else y.args[1].elts)}
                        if cls_names and not cls_names & GENERIC:
                            specific = True
            ctx.ob(rule, f.site, specific, "" if specific else f"`{ast.unparse(x)[:30]}` is tested against 0 for an operation of unknown "
                   "class: gates whose first parameter 0 is not the identity (MZgate, sMZgate, Ggate) are treated as identities",
                   role="generic-zero-test", line=x.lineno)
    return n


def prep_every_mode(ctx, rule="C02.elision"):
    ctx.explain(f"{rule}: (preparations) a state preparation that decomposes into per-mode preparations resets EVERY mode: in "
                "Gaussian._decompose each loop over the modes that emits Command(<preparation>, reg[n]) emits one on every path "
                "through its body, and no comprehension that emits preparations has a filter (a skipped 'vacuum' mode keeps whatever "
                "state it had).")
    ops = op_classes(ctx.tree)
    prep = ops.get("Preparation")
    f = ctx.tree.func("ops.py", "Gaussian._decompose")
    cfg = cfg_of(f.node)

    def is_prep_cmd(c):
        if not (isinstance(c, ast.Call) and dotted(c.func) == "Command" and c.args):
            return False
        g = c.args[0]
        nm = (dotted(g.func) if isinstance(g, ast.Call) else dotted(g)) or ""
        nm = {"Vac": "Vacuum"}.get(nm, nm)
        return nm in ops and prep is not None and prep in ops[nm].mro()

    n = 0
    for lp in [x for x in walk_no_nested(f.node) if isinstance(x, ast.For)]:
        emits = [c for c in ast.walk(lp) if is_prep_cmd(c)]
        if not emits:
            continue
        n += 1
        hid = cfg.find(lp)
        eids = {cfg.node_of_expr(c)[0] for c in emits if cfg.node_of_expr(c)}
        ok = bool(hid) and bool(eids)
        if ok:
            starts = [b for b, lab in cfg.succ[hid[0]] if lab == TRUE]
            r = cfg.reachable(starts, avoid=eids, exc=False)
            ok = hid[0] not in r and not (set(starts) & {hid[0]})
        ctx.ob(rule, f.site, ok, "" if ok else "a path through the per-mode loop emits no preparation for the mode: the mode is not "
               "reset (the decomposed preparation acts on top of the previous state)", role=f"prep-every-mode:loop{n}", line=lp.lineno)
    for comp in [x for x in walk_no_nested(f.node) if isinstance(x, (ast.ListComp, ast.GeneratorExp))]:
        if is_prep_cmd(comp.elt):
            n += 1
            ok = not any(g.ifs for g in comp.generators)
            ctx.ob(rule, f.site, ok, "" if ok else f"`{ast.unparse(comp)[:60]}` emits preparations for some of the modes only",
                   role="prep-every-mode:comprehension", line=comp.lineno)
    ctx.require(n >= 4, f"only {n} per-mode preparation loops found in Gaussian._decompose")


def mesh_slots(ctx, rule="C02.mesh"):
    ctx.explain(f"{rule}: (slots) Interferometer._decompose applies the first list a mesh function returns as forward T gates BEFORE the local "
                "phases and the third list as inverse gates AFTER them. In decompositions.py a list whose elements null the matrix by LEFT "
                "multiplication (`V = T(*t) @ V`) recomposes as U = Ti ... Ti diag - it is an inverse-after list; one that nulls by RIGHT "
                "multiplication (`V = V @ Ti(*t)`) is a forward-before list. A mesh that hands back an inverse-after list in the first slot "
                "(the triangular mesh) needs a branch in _decompose that moves it to the inverse position.")
    dm = ctx.tree.module("decompositions.py")
    dec = ctx.tree.func("ops.py", "Interferometer._decompose")
    cfg = cfg_of(dec.node)
    # the variables the generic branch unpacks the triple into
    trip = None
    for n in walk_no_nested(dec.node):
        if isinstance(n, ast.Assign) and isinstance(n.targets[0], ast.Tuple) and len(n.targets[0].elts) == 3 and isinstance(n.value, ast.Call) \
                and all(isinstance(e, ast.Name) for e in n.targets[0].elts):
            trip = [e.id for e in n.targets[0].elts]
    ctx.require(trip, "Interferometer._decompose no longer unpacks (BS1, R, BS2) from the mesh function")
    k = 0
    for name, g in sorted(dm.functions.items()):
        if g.cls is not None or "<locals>" in name:
            continue
        rets = [v for _, v in return_values(g.node) if isinstance(v, ast.Tuple) and len(v.elts) == 3]
        if not rets:
            continue
        # kind of every list variable: appended to in a loop body that also left- / right-multiplies the working matrix
        kind = {}
        for lp in [x for x in ast.walk(g.node) if isinstance(x, ast.For)]:
            # only statements that sit side by side in the body of this very loop
            apps = [st.value for st in lp.body if isinstance(st, ast.Expr) and isinstance(st.value, ast.Call) and
                    isinstance(st.value.func, ast.Attribute) and st.value.func.attr == "append" and isinstance(st.value.func.value, ast.Name)]
            for st in [x for x in lp.body if isinstance(x, ast.Assign) and isinstance(x.value, ast.BinOp) and isinstance(x.value.op, ast.MatMult)]:
                tgt = dotted(st.targets[0])
                l, r = st.value.left, st.value.right
                for c in apps:
                    if dotted(r) == tgt and isinstance(l, ast.Call):
                        kind.setdefault(c.func.value.id, set()).add("inverse-after")   # V = T(..) @ V
                    if dotted(l) == tgt and isinstance(r, ast.Call):
                        kind.setdefault(c.func.value.id, set()).add("forward-before")  # V = V @ Ti(..)
        for v in rets:
            first = v.elts[0]
            src = {x.id for x in ast.walk(first) if isinstance(x, ast.Name)} & set(kind)
            for lv in sorted(src):
                if len(kind[lv]) != 1:
                    continue
                k += 1
                kd = next(iter(kind[lv]))
                if kd == "forward-before":
                    ctx.ob(rule, g.site, True, role=f"slot:{name}", line=g.node.lineno)
                    continue
                # an inverse-after list in the forward slot: _decompose must move it for this mesh
                moved = False
                for st in walk_no_nested(dec.node):
                    if isinstance(st, ast.Assign):
                        tg = [x.id for t_ in st.targets for x in ast.walk(t_) if isinstance(x, ast.Name)]
                        if trip[2] in tg and trip[0] in {x.id for x in ast.walk(st.value) if isinstance(x, ast.Name)}:
                            ids = cfg.find(st)
                            if ids and any(v_ and any(isinstance(c_, ast.Constant) and c_.value == name for c_ in ast.walk(a_))
                                           for a_, v_ in path_facts(cfg, ids[0])):
                                moved = True
                ctx.ob(rule, g.site, moved, "" if moved else f"decompositions.{name} returns in its first slot a list that recomposes as inverse gates "
                       "AFTER the diagonal (built with `V = T(..) @ V`), and Interferometer._decompose applies that slot as forward gates BEFORE the "
                       f"phases: mesh='{name}' implements a different unitary than every other mesh", role=f"slot:{name}", line=g.node.lineno)
    ctx.require(k >= 3, f"only {k} mesh functions with a classified first slot")


def product_units(ctx, rule="C02.product-units"):
    Hb.ops_frontend(ctx, rule, only_classes=("Xgate", "Zgate", "Gaussian", "Vgate"))
    ctx.floor(rule, 4)


def derived_data(ctx, rule="C02.derived-data"):
    ctx.explain(f"{rule}: the Decomposition classes (Interferometer, GraphEmbed, BipartiteGraphEmbed, GaussianTransform, Gaussian) compute "
                "the data their _decompose uses (U1, U2, Sq, sq, active, identity flags ...) from the matrix at CONSTRUCTION: no method of "
                "Decomposition or of a subclass rebinds `.p` of an operation object (of self or of a copy of self) - the object would "
                "decompose into the gates of the old matrix. A merged operation is a new instance built from the product matrix.")
    n = 0
    for cls in ctx.tree.module("ops.py").classes.values():
        if not (cls.name == "Decomposition" or cls.is_subclass_of("Decomposition")):
            continue
        for name, f in sorted(cls.methods.items()):
            if name == "__init__":
                continue
            n += 1
            bad = None
            for st in walk_no_nested(f.node):
                tg = st.targets if isinstance(st, ast.Assign) else [st.target] if isinstance(st, (ast.AugAssign, ast.AnnAssign)) else []
                for t in tg:
                    for x in ast.walk(t):
                        if isinstance(x, ast.Attribute) and x.attr == "p" and isinstance(x.ctx, ast.Store):
                            bad = st
                        if isinstance(x, ast.Subscript) and isinstance(x.value, ast.Attribute) and x.value.attr == "p" and isinstance(x.ctx, ast.Store):
                            bad = st
                if isinstance(st, ast.Call) and dotted(st.func) == "setattr" and len(st.args) >= 2 and \
                        isinstance(st.args[1], ast.Constant) and st.args[1].value == "p":
                    bad = st
            ctx.ob(rule, f.site, bad is None, "" if bad is None else f"`{ast.unparse(bad)[:60]}`: the matrix of a Decomposition object is replaced "
                   "after construction - U1 / U2 / Sq / identity flags computed in __init__ still describe the old matrix",
                   role="p-rebound", line=(bad.lineno if bad is not None else f.node.lineno))
    ctx.require(n >= 4, f"only {n} methods of Decomposition classes found in ops.py")
    ctx.floor(rule, 4)


def graph_identity(ctx, rule="C02.elision"):
    ctx.explain(f"{rule}: (identity shortcut of graph embeddings) 'the matrix is the identity, emit nothing' is right for operations whose "
                "matrix IS the transformation (Interferometer: unitary, GaussianTransform: symplectic). For the classes that embed a GRAPH "
                "(their decomposition goes through dec.graph_embed / dec.bipartite_graph_embed: the matrix is an adjacency matrix) the "
                "identity matrix is a graph like any other - self-loops, or a perfect matching between the two vertex sets - and embeds into "
                "squeezers with the requested mean photon number: no emission of commands in their _decompose is control-dependent on an "
                "identity test of the matrix.")
    n = 0
    for cls in ctx.tree.module("ops.py").classes.values():
        if not cls.is_subclass_of("Decomposition"):
            continue
        ms = [m for m in (cls.methods.get("__init__"), cls.methods.get("_decompose")) if m is not None]
        graph = any(isinstance(c, ast.Call) and (dotted(c.func) or "").split(".")[-1] in ("graph_embed", "bipartite_graph_embed")
                    for m in ms for c in walk_no_nested(m.node))
        if not graph or cls.methods.get("_decompose") is None:
            continue
        # attributes of self that hold an identity test of a matrix (compared with np.identity / np.eye)
        flags = set()
        init = cls.methods.get("__init__")
        if init is not None:
            for st in walk_no_nested(init.node):
                if isinstance(st, ast.Assign) and len(st.targets) == 1 and isinstance(st.targets[0], ast.Attribute) and \
                        dotted(st.targets[0].value) == "self":
                    a = st.targets[0].attr
                    if any(isinstance(c, ast.Call) and (dotted(c.func) or "").split(".")[-1] in ("identity", "eye") for c in ast.walk(st.value)):
                        flags.add(a)
                    elif isinstance(st.value, ast.Constant) and st.value.value is True:
                        # `if allclose(A, identity): self.identity = True`
                        par = getattr(st, "parent", None)
                        if isinstance(par, ast.If) and any(isinstance(c, ast.Call) and (dotted(c.func) or "").split(".")[-1] in ("identity", "eye")
                                                           for c in ast.walk(par.test)):
                            flags.add(a)
        f = cls.methods["_decompose"]
        n += 1
        bad = None
        for st in walk_no_nested(f.node):
            if isinstance(st, ast.If) and any(isinstance(c, ast.Call) and (dotted(c.func) or "").split(".")[-1] == "Command" for c in ast.walk(st)):
                t = expand_locals(f.node, st.test)
                reads = {x.attr for x in ast.walk(t) if isinstance(x, ast.Attribute) and dotted(x.value) == "self"}
                if reads & flags:
                    bad = st
        ctx.ob(rule, f.site, bad is None, "" if bad is None else f"`if {ast.unparse(bad.test)[:50]}`: the commands of {cls.name} are emitted only when "
               f"the adjacency matrix is not the identity ({sorted(flags)}), but the identity matrix is a non-trivial graph: the embedding is dropped",
               role="graph-identity-shortcut", line=(bad.lineno if bad is not None else f.node.lineno))
    ctx.require(n >= 1, f"only {n} graph-embedding decompositions found in ops.py")


def rules(ctx):
    dagger_products(ctx)
    first_param(ctx)
    targets(ctx)
    mesh_table(ctx)
    mesh_slots(ctx)
    driver(ctx)
    elision(ctx)
    prep_every_mode(ctx)
    graph_identity(ctx)
    zero_is_identity(ctx)
    pure_decompose(ctx)
    derived_data(ctx)
    product_units(ctx)
    from . import common_backend as _Bk
    _Bk.polar_pair(ctx, "C02.polar", ("ops.py", "decompositions.py"))
    nu = _Bk.unitary_from_symplectic(ctx, "C02.block-sign", ("ops.py",))
    ctx.require(nu >= 1, f"only {nu} unitary-from-symplectic extractions found in ops.py")
    ctx.floor("C02.block-sign", 1)
