"""C14 - save / load (structural clauses: field coverage of writers, key / name agreement with readers)."""
from __future__ import annotations

import ast

from ..cfg import cfg_of
from ..dataflow import derives
from ..loader import dotted, walk_no_nested
from ..tables import op_classes
from . import c10
from .common_none import none_tests
from .common_guard import path_facts

WRITERS = [("io/blackbird_io.py", "to_blackbird"), ("io/xir_io.py", "to_xir"), ("io/utils.py", "generate_code")]
FIELDS = {"select": "post-selection value of a measurement", "dark_counts": "dark counts of MeasureFock",
          "dagger": "inverse flag of a gate"}


def fields(ctx, rule="C14.fields"):
    ctx.explain(f"{rule}: every writer (to_blackbird, to_xir, generate_code) reads each semantic field of the operations "
                "it serialises: p, select, dark_counts, dagger, modes.")
    for rel, qn in WRITERS:
        f = ctx.tree.func(rel, qn)
        reads = {n.attr for n in walk_no_nested(f.node) if isinstance(n, ast.Attribute)}
        ok = "p" in reads
        ctx.ob(rule, f.site, ok, "" if ok else "the writer does not read op.p", role="field:p", line=f.node.lineno)
        for a, what in FIELDS.items():
            ok = a in reads
            ctx.ob(rule, f.site, ok, "" if ok else f"{qn} never reads `op.{a}` ({what}): the flag is silently dropped by a "
                   "save / load round trip", role=f"field:{a}", line=f.node.lineno)
        ok = "reg" in reads and "ind" in reads
        ctx.ob(rule, f.site, ok, "" if ok else "the writer does not write the mode indices (.reg -> .ind)", role="field:modes",
               line=f.node.lineno)
    ctx.floor(rule, 15)


def _written_option_keys(f):
    keys = set()
    for n in walk_no_nested(f.node):
        if isinstance(n, ast.Call) and isinstance(n.func, ast.Attribute) and n.func.attr == "add_option" and n.args and \
                isinstance(n.args[0], ast.Constant):
            keys.add(n.args[0].value)
    return keys


def _read_option_keys(f):
    keys = set()
    for n in walk_no_nested(f.node):
        if isinstance(n, ast.Call) and isinstance(n.func, ast.Attribute) and n.func.attr == "get" and \
                (dotted(n.func.value) or "").endswith(".options") and n.args and isinstance(n.args[0], ast.Constant):
            keys.add(n.args[0].value)
        if isinstance(n, ast.Subscript) and (dotted(n.value) or "").endswith(".options") and isinstance(n.slice, ast.Constant):
            keys.add(n.slice.value)
        if isinstance(n, ast.Compare) and isinstance(n.left, ast.Constant) and isinstance(n.ops[0], ast.In) and \
                (dotted(n.comparators[0]) or "").endswith(".options"):
            keys.add(n.left.value)
    return keys


def keys(ctx, rule="C14.keys"):
    ctx.explain(f"{rule}: every option key written by to_xir is read back under the same name by from_xir / "
                "from_xir_to_tdm / the loader dispatch, and the readers' program-level keys are keys the writer emits; "
                "the Blackbird writer/readers agree on target name, shots and cutoff_dim.")
    w = ctx.tree.func("io/xir_io.py", "to_xir")
    r1 = ctx.tree.func("io/xir_io.py", "from_xir")
    r2 = ctx.tree.func("io/xir_io.py", "from_xir_to_tdm")
    wk = _written_option_keys(w)
    rk1, rk2 = _read_option_keys(r1), _read_option_keys(r2)
    disp = set()
    m = ctx.tree.module("io/__init__.py")
    for f in m.functions.values():
        disp |= _read_option_keys(f)
    ctx.require(len(wk) >= 4, f"to_xir writes only {sorted(wk)}")
    for k in sorted(wk):
        if k in ("N", "_type_"):
            ok = k in rk2 | disp
        else:
            ok = k in rk1 and (k in rk2 or k == "cutoff_dim")
        ctx.ob(rule, w.site, ok, "" if ok else f"option '{k}' written by to_xir is not read under that name by the "
               f"reader(s) (from_xir reads {sorted(rk1)}; from_xir_to_tdm reads {sorted(rk2)})", role=f"key:{k}", line=w.node.lineno)
    for rf, rk in ((r1, rk1), (r2, rk2)):
        for k in sorted(rk):
            ok = k in wk
            ctx.ob(rule, rf.site, ok, "" if ok else f"reader expects option '{k}' which to_xir never writes: the value is "
                   "always lost", role=f"reads:{k}", line=rf.node.lineno)
    # blackbird
    bw = ctx.tree.func("io/blackbird_io.py", "to_blackbird")
    tw = ast.unparse(bw.node)
    for rq in ("from_blackbird", "from_blackbird_to_tdm"):
        br = ctx.tree.func("io/blackbird_io.py", rq)
        tr = ast.unparse(br.node)
        ok = "_target['name']" in tw and "target['name']" in tr and "run_options" in tw and "backend_options" in tw and \
            "['shots']" in tr and "['cutoff_dim']" in tr
        ctx.ob(rule, br.site, ok, "" if ok else "Blackbird reader/writer disagree on target name / shots / cutoff_dim",
               role="bb-options", line=br.node.lineno)
    # the spatial structure of a time-domain program (N: concurrent modes per band) is part of its meaning: both formats carry it
    bwf = ctx.tree.func("io/blackbird_io.py", "to_blackbird")
    writes_N = any(isinstance(x, ast.Attribute) and x.attr == "N" and dotted(x.value) == bwf.pos_params[0] for x in walk_no_nested(bwf.node))
    ctx.ob(rule, bwf.site, writes_N, "" if writes_N else "to_blackbird writes only `temporal_modes` for a TDMProgram: the band structure N is not "
           "saved and from_blackbird_to_tdm rebuilds the program with a single band of all concurrent modes (N=[1, 2] reloads as N=[3]: the "
           "reloaded program unrolls onto different modes)", role="bb-tdm-N", line=bwf.node.lineno)
    # independent options are transferred independently: the transfer of one option is not conditional on another option
    from .common_guard import path_facts
    for rel_ in ("io/blackbird_io.py", "io/xir_io.py"):
        for rf in ctx.tree.module(rel_).functions.values():
            if not rf.name.startswith("from_"):
                continue
            cfg = cfg_of(rf.node)
            for st in walk_no_nested(rf.node):
                if not (isinstance(st, ast.Assign) and isinstance(st.targets[0], ast.Subscript) and
                        isinstance(st.targets[0].slice, ast.Constant) and
                        (dotted(st.targets[0].value) or "").endswith(("run_options", "backend_options"))):
                    continue
                k = st.targets[0].slice.value
                ids = cfg.find(st)
                if not ids:
                    continue
                other = set()
                for a, v in path_facts(cfg, ids[0]):
                    other |= {x.value for x in ast.walk(a) if isinstance(x, ast.Constant) and isinstance(x.value, str)
                              and x.value != k and x.value in ("shots", "cutoff_dim", "_shots_", "_cutoff_dim_", "options")
                              and x.value.strip("_") != str(k).strip("_")}
                other.discard("options")
                ctx.ob(rule, rf.site, not other, "" if not other else f"option '{k}' is only transferred depending on option(s) "
                       f"{sorted(other)} (elif instead of if): a program carrying both loses one of them on reload",
                       role=f"independent:{k}", line=st.lineno)
    # loop-parameter arrays p0, p1, ..., p10 correspond to positions: they must not be put in STRING order
    for rel_ in ("io/blackbird_io.py", "io/xir_io.py"):
        for rf in ctx.tree.module(rel_).functions.values():
            for c in walk_no_nested(rf.node):
                if isinstance(c, ast.Call) and dotted(c.func) == "sorted" and c.args and not any(k_.arg == "key" for k_ in c.keywords):
                    # is the sorted sequence filtered / consumed by is_ptype names?
                    par = getattr(c, "parent", None)
                    scope = par
                    while scope is not None and not isinstance(scope, (ast.ListComp, ast.GeneratorExp, ast.DictComp, ast.For, ast.stmt)):
                        scope = getattr(scope, "parent", None)
                    uses_p = scope is not None and any(isinstance(x, ast.Call) and dotted(x.func) == "is_ptype" for x in ast.walk(scope))
                    if uses_p:
                        ctx.ob(rule, rf.site, False, f"`{ast.unparse(c)[:50]}` orders the loop-parameter names as strings (p10 < p2): "
                               "with more than ten arrays every parameter from p2 on is bound to another parameter's array",
                               role="ptype-string-sort", line=c.lineno)
    ctx.floor(rule, 10)


def symbolic_kept(ctx, rule="C14.fields"):
    ctx.explain(f"{rule}: (symbolic parameters) a writer writes a symbolic parameter symbolically: it does not call par_evaluate on the "
                "parameters of the operations (after a run, or after bind_params, that replaces `2*q0` / `{alpha}` by the number of the "
                "moment); and where it renames the loop variables of a time-domain program it renames EVERY occurrence (a loop over the "
                "arguments, not a first-match lookup).")
    for rel_, qn in (("io/blackbird_io.py", "to_blackbird"), ("io/xir_io.py", "to_xir"), ("io/utils.py", "generate_code")):
        f = ctx.tree.func(rel_, qn)
        # (evaluating an expression that contains NO symbols - a constant produced by a decomposition - is fine: the call must sit
        #  on a path on which `free_symbols` of the value is known to be empty)
        cfg_ = cfg_of(f.node)
        ev = []
        for c in walk_no_nested(f.node):
            if isinstance(c, ast.Call) and (dotted(c.func) or "").split(".")[-1] == "par_evaluate":
                ids = cfg_.node_of_expr(c)
                const_only = bool(ids) and any(not v and "free_symbols" in ast.unparse(a) for a, v in path_facts(cfg_, ids[0]))
                if not const_only:
                    ev.append(c)
        ctx.ob(rule, f.site, not ev, "" if not ev else f"{qn} evaluates symbolic operation parameters (`{ast.unparse(ev[0])[:40]}`): a program "
               "that has been run or bound is written with numbers in place of its measured / free parameters",
               role="no-evaluate", line=(ev[0].lineno if ev else f.node.lineno))
        idx = [c for c in walk_no_nested(f.node) if isinstance(c, ast.Call) and isinstance(c.func, ast.Attribute) and c.func.attr in ("index", "find")
               and any(isinstance(x, ast.Attribute) and x.attr in ("name",) or isinstance(x, ast.Call) and dotted(x.func) == "str"
                       for a in c.args for x in ast.walk(a))]
        ctx.ob(rule, f.site, not idx, "" if not idx else f"`{ast.unparse(idx[0])[:50]}` finds the first occurrence only: a loop variable "
               "used in two argument slots keeps its raw symbolic form in the second", role="rename-all-occurrences",
               line=(idx[0].lineno if idx else f.node.lineno))


def names(ctx, rule="C14.names"):
    ctx.explain(f"{rule}: every operation class name a writer can emit (cmd.op.__class__.__name__ of a class that can sit "
                "in a circuit) is accepted by the readers, which look names up in ops.__all__.")
    m = ctx.tree.module("ops.py")
    # ops.__all__ = names of classes in gates + channels + state_preparations + measurements + decompositions + shorthands
    groups = {}
    for g in ("zero_args_gates", "one_args_gates", "two_args_gates", "channels", "simple_state_preparations",
              "state_preparations", "measurements", "decompositions"):
        for v in m.globals.get(g, []):
            groups[g] = {x.id for x in ast.walk(v) if isinstance(x, ast.Name)}
    allowed = set().union(*groups.values()) if groups else set()
    ctx.require(len(allowed) > 30, "ops.py class groups that make up __all__ not found")
    ops = op_classes(ctx.tree)
    abstract = {"Operation", "Gate", "Channel", "Transformation", "Preparation", "Measurement", "Decomposition",
                "MetaOperation", "All"}
    for name, c in sorted(ops.items()):
        if name in abstract:
            continue
        ok = name in allowed
        ctx.ob(rule, c.site, ok, "" if ok else f"'{name}' can be written by the serialisers but is not in ops.__all__: "
               "loading the saved program raises NameError", role="readable", line=c.node.lineno)
    ctx.floor(rule, 40)


def presence(ctx, rule="C14.presence"):
    ctx.explain(f"{rule}: the writers test the presence of select / dark_counts with `is not None` (a post-selection on 0 "
                "is a value, not an absence); the XIR / Blackbird statement lists the modes in the order of cmd.reg "
                "(per-mode option lists are positional, so re-ordering the wires re-assigns them).")
    n = 0
    for rel, qn in (("io/blackbird_io.py", "to_blackbird"), ("io/xir_io.py", "to_xir")):
        f = ctx.tree.func(rel, qn)
        n += none_tests(ctx, rule, f, ("select", "dark_counts"), "a post-selected value / dark-count rate of")
        # wires in cmd.reg order
        srcs = [x for x in walk_no_nested(f.node) if isinstance(x, (ast.GeneratorExp, ast.ListComp)) and
                isinstance(x.elt, ast.Attribute) and x.elt.attr == "ind" and (dotted(x.generators[0].iter) or "").endswith(".reg")]
        # ... of ALL registers of the command (a comprehension / generator over cmd.reg, or a loop over it that collects .ind)
        loops = [x for x in walk_no_nested(f.node) if isinstance(x, ast.For) and (dotted(x.iter) or "").endswith(".reg") and
                 any(isinstance(y, ast.Attribute) and y.attr == "ind" for y in ast.walk(x))]
        maps = [x for x in walk_no_nested(f.node) if isinstance(x, ast.Call) and dotted(x.func) == "map" and len(x.args) == 2 and
                (dotted(x.args[1]) or "").endswith(".reg")]
        ctx.ob(rule, f.site, bool(srcs or loops or maps), "" if (srcs or loops or maps) else f"{qn} does not build the mode list of a statement "
               "from every register of cmd.reg: multi-mode commands lose modes", role="all-modes", line=f.node.lineno)
        n += 1
        if not (srcs or loops or maps):
            continue
        if qn == "to_xir":
            st = [x for x in walk_no_nested(f.node) if isinstance(x, ast.Call) and dotted(x.func) == "xir.Statement"]
            ctx.require(st and len(st[0].args) >= 3, "to_xir no longer builds xir.Statement(name, params, wires)")
            d = derives(f.node, st[0].args[2])
            reordered = d.has_call("sorted") or d.has_call("reversed") or d.has_call("set") or d.has_call(".sort")
            ok = not reordered and any(isinstance(e, ast.Attribute) and e.attr == "reg" for e in d.exprs)
            ctx.ob(rule, f.site, ok, "" if ok else "the wires of the statement are re-ordered on the way from cmd.reg: positional "
                   "select / dark_counts lists no longer belong to their modes", role="wire-order", line=st[0].lineno)
        else:
            stores = [x for x in walk_no_nested(f.node) if isinstance(x, ast.Assign) and isinstance(x.targets[0], ast.Subscript)
                      and isinstance(x.targets[0].slice, ast.Constant) and x.targets[0].slice.value == "modes"]
            ctx.require(stores, "to_blackbird no longer stores op['modes']")
            v = stores[0].value
            reordered = any(isinstance(c, ast.Call) and dotted(c.func) in ("sorted", "reversed", "set") for c in ast.walk(v))
            ok = not reordered and any(isinstance(e, ast.Attribute) and e.attr == "reg" for e in ast.walk(v))
            ctx.ob(rule, f.site, ok, "" if ok else "op['modes'] is not the mode list in cmd.reg order", role="wire-order",
                   line=stores[0].lineno)
    ctx.floor(rule, 6)


def reader_types(ctx, rule="C14.reader-types"):
    from .common_guard import raise_facts
    ctx.explain(f"{rule}: the writers put symbolic parameters (free, measured, time-domain, expressions) into the saved text as STRINGS, and a "
                "Python string is an Iterable: a helper of the io modules that RAISES for string arguments (found structurally: a raising "
                "guard `isinstance(<parameter>, str)` at its top) is called only where its argument is known not to be a string - an earlier "
                "`isinstance(x, str)` branch of the same if / elif chain, or `and not isinstance(x, str)` in the test. Otherwise the reader "
                "rejects exactly the parameters the writer emits (every program with a symbolic parameter fails to load).")
    rels = [r for r in ("io/xir_io.py", "io/blackbird_io.py", "io/utils.py", "io/__init__.py") if r in ctx.tree.modules]
    # helpers that raise for str arguments
    rejecting = {}
    for rel_ in rels:
        for f in ctx.tree.module(rel_).functions.values():
            for node, exc, fs in raise_facts(f):
                for a, v in fs:
                    if v and isinstance(a, ast.Call) and dotted(a.func) == "isinstance" and len(a.args) == 2 and \
                            isinstance(a.args[0], ast.Name) and a.args[0].id in f.params and dotted(a.args[1]) == "str":
                        rejecting[f.qualname.split(".")[-1]] = f.params.index(a.args[0].id)
    ctx.note(f"{rule}: helpers that raise for str arguments: {sorted(rejecting)}")
    if not rejecting:
        # not an anchor: helpers that accept strings leave nothing to check (the positive example is the self-test variant)
        ctx.note(f"{rule}: no io helper raises for str arguments")
        return
    n = 0
    for rel_ in rels:
        for f in ctx.tree.module(rel_).functions.values():
            cfg = None
            k = 0
            for c in walk_no_nested(f.node):
                if not isinstance(c, ast.Call):
                    continue
                cn = (dotted(c.func) or "").split(".")[-1]
                if cn not in rejecting or len(c.args) <= rejecting[cn]:
                    continue
                arg = ast.unparse(c.args[rejecting[cn]]).replace(" ", "")
                cfg = cfg or cfg_of(f.node)
                ids = cfg.node_of_expr(c)
                if not ids:
                    continue
                # only values that come from the parameters of a statement / operation can be the writers' strings
                d = derives(f.node, c.args[rejecting[cn]], ids[0])
                if not ({"params", "p"} & d.attr_reads):
                    continue
                n += 1
                k += 1
                ok = False
                for a, v in path_facts(cfg, ids[0]):
                    if isinstance(a, ast.Call) and dotted(a.func) == "isinstance" and len(a.args) == 2 and \
                            ast.unparse(a.args[0]).replace(" ", "") == arg:
                        types = ast.unparse(a.args[1])
                        if not v and "str" in types:
                            ok = True           # a string has been handled / excluded before
                        if v and not any(t in types for t in ("str", "Iterable", "Sequence", "Sized", "Container", "object")):
                            ok = True           # a concrete non-string type (list, tuple, np.ndarray ...)
                ctx.ob(rule, f.site, ok, "" if ok else f"`{ast.unparse(c)[:40]}`: `{arg}` may be a string here (the writers emit symbolic parameters as "
                       f"strings; str is an Iterable) and {cn} raises for strings - a saved program with a free / measured parameter cannot be loaded",
                       role=f"str-excluded:{cn}:{k}", line=c.lineno)
    ctx.note(f"{rule}: {n} calls of str-rejecting io helpers on statement parameters examined")


def rules(ctx):
    presence(ctx)
    fields(ctx)
    symbolic_kept(ctx)
    keys(ctx)
    names(ctx)
    reader_types(ctx)
    c10.par_convert(ctx, "C14.par-convert")
    # writing a program must not change it (the reloaded program is compared with the original, and remote engines
    # serialise the user's program on every run)
    from . import common_alias as CA
    fs = [f for rel in ("io/blackbird_io.py", "io/xir_io.py", "io/utils.py", "io/__init__.py") if rel in ctx.tree.modules
          for f in ctx.tree.module(rel).functions.values()]
    n = CA.attr_alias_write(ctx, "C14.alias", fs, "Scope: the io writers / readers.")
    ctx.floor("C14.alias", 1)
