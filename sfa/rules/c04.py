"""C04 - internal reorderings respect dependencies (structural clauses)."""
from __future__ import annotations

import ast

from ..cfg import cfg_of, T as TRUE, F as FALSE
from ..dataflow import MUTATORS, derives, rd_of, resolve_local, return_values, expand_locals
from .common_guard import raise_facts, path_facts, facts
from ..loader import dotted, walk_no_nested

PU = "program_utils.py"


def dep_key(ctx, rule="C04.dep-key"):
    ctx.explain(f"{rule}: Command.get_dependencies returns register union measured-parameter wires; Operation.__init__ "
                "folds par_regref_deps(q) into the dependency set for every parameter (no early exit); "
                "par_regref_deps recurses into object arrays and collects .regref of every MeasuredParameter atom.")
    f = ctx.tree.func(PU, "Command.get_dependencies")
    rets = [n for n in walk_no_nested(f.node) if isinstance(n, ast.Return) and n.value is not None]
    ctx.require(rets, "get_dependencies returns nothing")
    for i, r in enumerate(rets):
        d = derives(f.node, r.value)
        ok_reg = "self.reg" in d.attrs
        ok_dep = any(a.endswith("measurement_deps") for a in d.attrs) or "measurement_deps" in d.attr_reads
        union = any(isinstance(e, ast.BinOp) and isinstance(e.op, ast.BitOr) for e in d.exprs) or d.has_call("union") \
            or d.has_call("update") or d.has_call(".update")
        ctx.ob(rule, f.site, ok_reg, "" if ok_reg else "dependencies do not include the command's own register",
               role=f"ret{i}:reg", line=r.lineno)
        ctx.ob(rule, f.site, ok_dep and union, "" if ok_dep and union else "dependencies do not include the wires of "
               "measured parameters: a gate may be moved before the measurement it depends on", role=f"ret{i}:deps",
               line=r.lineno)
        # ... ALL of them: no filtering comprehension / conditional on the way (the state of a RegRef - measured, active - is the
        # end-of-program or previous-run state, not the state at the command's position)
        filt = [e for e in d.exprs if isinstance(e, (ast.ListComp, ast.SetComp, ast.GeneratorExp, ast.DictComp)) and
                any(g_.ifs for g_ in e.generators) or isinstance(e, ast.IfExp) or
                isinstance(e, ast.Call) and dotted(e.func) in ("filter",)]
        ctx.ob(rule, f.site, not filt, "" if not filt else f"`{ast.unparse(filt[0])[:50]}` drops some of the dependencies depending on "
               "the current state of the RegRefs", role=f"ret{i}:unfiltered", line=r.lineno)
    g = ctx.tree.func("ops.py", "Operation.__init__")
    cfg = cfg_of(g.node)
    par = g.pos_params[1]
    upd = [n for n in walk_no_nested(g.node) if isinstance(n, ast.Call) and dotted(n.func) == "par_regref_deps"]
    if not upd:
        ctx.ob(rule, g.site, False, "Operation.__init__ does not call par_regref_deps: measured-parameter dependencies "
               "are never recorded", role="accumulate", line=g.node.lineno)
        return
    uid = cfg.node_of_expr(upd[0])[0]
    conds = cfg.branch_conditions(uid)
    loops = [h for h, lab in conds if cfg.node(h).kind == "for" and lab == TRUE]
    ok = False
    if loops:
        it = cfg.node(loops[0]).ast.iter
        ok = dotted(it) == par
        # no break / continue / return inside the loop; only for-header conditions govern the update
        body = cfg.node(loops[0]).ast
        if any(isinstance(x, (ast.Break, ast.Continue, ast.Return)) for x in ast.walk(body)):
            ok = False
        for hh, lab in conds:
            if cfg.node(hh).kind == "if":
                other = FALSE if lab == TRUE else TRUE
                if not cfg.ends_in_raise(hh, other):
                    ok = False  # a condition other than a raising guard decides whether the parameter is scanned
        arg = upd[0].args[0] if upd[0].args else None
        if not (isinstance(arg, ast.Name) and isinstance(body.target, ast.Name) and arg.id == body.target.id):
            ok = False
    st = cfg.node(uid).ast
    stores = isinstance(st, ast.AugAssign) and dotted(st.target) == "self._measurement_deps" or \
        (isinstance(st, ast.Expr) and "self._measurement_deps" in ast.unparse(st))
    ctx.ob(rule, g.site, ok and stores, "" if ok and stores else "the measured-parameter dependencies are not accumulated "
           "for every element of `par`", role="accumulate", line=upd[0].lineno)
    prop = ctx.tree.func("ops.py", "Operation.measurement_deps")
    ok = any(dotted(v) == "self._measurement_deps" for _, v in return_values(prop.node))
    ctx.ob(rule, prop.site, ok, "" if ok else "measurement_deps does not return the accumulated set", role="property",
           line=prop.node.lineno)
    h = ctx.tree.func("parameters.py", "par_regref_deps")
    rec = any(isinstance(n, ast.Call) and dotted(n.func) == "par_regref_deps" for n in walk_no_nested(h.node))
    atoms = [n for n in walk_no_nested(h.node) if isinstance(n, ast.Call) and isinstance(n.func, ast.Attribute)
             and n.func.attr == "atoms" and n.args and dotted(n.args[0]) == "MeasuredParameter"]
    regref = any(isinstance(n, ast.Attribute) and n.attr == "regref" for n in walk_no_nested(h.node))
    rets = [n for n in walk_no_nested(h.node) if isinstance(n, ast.Return) and n.value is not None]
    same = bool(rets) and all(isinstance(r.value, ast.Name) for r in rets)
    ctx.ob(rule, h.site, rec, "" if rec else "object arrays of parameters are no longer searched recursively",
           role="recursion", line=h.node.lineno)
    ctx.ob(rule, h.site, bool(atoms) and regref and same, "" if atoms and regref and same else
           "par_regref_deps does not collect the regref of every MeasuredParameter atom", role="atoms", line=h.node.lineno)
    ctx.floor(rule, 6)


def grid_key(ctx, rule="C04.grid-key"):
    ctx.explain(f"{rule}: list_to_grid files every command under exactly the wires of cmd.get_dependencies() (key r.ind), "
                "in input order; grid_to_DAG adds every command and an edge between each consecutive pair of a wire; "
                "DAG_to_list / lex_topo return a networkx topological sort of that DAG.")
    f = ctx.tree.func(PU, "list_to_grid")
    ok = False
    for outer in [n for n in walk_no_nested(f.node) if isinstance(n, ast.For)]:
        if dotted(outer.iter) != f.pos_params[0] or not isinstance(outer.target, ast.Name):
            continue
        cmdv = outer.target.id
        for inner in [n for n in ast.walk(outer) if isinstance(n, ast.For) and n is not outer]:
            it = inner.iter
            if isinstance(it, ast.Call) and dotted(it.func) == f"{cmdv}.get_dependencies" and isinstance(inner.target, ast.Name):
                r = inner.target.id
                for c in ast.walk(inner):
                    if isinstance(c, ast.Call) and isinstance(c.func, ast.Attribute) and c.func.attr == "append" and \
                            c.args and dotted(c.args[0]) == cmdv:
                        recv = c.func.value
                        key = None
                        if isinstance(recv, ast.Call) and isinstance(recv.func, ast.Attribute) and recv.func.attr == "setdefault":
                            key = recv.args[0]
                        elif isinstance(recv, ast.Subscript):
                            key = recv.slice
                        if key is not None and ast.unparse(key) == f"{r}.ind":
                            ok = True
    ctx.ob(rule, f.site, ok, "" if ok else "commands are not filed under r.ind for every r of cmd.get_dependencies()",
           role="file-under-deps", line=f.node.lineno)
    # ... for EVERY dependency of EVERY command: the filing is not conditional (no if / continue / break inside the loops)
    cond = [n for n in walk_no_nested(f.node) if isinstance(n, (ast.If, ast.Continue, ast.Break, ast.IfExp)) or
            isinstance(n, (ast.ListComp, ast.GeneratorExp, ast.SetComp)) and any(g_.ifs for g_ in n.generators)]
    ctx.ob(rule, f.site, not cond, "" if not cond else f"list_to_grid files commands conditionally (`{ast.unparse(cond[0])[:40]}`): a command "
           "that is left out of a wire is unordered with respect to the other commands of that wire (or vanishes altogether)",
           role="file-unconditionally", line=(cond[0].lineno if cond else f.node.lineno))
    g = ctx.tree.func(PU, "grid_to_DAG")
    edges = [n for n in walk_no_nested(g.node) if isinstance(n, ast.Call) and isinstance(n.func, ast.Attribute)
             and n.func.attr == "add_edge" and len(n.args) >= 2]
    ctx.require(edges, "grid_to_DAG adds no edges")
    ok = False
    for e in edges:
        a, b = e.args[0], e.args[1]
        if isinstance(a, ast.Subscript) and isinstance(b, ast.Subscript) and ast.unparse(a.value) == ast.unparse(b.value):
            ia, ib = ast.unparse(a.slice).replace(" ", ""), ast.unparse(b.slice).replace(" ", "")
            loop = getattr(e, "parent", None)
            while loop is not None and not isinstance(loop, ast.For):
                loop = getattr(loop, "parent", None)
            if loop is None or not isinstance(loop.target, ast.Name):
                continue
            v = loop.target.id
            rng = ast.unparse(loop.iter).replace(" ", "")
            q = ast.unparse(a.value)
            if (ia, ib) == (f"{v}-1", v) and rng == f"range(1,len({q}))":
                ok = True
            if (ia, ib) == (v, f"{v}+1") and rng == f"range(len({q})-1)":
                ok = True
    ctx.ob(rule, g.site, ok, "" if ok else "grid_to_DAG does not link every consecutive pair (q[i-1], q[i]) of each wire",
           role="consecutive-edges", line=edges[0].lineno)
    first = any(isinstance(n, ast.Call) and isinstance(n.func, ast.Attribute) and n.func.attr == "add_node"
                for n in walk_no_nested(g.node))
    ctx.ob(rule, g.site, first, "" if first else "a wire with a single command contributes no node: the command is lost",
           role="single-node", line=g.node.lineno)
    all_wires = any(isinstance(n, ast.For) and isinstance(n.iter, ast.Call) and isinstance(n.iter.func, ast.Attribute)
                    and n.iter.func.attr in ("items", "values") and dotted(n.iter.func.value) == g.pos_params[0]
                    or isinstance(n, ast.For) and dotted(n.iter) == g.pos_params[0] for n in walk_no_nested(g.node))
    ctx.ob(rule, g.site, all_wires, "" if all_wires else "grid_to_DAG does not iterate over all wires", role="all-wires",
           line=g.node.lineno)
    h = ctx.tree.func(PU, "DAG_to_list")
    rets = [n for n in walk_no_nested(h.node) if isinstance(n, ast.Return) and n.value is not None]
    ok = bool(rets) and all(any(c.endswith("topological_sort") for c in derives(h.node, r.value).calls) and
                            h.pos_params[0] in derives(h.node, r.value).params for r in rets)
    ctx.ob(rule, h.site, ok, "" if ok else "DAG_to_list does not return a topological sort of its argument", role="topo",
           line=h.node.lineno)
    lt = ctx.tree.func(PU, "group_operations.<locals>.lex_topo")
    rets = [n for n in walk_no_nested(lt.node) if isinstance(n, ast.Return) and n.value is not None]
    ok = bool(rets) and all(any(c.endswith("lexicographical_topological_sort") for c in derives(lt.node, r.value).calls)
                            and derives(lt.node, r.value).has_call("list_to_DAG") for r in rets)
    ctx.ob(rule, lt.site, ok, "" if ok else "lex_topo does not sort the dependency DAG of its sequence topologically",
           role="lex-topo", line=lt.node.lineno)
    ld = ctx.tree.func(PU, "list_to_DAG")
    rets = [n for n in walk_no_nested(ld.node) if isinstance(n, ast.Return) and n.value is not None]
    ok = bool(rets) and all(derives(ld.node, r.value).has_call("grid_to_DAG") and derives(ld.node, r.value).has_call("list_to_grid")
                            for r in rets)
    ctx.ob(rule, ld.site, ok, "" if ok else "list_to_DAG is not grid_to_DAG(list_to_grid(ls))", role="compose",
           line=ld.node.lineno)
    ctx.floor(rule, 7)


def partition(ctx, rule="C04.partition"):
    ctx.explain(f"{rule}: group_operations returns three slices A, B, C that are built from the sorted sequences by "
                "index splitting only (every command lands in exactly one part).")
    f = ctx.tree.func(PU, "group_operations")
    rets = return_values(f.node)
    ok = bool(rets) and all(isinstance(v, ast.Tuple) and len(v.elts) == 3 for _, v in rets)
    ctx.ob(rule, f.site, ok, "" if ok else "group_operations does not return (A, B, C)", role="triple", line=f.node.lineno)
    # complementary slices: X[:ind] and X[ind:] of the same list with the same index
    pairs = {}
    for n in walk_no_nested(f.node):
        if isinstance(n, ast.Assign) and isinstance(n.value, ast.Subscript) and isinstance(n.value.slice, ast.Slice):
            s = n.value.slice
            base = ast.unparse(n.value.value)
            if s.lower is None and s.upper is not None:
                pairs.setdefault((base, ast.unparse(s.upper)), []).append("lo")
            if s.upper is None and s.lower is not None:
                pairs.setdefault((base, ast.unparse(s.lower)), []).append("hi")
    n_pairs = sum(min(v.count("lo"), v.count("hi")) for v in pairs.values())
    unpaired = sum(abs(v.count("lo") - v.count("hi")) for v in pairs.values())
    ok = n_pairs >= 2 and unpaired == 0
    ctx.ob(rule, f.site, ok, "" if ok else "the sorted sequence is not split into complementary slices [:ind] / [ind:]: "
           "a command may be dropped or duplicated", role="complementary-slices", line=f.node.lineno)
    ctx.floor(rule, 2)


def gbs_guards(ctx, rule="C04.gbs-guards"):
    ctx.explain(f"{rule}: GBS.compile raises CircuitError when operations follow the Fock measurements, when there is no "
                "Fock measurement, when the marked block contains another operation, and when a mode is measured "
                "twice - each guard dominates the construction of the merged measurement, whose register is the "
                "union of all measured registers sorted by index.")
    f = ctx.tree.func("compilers/gbs.py", "GBS.compile")
    cfg = cfg_of(f.node)
    cmds = [n for n in walk_no_nested(f.node) if isinstance(n, ast.Call) and dotted(n.func) == "Command"]
    ctx.require(cmds, "GBS.compile no longer builds the merged measurement command")
    cid = cfg.node_of_expr(cmds[0])[0]
    rd = rd_of(f.node)
    grp = None
    for ds in rd.defs_at.values():
        for d in ds:
            if d.kind == "unpack" and isinstance(d.value, ast.Call) and dotted(d.value.func) == "group_operations":
                grp = grp or {}
                grp[d.index[0]] = d.var
    ctx.require(grp and len(grp) == 3, "GBS.compile no longer unpacks group_operations into A, B, C")
    A, Bn, C = grp[0], grp[1], grp[2]
    feats = {"trailing": False, "no-measurement": False, "foreign-op": False, "measured-twice": False}
    def names(a):
        return {x.id for x in ast.walk(a) if isinstance(x, ast.Name)}

    for n, exc, fs in raise_facts(f):
        dom = cfg.dominates(n.id, cid)
        for a, truth in fs:
            a = expand_locals(f.node, a)
            nm = names(a)
            # `if C:` / `if len(C) > 0:` raise  -  the raising case is 'C non-empty'
            if dom and C in nm and not (isinstance(a, ast.Name) and not truth):
                feats["trailing"] = True
            if dom and Bn in nm and not (isinstance(a, ast.Name) and truth):
                feats["no-measurement"] = True
            if isinstance(a, ast.Call) and dotted(a.func) == "isinstance" and "MeasureFock" in ast.unparse(a) and not truth:
                feats["foreign-op"] = True
            if any(isinstance(x, ast.BinOp) and isinstance(x.op, ast.BitAnd) for x in ast.walk(a)) or \
                    any(isinstance(x, ast.Call) and isinstance(x.func, ast.Attribute) and
                        x.func.attr in ("intersection", "isdisjoint") for x in ast.walk(a)):
                feats["measured-twice"] = True
    for k, v in feats.items():
        ctx.ob(rule, f.site, v, "" if v else f"GBS.compile lost its raising CircuitError guard for '{k}'", role=f"guard:{k}",
               line=f.node.lineno)
    for n in walk_no_nested(f.node):
        if isinstance(n, ast.Raise) and n.exc is not None:
            nm = dotted(n.exc.func) if isinstance(n.exc, ast.Call) else dotted(n.exc)
            ok = nm == "CircuitError"
            ctx.ob(rule, f.site, ok, "" if ok else f"raises {nm} instead of CircuitError", role="raise-type", line=n.lineno)
    reg = cmds[0].args[1] if len(cmds[0].args) > 1 else None
    d = derives(f.node, reg) if reg is not None else None
    ok = d is not None and d.has_call("sorted") and any(isinstance(e, ast.Attribute) and e.attr == "ind" for e in d.exprs) \
        and any(isinstance(e, ast.Attribute) and e.attr == "reg" for e in d.exprs)
    ctx.ob(rule, f.site, ok, "" if ok else "the register of the merged measurement is not the union of the measured "
           "registers sorted by index", role="merged-register", line=cmds[0].lineno)
    rets = [n for n in walk_no_nested(f.node) if isinstance(n, ast.Return) and n.value is not None]
    ok = bool(rets) and all(A in {x.id for x in ast.walk(resolve_local(f.node, r.value)) if isinstance(x, ast.Name)}
                            or any(dd.var == A for dd in derives(f.node, r.value).defs) for r in rets)
    ctx.ob(rule, f.site, ok, "" if ok else "the leading (Gaussian) part A is not passed on", role="keeps-A", line=f.node.lineno)
    ctx.floor(rule, 9)


def conservation(ctx, rule="C04.conservation"):
    ctx.explain(f"{rule}: list_to_grid, grid_to_DAG, DAG_to_list, list_to_DAG and group_operations construct no Command "
                "and delete nothing.")
    for qn in ("list_to_grid", "grid_to_DAG", "DAG_to_list", "list_to_DAG", "group_operations"):
        f = ctx.tree.func(PU, qn)
        bad = None
        for n in ast.walk(f.node):
            if isinstance(n, ast.Call) and dotted(n.func) == "Command":
                bad = n
            if isinstance(n, ast.Delete):
                bad = n
            if isinstance(n, ast.Call) and isinstance(n.func, ast.Attribute) and n.func.attr in ("remove", "pop", "clear",
                                                                                                   "remove_node", "remove_edge"):
                bad = n
        ctx.ob(rule, f.site, bad is None, "" if bad is None else f"`{ast.unparse(bad)[:50]}` constructs or drops commands "
               "inside a pure reordering routine", role="pure", line=(bad.lineno if bad is not None else f.node.lineno))
    ctx.floor(rule, 5)


def register_index(ctx, rule="C04.register-index"):
    ctx.explain(f"{rule}: the `registers` argument of Compiler.compile is Program.register - positional over the *active* "
                "modes.  In every compiler that accepts mode deletion / creation (_Delete, _New_modes among its "
                "primitives) it is never subscripted with a value derived from a mode index (.ind): positions and "
                "indices differ as soon as a lower mode has been deleted.")
    from ..tables import CompilerTable
    ct = CompilerTable(ctx.tree)
    n = 0
    for cn, cls in sorted(ct.compilers.items()):
        if not ({"_Delete", "_New_modes"} & ct.primitives[cn]):
            continue
        f = cls.methods.get("compile")
        if f is None or "registers" not in f.params:
            continue
        n += 1
        bad = None
        for x in walk_no_nested(f.node):
            if isinstance(x, ast.Subscript) and dotted(x.value) == "registers" and not isinstance(x.slice, ast.Slice):
                d = derives(f.node, x.slice)
                if any(isinstance(e, ast.Attribute) and e.attr == "ind" for e in d.exprs):
                    bad = x
        ctx.ob(rule, f.site, bad is None, "" if bad is None else
               f"`{ast.unparse(bad)}` looks a register up by position with a mode index: after `Del | q[0]` the command "
               "lands on another mode", role="registers-by-ind", line=(bad.lineno if bad is not None else f.node.lineno))
    ctx.require(n >= 3, f"only {n} compilers that accept deletions implement compile()")
    ctx.floor(rule, 3)


def rules(ctx):
    register_index(ctx)
    dep_key(ctx)
    grid_key(ctx)
    partition(ctx)
    gbs_guards(ctx)
    conservation(ctx)
    # the optimiser works on the same per-wire grid: its bookkeeping of multi-wire commands and of the position of a merged
    # command decides whether commands that share a mode / a measured parameter keep their order (shared with C03)
    from . import c03
    c03.wire_uniqueness(ctx, "C04.optimizer-order")
    ctx.shared(c03.no_mutation)
