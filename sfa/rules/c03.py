"""C03 - optimisation never changes what a program computes (structural clauses)."""
from __future__ import annotations

import ast

from ..cfg import cfg_of, T as TRUE, F as FALSE
from ..dataflow import MUTATORS, derives, rd_of
from .common_guard import path_facts, raise_facts, rel, sufficient
from ..loader import dotted, walk_no_nested
from ..tables import op_classes

ADDITIVE = {  # Gate.merge adds p[0]: sound iff U(a) U(b) = U(a + b) with the other parameters equal
    "Dgate": "D(r1, phi) D(r2, phi) = D(r1 + r2, phi) (same direction phi)",
    "Xgate": "X(x) = exp(-i x p/hbar)", "Zgate": "Z(p) = exp(i p x/hbar)",
    "Sgate": "S(r1, phi) S(r2, phi) = S(r1 + r2, phi)", "Pgate": "P(s) = exp(i s x^2/(2 hbar))",
    "Vgate": "V(g) = exp(i g x^3/(3 hbar))", "Kgate": "K(k) = exp(i k n^2)", "Rgate": "R(t) = exp(i t n)",
    "BSgate": "BS(t, phi) = exp(t (e^{i phi} a b^dag - h.c.))", "S2gate": "S2(r, phi) = exp(r (e^{-i phi} a b - h.c.))",
    "CXgate": "CX(s) = exp(-i s x1 p2/hbar)", "CZgate": "CZ(s) = exp(i s x1 x2/hbar)", "CKgate": "CK(k) = exp(i k n1 n2)",
}
MULTIPLICATIVE = {  # Channel.merge multiplies p[0]
    "LossChannel": "loss channels compose by multiplying transmissivities",
    "ThermalLossChannel": "same nbar: transmissivities multiply (fixed point nbar is kept)",
    "PassiveChannel": "linear transfer matrices compose by matrix product (np.dot(other, self))",
}


NOT_GROUP_IN_P0 = {  # families for which the inherited combination law is provably not the composition law
    "MZgate": "MZ(a, b) = BS R1(a) BS R1(b): MZ(a1, b) MZ(a2, b) != MZ(a1 + a2, b)",
    "sMZgate": "sMZ(a, b) = BS (R(a) x R(b)) BS: not additive in a",
    "Ggate": "p[0] is a symplectic matrix: composition is the matrix product, not the sum",
    "MSgate": "p[0] is a squeezing magnitude r: measurement-based squeezers compose additively in r, not by r1 * r2",
}


def merge_family(ctx, rule="C03.merge-family"):
    ctx.explain(f"{rule}: each concrete operation class resolves (through the MRO) to a merge rule; classes that inherit "
                "Gate.merge (adds p[0]) / Channel.merge (multiplies p[0]) must be in the frozen table of families for "
                "which that is the composition law; plus the table-free contradiction: a class inheriting Gate.merge "
                "whose _apply/_decompose never read p[0] cannot reflect a summed parameter.")
    ctx.trust("ADDITIVE / MULTIPLICATIVE family tables in sfa/rules/c03.py (generator formula per class)")
    ops = op_classes(ctx.tree)
    gm = ctx.tree.func("ops.py", "Gate.merge")
    cm = ctx.tree.func("ops.py", "Channel.merge")
    abstract = {"Operation", "Gate", "Channel", "Transformation", "Preparation", "Measurement", "Decomposition",
                "MetaOperation"}
    for name, c in sorted(ops.items()):
        if name in abstract:
            continue
        m = c.lookup("merge")
        if m is gm:
            # contradiction rule
            reads_p0 = False
            for meth in ("_apply", "_decompose"):
                f = c.methods.get(meth)
                if f is None:
                    continue
                for n in walk_no_nested(f.node):
                    if isinstance(n, ast.Subscript) and dotted(n.value) == "self.p":
                        if isinstance(n.slice, ast.Constant) and n.slice.value == 0 or not isinstance(n.slice, ast.Constant):
                            reads_p0 = True
                    if isinstance(n, ast.Call) and dotted(n.func) == "par_evaluate" and n.args and dotted(n.args[0]) == "self.p":
                        reads_p0 = True
            if not reads_p0:
                ctx.ob(rule, c.site, False, f"{name} inherits Gate.merge (sums p[0]) but neither _apply nor _decompose reads "
                       "p[0]: two merged gates act like one", role="merge:ignores-p0", line=c.node.lineno)
                continue
            if name not in ADDITIVE and name not in NOT_GROUP_IN_P0:
                ctx.note(f"{rule}: {name} inherits Gate.merge and is in neither family table: unclassified")
                continue
            ok = name in ADDITIVE
            ctx.ob(rule, c.site, ok, "" if ok else f"{name} inherits Gate.merge, but adding first parameters is not its "
                   f"composition law: {NOT_GROUP_IN_P0.get(name)}", role="merge:additive", line=c.node.lineno)
        elif m is cm:
            if name not in MULTIPLICATIVE and name not in NOT_GROUP_IN_P0:
                ctx.note(f"{rule}: {name} inherits Channel.merge and is in neither family table: unclassified")
                continue
            ok = name in MULTIPLICATIVE
            ctx.ob(rule, c.site, ok, "" if ok else f"{name} inherits Channel.merge, but multiplying first parameters is not "
                   f"its composition law: {NOT_GROUP_IN_P0.get(name)}", role="merge:multiplicative", line=c.node.lineno)
        else:
            ctx.ob(rule, c.site, True, role=f"merge:{m.qualname if m else 'none'}", line=c.node.lineno)
    ctx.floor(rule, 40)


def merge_guards(ctx, rule="C03.merge-guards"):
    ctx.explain(f"{rule}: in Gate.merge and Channel.merge every non-raising return is dominated by a class-identity test "
                "and a comparison of p[1:] of both operands; Gate.merge reads dagger of both and the sign of the added "
                "parameter depends on it; the result is a copy with a new parameter list.")
    for qn, is_gate in (("Gate.merge", True), ("Channel.merge", False)):
        f = ctx.tree.func("ops.py", qn)
        cfg = cfg_of(f.node)
        other = f.pos_params[1]
        rets = [n for n in walk_no_nested(f.node) if isinstance(n, ast.Return)]
        ctx.require(rets, f"{qn} has no return")
        cls_guard = [n.id for n in cfg.nodes if n.kind == "if" and "__class__" in ast.unparse(n.ast)
                     and (cfg.ends_in_raise(n.id, TRUE) or cfg.ends_in_raise(n.id, FALSE))]
        for i, r in enumerate(rets):
            rid = cfg.find(r)[0]
            conds = cfg.branch_conditions(rid)
            ok_cls = any(cfg.dominates(g, rid) for g in cls_guard)
            ok_rest = False
            for h, lab in conds:
                t = cfg.node(h).ast
                if cfg.node(h).kind == "if" and isinstance(t, ast.Compare) and isinstance(t.ops[0], ast.Eq) and lab == TRUE:
                    l, rr = ast.unparse(t.left), ast.unparse(t.comparators[0])
                    if {l, rr} == {"self.p[1:]", f"{other}.p[1:]"}:
                        ok_rest = True
            ctx.ob(rule, f.site, ok_cls, "" if ok_cls else "a merged result is returned without the class-identity test",
                   role=f"ret{i}:class", line=r.lineno)
            ctx.ob(rule, f.site, ok_rest, "" if ok_rest else "a merged result is returned without comparing the remaining "
                   "parameters p[1:] of both operations", role=f"ret{i}:rest", line=r.lineno)
        # the copy
        stores = [n for n in walk_no_nested(f.node) if isinstance(n, ast.Assign) and isinstance(n.targets[0], ast.Attribute)
                  and n.targets[0].attr == "p"]
        ok = bool(stores)
        for s_ in stores:
            recv = dotted(s_.targets[0].value)
            rd = rd_of(f.node)
            ds = rd.reaching(recv, cfg.find(s_)[0]) if recv else set()
            if recv in ("self", other) or not ds or not all(
                    d.kind == "assign" and isinstance(d.value, ast.Call) and dotted(d.value.func) in ("copy.copy", "copy.deepcopy")
                    for d in ds if not d.weak):
                ok = False
            if not isinstance(s_.value, ast.BinOp) and not isinstance(s_.value, ast.List):
                ok = False
        ctx.ob(rule, f.site, ok, "" if ok else "the merged parameters are stored into an operand instead of a copy with a "
               "new list", role="copy", line=f.node.lineno)
        for n in walk_no_nested(f.node):
            if isinstance(n, ast.Assign) and isinstance(n.targets[0], ast.Subscript) and \
                    dotted(n.targets[0].value) in ("self.p", f"{other}.p"):
                ctx.ob(rule, f.site, False, "merge writes into the parameter list of an operand", role="no-store-into-operand",
                       line=n.lineno)
        if is_gate:
            # sign law by finite case split: for each (self.dagger, other.dagger) the effective parameter
            # sign(dagger) * p[0] of the result equals the sum of the effective parameters of the operands
            from ..signeval import Interp, Lin, Obj, PList, Rest, Returned, Raised, Unknown, sgn
            for d1 in (False, True):
                for d2 in (False, True):
                    me = Obj("self", {"dagger": d1, "p": PList(Lin({"a": 1}), Rest("rest"))})
                    ot = Obj("other", {"dagger": d2, "p": PList(Lin({"b": 1}), Rest("rest"))})
                    it = Interp({f.pos_params[0]: me, other: ot})
                    role = f"sign-law:self.dagger={d1},other.dagger={d2}"
                    try:
                        it.run(f.node.body)
                        ctx.na(rule, f.site, f"{role}: no return reached")
                        continue
                    except Returned as r:
                        res = r.v
                    except Raised:
                        ctx.ob(rule, f.site, False, "merge of two gates of one family with equal remaining parameters "
                               "raises", role=role, line=f.node.lineno)
                        continue
                    except Unknown as e:
                        ctx.na(rule, f.site, f"{role}: construct not modelled by the sign evaluator ({e})")
                        continue
                    if not isinstance(res, Obj) or not isinstance(res.attrs.get("p"), PList):
                        ctx.na(rule, f.site, f"{role}: result not an operation copy")
                        continue
                    p0 = res.attrs["p"].first
                    rd_ = res.attrs.get("dagger")
                    ok = isinstance(p0, Lin) and isinstance(rd_, bool) and \
                        p0 * sgn(rd_) == Lin({"a": sgn(d1), "b": sgn(d2)})
                    ctx.ob(rule, f.site, ok, "" if ok else
                           f"with self.dagger={d1}, other.dagger={d2} the merged gate has dagger={rd_} and p[0]={getattr(p0, 'd', p0)}"
                           f": its effective parameter is not ({sgn(d1):+d})*a + ({sgn(d2):+d})*b, i.e. not the composition",
                           role=role, line=f.node.lineno)
            # identity only when the sum is exactly zero
            # some `return None` is reached exactly under the fact <sum> == 0
            ok = False
            for nd in cfg.nodes:
                if nd.kind == "stmt" and isinstance(nd.ast, ast.Return) and \
                        (nd.ast.value is None or isinstance(nd.ast.value, ast.Constant) and nd.ast.value.value is None):
                    for a_, v_ in path_facts(cfg, nd.id):
                        r_ = rel(a_, v_)
                        if r_ is not None and r_[0] == "==" and any(isinstance(x, ast.Constant) and x.value == 0 and
                                                                    not isinstance(x.value, bool) for x in (r_[1], r_[2])):
                            ok = True
            ctx.ob(rule, f.site, ok, "" if ok else "None (identity) is not returned exactly when the summed parameter is 0",
                   role="identity-on-zero", line=f.node.lineno)
    ctx.floor(rule, 12)


def wire_uniqueness(ctx, rule="C03.wire-uniqueness"):
    ctx.explain(f"{rule}: the per-wire lists of optimize_circuit are keyed by get_dependencies(), so a command with a "
                "measured parameter sits on several wires; the merge site is dominated by a test that excludes such "
                "commands (and multi-mode ones).")
    f = ctx.tree.func("program_utils.py", "optimize_circuit")
    cfg = cfg_of(f.node)
    merges = [n for n in walk_no_nested(f.node) if isinstance(n, ast.Call) and isinstance(n.func, ast.Attribute)
              and n.func.attr == "merge"]
    ctx.require(merges, "optimize_circuit no longer calls .merge")
    mid = cfg.node_of_expr(merges[0])[0]
    conds = cfg.branch_conditions(mid)
    deps = ns = same = False
    for h, lab in conds:
        t = ast.unparse(cfg.node(h).ast)
        if "measurement_deps" in t or "get_dependencies" in t:
            # the merge must lie on the branch where no operand has measurement deps
            deps = True
        if ".ns" in t:
            ns = True
        if ".reg" in t:
            same = True
    ctx.ob(rule, f.site, deps, "" if deps else "operations with measured parameters (filed under several wires) can be "
           "merged wire by wire: the merged command is emitted once per wire", role="guard:multi-wire", line=merges[0].lineno)
    # ... for BOTH commands of the pair: each operand of the merge is examined by a dominating multi-wire test
    mc0 = merges[0]
    opnds = []
    for e in [mc0.func.value] + list(mc0.args[:1]):
        r_ = e
        while isinstance(r_, (ast.Attribute, ast.Subscript)):
            r_ = r_.value
        if isinstance(r_, ast.Name):
            opnds.append(r_.id)
    for k_, nm_ in enumerate(opnds):
        seen_ = False
        for h, lab in conds:
            for x in ast.walk(cfg.node(h).ast):
                if isinstance(x, ast.Attribute) and x.attr in ("measurement_deps", "get_dependencies"):
                    r_ = x.value
                    while isinstance(r_, (ast.Attribute, ast.Subscript, ast.Call)):
                        r_ = r_.func if isinstance(r_, ast.Call) else r_.value
                    if isinstance(r_, ast.Name) and r_.id == nm_:
                        seen_ = True
        ctx.ob(rule, f.site, seen_, "" if seen_ else f"the multi-wire test ahead of the merge does not look at the "
               f"{'earlier' if k_ == 0 else 'later'} command of the pair: a gate with a measured parameter is merged on one of "
               "its wires only", role=f"guard:multi-wire:operand{k_}", line=mc0.lineno)
    ctx.ob(rule, f.site, ns, "" if ns else "multi-mode operations reach the merge", role="guard:ns", line=merges[0].lineno)
    ctx.ob(rule, f.site, same, "" if same else "operations on different registers reach the merge", role="guard:same-reg",
           line=merges[0].lineno)
    # documented convention: self.merge(other) returns other * self, so the receiver is the EARLIER command
    mc = merges[0]
    rd = rd_of(f.node)
    def wire_idx(e):
        # the subscript expression of the wire list the operand <name>.op was read from
        if not (isinstance(e, ast.Attribute) and e.attr == "op" and isinstance(e.value, ast.Name)):
            return None
        out = set()
        for d in rd.reaching(e.value.id, mid):
            v = d.value
            if d.kind == "assign" and isinstance(v, ast.Subscript):
                out.add(ast.unparse(v.slice).replace(" ", ""))
            else:
                out.add(None)
        return out.pop() if len(out) == 1 else None
    ir, ia = wire_idx(mc.func.value), wire_idx(mc.args[0]) if mc.args else None
    if ir is None or ia is None or not (ia in (f"{ir}+1", f"1+{ir}") or ir in (f"{ia}+1", f"1+{ia}")):
        ctx.na(rule, f.site, "operands of the merge call not recognised as q[i] / q[i + 1]")
    else:
        ok = ia in (f"{ir}+1", f"1+{ir}")
        ctx.ob(rule, f.site, ok, "" if ok else "the later command is the receiver of merge(): order-sensitive merges "
               "(Preparation.merge returns `other`, Decomposition.merge returns U2 @ U1) keep / compose the wrong way round",
               role="merge-order", line=mc.lineno)
    # the merged command acts on the register of the merged pair and replaces exactly the pair
    ins = [n for n in walk_no_nested(f.node) if isinstance(n, ast.Call) and dotted(n.func) == "Command"]
    ok = bool(ins) and all(len(c.args) == 2 and (dotted(c.args[1]) or "").endswith(".reg") for c in ins)
    ctx.ob(rule, f.site, ok, "" if ok else "the merged command is not placed on the register of the merged operations",
           role="merged-reg", line=f.node.lineno)
    # commands leave the circuit only as a merged pair: the grid is built from the unfiltered input and every
    # deletion is dominated by the (successful) merge call
    grids = [n for n in walk_no_nested(f.node) if isinstance(n, ast.Call) and dotted(n.func) == "list_to_grid"]
    ctx.require(grids, "optimize_circuit no longer builds the wire grid with list_to_grid")
    for gcall in grids:
        d = derives(f.node, gcall.args[0]) if gcall.args else None
        filt = d is None or f.pos_params[0] not in d.params or any(
            isinstance(e, (ast.ListComp, ast.GeneratorExp)) and any(g.ifs for g in e.generators) or
            isinstance(e, ast.Call) and dotted(e.func) in ("filter", "itertools.filterfalse") or
            isinstance(e, ast.Subscript) and isinstance(e.slice, ast.Slice) for e in d.exprs)
        ctx.ob(rule, f.site, not filt, "" if not filt else "the wire grid is built from a filtered / sliced copy of the input: "
               "commands are dropped without having been merged with a neighbour", role="unfiltered-input", line=gcall.lineno)
    k = 0
    for n in walk_no_nested(f.node):
        is_del = isinstance(n, ast.Delete) or isinstance(n, ast.Call) and isinstance(n.func, ast.Attribute) and \
            n.func.attr in ("pop", "remove", "clear", "popitem")
        if not is_del:
            continue
        k += 1
        ids = cfg.node_of_expr(n) if not isinstance(n, ast.Delete) else cfg.find(n)
        ok = bool(ids) and cfg.dominates(mid, ids[0])
        ctx.ob(rule, f.site, ok, "" if ok else f"`{ast.unparse(n)[:50]}` removes commands without a successful merge of "
               "the removed pair", role=f"delete-after-merge{k}", line=n.lineno)
    # the merged command takes the place of the pair: it is inserted at the index the pair was deleted from, with no
    # change of that index in between
    rd2 = rd_of(f.node)
    dels = [n for n in walk_no_nested(f.node) if isinstance(n, ast.Delete) and n.targets and isinstance(n.targets[0], ast.Subscript)
            and isinstance(n.targets[0].slice, ast.Slice) and n.targets[0].slice.lower is not None]
    inss = [n for n in walk_no_nested(f.node) if isinstance(n, ast.Call) and isinstance(n.func, ast.Attribute) and
            n.func.attr == "insert" and len(n.args) == 2]
    if dels and inss:
        dl, ins = dels[0], inss[0]
        same_txt = ast.unparse(dl.targets[0].slice.lower) == ast.unparse(ins.args[0]) and \
            dotted(dl.targets[0].value) == dotted(ins.func.value)
        same_def = True
        di, ii = cfg.find(dl), cfg.node_of_expr(ins)
        for x in ast.walk(ins.args[0]):
            if isinstance(x, ast.Name) and di and ii:
                same_def = same_def and set(rd2.reaching(x.id, di[0])) == set(rd2.reaching(x.id, ii[0]))
        ok = same_txt and same_def
        ctx.ob(rule, f.site, ok, "" if ok else f"`{ast.unparse(ins)[:50]}` does not put the merged command where the pair was "
               f"deleted (`{ast.unparse(dl)[:30]}`; index changed in between: {not same_def}): the merged gate moves across "
               "its neighbours on the wire", role="replace-in-place", line=ins.lineno)
    else:
        ctx.na(rule, f.site, "deletion of the pair / insertion of the merged command not recognised")
    # MergeFailure is the only exception swallowed
    hs = [h for n in walk_no_nested(f.node) if isinstance(n, ast.Try) for h in n.handlers]
    ok = bool(hs) and all(h.type is not None and dotted(h.type) == "MergeFailure" for h in hs)
    ctx.ob(rule, f.site, ok, "" if ok else "optimize_circuit swallows exceptions other than MergeFailure", role="except",
           line=f.node.lineno)
    ctx.floor(rule, 5)


def no_mutation(ctx, rule="C03.no-mutation"):
    ctx.explain(f"{rule}: optimize_circuit / list_to_grid / grid_to_DAG / DAG_to_list mutate only containers created in "
                "the call (never the input sequence or its commands); Program.optimize assigns only to the linked copy.")
    for qn in ("optimize_circuit", "list_to_grid", "grid_to_DAG", "DAG_to_list", "list_to_DAG", "group_operations"):
        f = ctx.tree.func("program_utils.py", qn)
        rd = rd_of(f.node)
        params = set(f.params)
        bad = None
        for nd in rd.cfg.nodes:
            st = nd.ast
            if st is None:
                continue
            for n in walk_no_nested(st):
                recv = None
                if isinstance(n, ast.Call) and isinstance(n.func, ast.Attribute) and n.func.attr in MUTATORS and \
                        n.func.attr not in ("add_node", "add_edge"):
                    recv = n.func.value
                elif isinstance(n, ast.Delete):
                    for t in n.targets:
                        x = t
                        while isinstance(x, ast.Subscript):
                            x = x.value
                        recv = x
                elif isinstance(n, (ast.Assign, ast.AugAssign)):
                    tg = n.targets if isinstance(n, ast.Assign) else [n.target]
                    for t in tg:
                        if isinstance(t, (ast.Subscript, ast.Attribute)):
                            x = t
                            while isinstance(x, (ast.Subscript, ast.Attribute)):
                                x = x.value
                            recv = x
                if recv is None:
                    continue
                root = recv
                while isinstance(root, (ast.Subscript, ast.Attribute)):
                    root = root.value
                if not isinstance(root, ast.Name):
                    continue
                ds = rd.reaching(root.id, nd.id)
                strong = [d for d in ds if not d.weak]
                if any(d.kind == "param" for d in strong):
                    bad = n
                    continue
                # q = grid[k] / q in grid.values(): the root container must itself be created here
                for d in strong:
                    if d.value is None:
                        continue
                    dv = derives(f.node, d.value, d.node)
                    if dv.params & params and not (dv.has_call("list_to_grid") or dv.has_call("setdefault")
                                                   or dv.has_call("list") or dv.has_call("DiGraph") or dv.has_call("copy")
                                                   or isinstance(d.value, (ast.Dict, ast.List))):
                        bad = n
        ctx.ob(rule, f.site, bad is None, "" if bad is None else
               f"`{ast.unparse(bad)[:60]}` modifies an object that belongs to the caller", role="mutates-input",
               line=(bad.lineno if bad is not None else f.node.lineno))
    ctx.floor(rule, 6)


def rules(ctx):
    from . import c09
    c09.writers(ctx, "C03.effects")
    merge_family(ctx)
    merge_guards(ctx)
    wire_uniqueness(ctx)
    no_mutation(ctx)
    from . import c02 as _c02
    _c02.zero_is_identity(ctx, "C03.generic-zero-test")
    merge_more(ctx)
    option_polarity(ctx)


def option_polarity(ctx, rule="C03.no-mutation"):
    ctx.explain(f"{rule}: (the compile option) Program.compile optimises exactly when asked: the call of optimize_circuit is control-dependent "
                "on the `optimize` option with POSITIVE polarity (a path fact `kwargs.get('optimize', ...)` / the option's local that holds "
                "true), so that the default compile leaves the circuit as decomposed and `optimize=True` runs the optimiser.")
    f = ctx.tree.func("program.py", "Program.compile")
    cfg = cfg_of(f.node)
    from ..dataflow import expand_locals
    n = 0
    for c in walk_no_nested(f.node):
        if not isinstance(c, ast.Call) or (dotted(c.func) or "").split(".")[-1] != "optimize_circuit":
            continue
        ids = cfg.node_of_expr(c)
        if not ids:
            continue
        n += 1
        pos = neg = False
        for a, v in path_facts(cfg, ids[0]):
            t = ast.unparse(expand_locals(f.node, a))
            if "optimize" in t and ("kwargs" in t or "get(" in t):
                r_ = rel(a, v)
                if r_ is not None:
                    # comparisons with a literal: `== True`, `is True`, `!= False` are positive, `== False` negative
                    lit = [x.value for x in (r_[1], r_[2]) if isinstance(x, ast.Constant) and isinstance(x.value, bool)]
                    if lit:
                        truth = (r_[0] in ("==", "is")) == lit[0]
                        pos, neg = pos or truth, neg or not truth
                        continue
                pos, neg = pos or bool(v), neg or not v
        ok = pos and not neg
        ctx.ob(rule, f.site, ok, "" if ok else f"`{ast.unparse(c)[:40]}` is not reached exactly when the `optimize` option holds "
               f"({'negated' if neg else 'not tested'}): the default compile optimises, or optimize=True does not", role="optimize-option", line=c.lineno)
    ctx.require(n >= 1, "Program.compile no longer calls optimize_circuit")


def merge_more(ctx, rule="C03.merge-guards"):
    from ..tables import op_classes
    ctx.explain(f"{rule}: (all merge rules) every `merge` method of an operation class that builds its result from `other.p` while "
                "`other` can be a Gate reads `other.dagger` (a daggered gate folded in by its parameters alone is applied un-daggered); "
                "a merge that answers None (identity) after comparing a matrix with the identity compares with np.identity / np.eye "
                "itself, not with a multiple of it (a global phase exp(i phi) on every mode is a rotation, not the identity).")
    ops = op_classes(ctx.tree)
    gate = ops.get("Gate")
    n = 0
    for cn, c in sorted(ops.items()):
        f = c.methods.get("merge")
        if f is None or len(f.pos_params) < 2:
            continue
        other = f.pos_params[1]
        reads_p = any(isinstance(x, ast.Attribute) and x.attr == "p" and dotted(x.value) == other for x in walk_no_nested(f.node))
        reads_d = any(isinstance(x, ast.Attribute) and x.attr == "dagger" and dotted(x.value) == other for x in walk_no_nested(f.node))
        if reads_p:
            # which classes can `other` have where its parameters are used?
            may_gate = False
            tested = []
            for x in walk_no_nested(f.node):
                if isinstance(x, ast.Call) and dotted(x.func) == "isinstance" and len(x.args) == 2 and dotted(x.args[0]) == other:
                    for z in (x.args[1].elts if isinstance(x.args[1], ast.Tuple) else [x.args[1]]):
                        tested.append(dotted(z) or "")
            if not tested:
                may_gate = gate is not None and gate in c.mro()
            for t_ in tested:
                nm = t_.split(".")[-1]
                if t_ == "self.__class__":
                    may_gate = may_gate or (gate is not None and gate in c.mro())
                elif nm in ops and gate is not None and gate in ops[nm].mro():
                    may_gate = True
            if may_gate:
                n += 1
                ctx.ob(rule, f.site, reads_d, "" if reads_d else f"{cn}.merge builds its result from `{other}.p` of a gate without looking "
                       f"at `{other}.dagger`: a daggered gate is merged as if it were not daggered", role="reads-other-dagger",
                       line=f.node.lineno)
        # identity comparison of a merged matrix
        for x in walk_no_nested(f.node):
            if isinstance(x, ast.Call) and (dotted(x.func) or "").split(".")[-1] == "allclose" and len(x.args) >= 2:
                for a in x.args[:2]:
                    if any(isinstance(y, ast.Call) and dotted(y.func) in ("np.identity", "np.eye") for y in ast.walk(a)):
                        n += 1
                        ok = isinstance(a, ast.Call) and dotted(a.func) in ("np.identity", "np.eye")
                        ctx.ob(rule, f.site, ok, "" if ok else f"`{ast.unparse(a)[:50]}`: the merged matrix is compared with a multiple of "
                               "the identity - a product that is a global phase / parity is cancelled as if it did nothing",
                               role="identity-test-exact", line=x.lineno)
    return n
