"""Rules on the N/M-matrix simulator (GaussianModes): footprint, mirror, dead stores, coverage,
activity guards.  Shared by C01, C05, C07, C08."""
from __future__ import annotations

import ast
from typing import Dict, List, Set

from ..cfg import cfg_of, T as TRUE, F as FALSE
from ..dataflow import rd_of
from ..footprint import ALL, IndexEnv, Store, covers, loads, overlap, stores
from ..loader import FuncInfo, dotted, walk_no_nested
from ..modekind import mode_kinds

GAUSS = "backends/gaussianbackend/gaussiancircuit.py"
ARRAYS2 = ("nmat", "mmat")
ARRAYS = ("nmat", "mmat", "mean")


def _cls(ctx):
    return ctx.tree.cls(GAUSS, "GaussianModes")


def _term_txt(t):
    if t[0] == "allbut":
        return "allbut{" + ",".join(sorted(t[1])) + "}"
    return ":".join(str(x) for x in t)


def _store_role(s: Store) -> str:
    return "store:" + s.array + "[" + ",".join(_term_txt(t) for t in s.idx) + "]" + ("+=" if s.aug else "")


def gauss_methods(ctx):
    cls = _cls(ctx)
    mk = mode_kinds(ctx.tree)
    for name, f in sorted(cls.methods.items()):
        yield f, set(mk.of(f))


# ------------------------------------------------------------------------------------------
def footprint(ctx, rule):
    """every store into nmat / mmat / mean of a method that receives mode indices addresses a row or a
    column (cell, for `mean`) selected by one of those mode parameters"""
    ctx.explain(f"{rule}: write footprint of every subscript store on GaussianModes.nmat/mmat/mean is confined "
                "to rows/columns selected by the method's mode-kind parameters (mode kinds inferred from the "
                "backend API through call sites).")
    nst = 0
    for f, tp in gauss_methods(ctx):
        if not tp:
            continue
        env = IndexEnv(f)
        for s in stores(f, ARRAYS, env):
            nst += 1
            site = f.site
            if s.whole:
                ctx.ob(rule, site, False,
                       f"whole-array store `{ast.unparse(s.stmt).strip()[:80]}` in a method that acts on mode(s) "
                       f"{sorted(tp)}: touches every mode of the register", role=f"store:{s.array}:whole",
                       line=s.stmt.lineno)
                continue
            if any(t[0] == "unk" for t in s.idx) and not any(covers(t, tp) for t in s.idx):
                ctx.na(rule, site, f"index not understood in `{s.text()}`")
                continue
            ok = any(covers(t, tp) for t in s.idx)
            ctx.ob(rule, site, ok,
                   "" if ok else f"store `{s.text()}` addresses no row/column of the target mode(s) {sorted(tp)}",
                   role=_store_role(s), line=s.stmt.lineno)
    return nst


# ------------------------------------------------------------------------------------------
def _is_conj_call(e):
    return isinstance(e, ast.Call) and (dotted(e.func) or "").split(".")[-1] in ("conj", "conjugate") and (
        e.args or isinstance(e.func, ast.Attribute))


def _mirror_value_ok(s: Store, env: IndexEnv, want_conj: bool, src_idx) -> bool:
    """value of a mirror store is (conj of) self.<array>[src_idx...]"""
    v = s.value
    conj = False
    if _is_conj_call(v):
        conj = True
        v = v.args[0] if v.args else v.func.value
    ld = loads(v, (s.array,)) if isinstance(v, ast.Subscript) else []
    if len(ld) != 1 or ld[0][0] != s.array:
        return False
    terms = [env.term(i, s.node) for i in ld[0][1]]
    return conj == want_conj and terms == list(src_idx)


def mirror(ctx, rule):
    """after a store into row r of nmat / mmat, every path to the normal exit stores column r from the
    (conjugated, for nmat) row - N stays Hermitian, M symmetric"""
    ctx.explain(f"{rule}: each off-diagonal row store on nmat/mmat is followed on every path by the mirror "
                "store (column from row; conj iff nmat).")
    for f, tp in gauss_methods(ctx):
        if not tp:
            continue
        env = IndexEnv(f)
        cfg = env.rd.cfg
        sts = [s for s in stores(f, ARRAYS2, env) if not s.whole]
        for s in sts:
            row = s.idx[0]
            col = s.idx[1] if len(s.idx) > 1 else ALL
            if row[0] == "sel" and col[0] == "sel" and row[1] == col[1]:
                continue  # symmetric block store rows x cols of the same selection
            if row[0] != "one":
                continue  # column / mirror stores themselves, unknown forms
            if col == row:
                continue  # diagonal cell
            r = row[1]
            want_conj = s.array == "nmat"
            # (a) explicit transposed cell store, (b) column store X[:, r] = conj?(X[r])
            mirrors = []
            for m in sts:
                if m is s or m.array != s.array:
                    continue
                if len(m.idx) == 2 and m.idx[1] == ("one", r):
                    if m.idx[0] == ALL and _mirror_value_ok(m, env, want_conj, [("one", r)]):
                        mirrors.append(m)
                    elif col[0] == "one" and m.idx[0] == col and _mirror_value_ok(m, env, want_conj, [row, col]):
                        mirrors.append(m)
            ok = bool(mirrors) and cfg.must_pass(s.node, [m.node for m in mirrors], exits=[cfg.exit], exc=False)
            # a store that *is* the transposed partner of an earlier one needs no mirror of its own
            if not ok and col[0] == "one" and _mirror_value_ok(s, env, want_conj, [col, row]):
                ok = True
            ctx.ob(rule, f.site, ok,
                   "" if ok else f"row store `{s.text()}` is not followed on every path by the mirror store "
                                 f"`self.{s.array}[:, {r}] = {'np.conj(' if want_conj else ''}self.{s.array}[{r}]"
                                 f"{')' if want_conj else ''}` - the matrix loses its "
                                 f"{'Hermiticity' if want_conj else 'symmetry'}",
                   role=_store_role(s), line=s.stmt.lineno)


# ------------------------------------------------------------------------------------------
def dead_stores(ctx, rule):
    """a later store that covers an earlier one completely without reading it makes the earlier dead:
    the specific formula of a cell is overwritten by the generic one (loop range too wide)"""
    ctx.explain(f"{rule}: no store on nmat/mmat/mean is completely overwritten later in the same method by a "
                "store that does not read the cell (e.g. a loop whose index range includes the target mode).")
    for f, tp in gauss_methods(ctx):
        if not tp:
            continue
        env = IndexEnv(f)
        cfg = env.rd.cfg
        sts = [s for s in stores(f, ARRAYS, env) if not s.whole and not any(t[0] == "unk" for t in s.idx)]
        for i, a in enumerate(sts):
            killers = []
            for b in sts:
                if b is a or b.array != a.array or b.aug:
                    continue
                if b.node not in cfg.reachable([x for x, _ in cfg.succ[a.node]], exc=False):
                    continue
                ai = list(a.idx) + [ALL] * (2 - len(a.idx)) if a.array != "mean" else list(a.idx)
                bi = list(b.idx) + [ALL] * (2 - len(b.idx)) if b.array != "mean" else list(b.idx)
                if len(ai) != len(bi):
                    continue
                if not all(_contains(y, x) for x, y in zip(ai, bi)):
                    continue
                # mirror column store is fine, so is an update that reads the same cells
                if len(b.idx) == 2 and b.idx[0] == ALL and b.idx[1][0] == "one" and a.idx[0] != ALL:
                    continue
                rd_terms = [[env.term(ix, b.node) for ix in idx] for arr, idx in loads(b.value, (b.array,))]
                if any(t == list(b.idx) or t == list(b.idx)[: len(t)] for t in rd_terms):
                    continue
                killers.append(b)
            ok = not killers
            ctx.ob(rule, f.site, ok,
                   "" if ok else f"store `{a.text()}` (line {a.stmt.lineno}) is overwritten by "
                                 f"`{killers[0].text()}` (line {killers[0].stmt.lineno}) which covers the same cell(s) "
                                 "without reading them",
                   role=_store_role(a), line=a.stmt.lineno)


def _contains(big, small) -> bool:
    """index term `big` certainly includes every position of `small`"""
    if big == ALL:
        return True
    if big == small and big[0] in ("one", "sel", "allbut"):
        return True
    if big[0] == "allbut" and small[0] == "one":
        return small[1] not in big[1]
    if big[0] == "allbut" and small[0] == "allbut":
        return big[1] <= small[1]
    return False


# ------------------------------------------------------------------------------------------
def coverage(ctx, rule):
    """a gate on mode(s) T that updates some off-target cell (r, i) of a row r in T must update all of
    them alike: the off-target column range of every row store is exactly 'all modes except T', and the
    cells (r, t), t in T, t != r are stored explicitly"""
    ctx.explain(f"{rule}: in every method with scalar mode targets T, off-target row stores range over exactly "
                "the modes outside T and cross cells between two targets are stored.")
    for f, tp in gauss_methods(ctx):
        if not tp:
            continue
        env = IndexEnv(f)
        sts = [s for s in stores(f, ARRAYS2, env) if not s.whole]
        scal = {t for t in tp if any(s.idx and s.idx[0] == ("one", t) for s in sts)}
        if not scal:
            continue
        for arr in ARRAYS2:
            for r in sorted(scal):
                rows = [s for s in sts if s.array == arr and s.idx[0] == ("one", r)]
                if not rows:
                    continue
                cols = [s.idx[1] if len(s.idx) > 1 else ALL for s in rows]
                wide = [c for c in cols if c[0] in ("all", "allbut")]
                if not wide:
                    continue  # only cell stores on this row (diagonal updates)
                for c in wide:
                    if c == ALL:
                        ok = True
                        msg = ""
                    else:
                        excl = set(c[1])
                        ok = excl == scal
                        msg = "" if ok else (f"row {r} of {arr}: the loop over the other modes excludes {sorted(excl)} "
                                             f"but the method acts on {sorted(scal)}")
                    ctx.ob(rule, f.site, ok, msg, role=f"range:{arr}[{r}]", line=rows[0].stmt.lineno)
                if ALL not in cols:
                    for t in sorted(scal - {r}):
                        ok = ("one", t) in cols
                        ctx.ob(rule, f.site, ok,
                               "" if ok else f"cell {arr}[{r}][{t}] between the two target modes is never stored",
                               role=f"cross:{arr}[{r}][{t}]", line=rows[0].stmt.lineno)


# ------------------------------------------------------------------------------------------
def _effect_nodes(ctx, cls, f: FuncInfo, arrays, effectful: Dict[str, bool]):
    """CFG node ids of f that modify the simulator arrays (stores, or calls of effectful sibling methods)"""
    cfg = cfg_of(f.node)
    out = []
    for n in cfg.nodes:
        if n.ast is None:
            continue
        hit = False
        for sub in walk_no_nested(n.ast) if n.kind in ("stmt",) else ():
            if isinstance(sub, (ast.Assign, ast.AugAssign)):
                tg = sub.targets if isinstance(sub, ast.Assign) else [sub.target]
                for t in tg:
                    for tt in (t.elts if isinstance(t, (ast.Tuple, ast.List)) else [t]):
                        x = tt
                        while isinstance(x, ast.Subscript):
                            x = x.value
                        k = dotted(x)
                        if k and k.startswith("self.") and k[5:] in arrays:
                            hit = True
            if isinstance(sub, ast.Call) and isinstance(sub.func, ast.Attribute) and dotted(sub.func.value) == "self":
                if effectful.get(sub.func.attr):
                    hit = True
        if hit:
            out.append(n.id)
    return out


def effectful_methods(ctx, cls, arrays) -> Dict[str, bool]:
    eff = {name: False for name in cls.methods}
    changed = True
    while changed:
        changed = False
        for name, f in cls.methods.items():
            if eff[name]:
                continue
            if _effect_nodes(ctx, cls, f, arrays, eff):
                eff[name] = True
                changed = True
    return eff


def _guard_nodes(f: FuncInfo, p: str, guarded: Dict[str, Set[str]], cls):
    """CFG nodes that establish 'mode p is active': raising `if self.active[p] is None`, or a call of a
    sibling method that is guarded on the parameter receiving p"""
    cfg = cfg_of(f.node)
    rd = rd_of(f.node)
    env = IndexEnv(f)
    out = []

    def refers(e, at):
        # expression e is p, an element of p, or a loop variable over p
        if isinstance(e, ast.Name):
            if e.id == p and all(d.kind == "param" or d.kind == "assign" for d in rd.reaching(p, at)):
                return True
            t = env.term(e, at)
            return t in (("sel", p), ("one", p))
        if isinstance(e, ast.Subscript):
            return refers(e.value, at)
        if isinstance(e, (ast.List, ast.Tuple)):
            return any(refers(x, at) for x in e.elts)
        return False

    for n in cfg.nodes:
        if n.kind == "if":
            for c in ast.walk(n.ast):
                if isinstance(c, ast.Compare) and len(c.ops) == 1 and isinstance(c.ops[0], (ast.Is, ast.Eq)) \
                        and isinstance(c.comparators[0], ast.Constant) and c.comparators[0].value is None \
                        and isinstance(c.left, ast.Subscript) and dotted(c.left.value) == "self.active" \
                        and refers(c.left.slice, n.id):
                    # the test may be a disjunction (k or l): the raising branch must be the true branch
                    if cfg.ends_in_raise(n.id, TRUE) and not _under_and(c, n.ast):
                        out.append(n.id)
        elif n.kind == "stmt" and n.ast is not None:
            for sub in walk_no_nested(n.ast):
                if isinstance(sub, ast.Call) and isinstance(sub.func, ast.Attribute) and dotted(sub.func.value) == "self":
                    g = cls.lookup(sub.func.attr)
                    if g is None:
                        continue
                    gp = g.pos_params[1:]
                    for i, a in enumerate(sub.args):
                        if i < len(gp) and gp[i] in guarded.get(g.name, set()) and refers(a, n.id):
                            out.append(n.id)
                    for kw in sub.keywords:
                        if kw.arg in guarded.get(g.name, set()) and refers(kw.value, n.id):
                            out.append(n.id)
    return out


def _under_and(node, root) -> bool:
    p = getattr(node, "parent", None)
    while p is not None and p is not root.parent if hasattr(root, "parent") else p is not None:
        if isinstance(p, ast.BoolOp) and isinstance(p.op, ast.And):
            return True
        if isinstance(p, ast.UnaryOp) and isinstance(p.op, ast.Not):
            return True
        if p is root:
            break
        p = getattr(p, "parent", None)
    return False


def active_guards(ctx, rule, rel, clsname, arrays, exceptions: Dict[str, str]):
    """every method that takes a mode index and modifies the simulator arrays tests
    `self.active[<index>] is None` and raises before the first modification (directly or through the
    guarded sibling it delegates to)"""
    ctx.explain(f"{rule}: in {clsname}, for each mode-kind parameter of an effectful method, every effect node is "
                "dominated by a raising activity guard on that parameter or by a delegating call to a guarded sibling.")
    cls = ctx.tree.cls(rel, clsname)
    mk = mode_kinds(ctx.tree)
    eff = effectful_methods(ctx, cls, arrays)
    guarded: Dict[str, Set[str]] = {name: set() for name in cls.methods}
    results = {}
    for _round in range(4):
        changed = False
        for name, f in cls.methods.items():
            tp = mk.of(f)
            if not tp or not eff[name]:
                continue
            cfg = cfg_of(f.node)
            effs = _effect_nodes(ctx, cls, f, arrays, eff)
            for p in sorted(tp):
                gn = _guard_nodes(f, p, guarded, cls)
                ok = True
                bad = None
                for e in effs:
                    if e in gn:
                        continue
                    if not any(cfg.dominates(g, e) or _loop_guard(cfg, g, e) for g in gn):
                        ok = False
                        bad = e
                        break
                results[(name, p)] = (ok, bad, f)
                if ok and p not in guarded[name]:
                    guarded[name].add(p)
                    changed = True
        if not changed:
            break
    for (name, p), (ok, bad, f) in sorted(results.items()):
        if not ok and name in exceptions:
            ctx.note(f"{rule}: {clsname}.{name}({p}) has no activity guard - listed exception: {exceptions[name]}")
            continue
        cfg = cfg_of(f.node)
        ctx.ob(rule, f.site, ok,
               "" if ok else f"parameter `{p}` (a mode index) reaches a modification of the simulator state "
                             f"(line {cfg.node(bad).line}) without a dominating `self.active[{p}] is None` -> raise guard",
               role=f"guard:{p}", line=f.node.lineno)


def _loop_guard(cfg, g, e) -> bool:
    """guard g sits in a `for` loop over the modes; the loop header dominates e (zero iterations = no
    modes = nothing to guard).  e must not be inside the same iteration before the guard."""
    gnode = cfg.node(g)
    p = getattr(gnode.stmt, "parent", None)
    while p is not None and not isinstance(p, (ast.For, ast.FunctionDef)):
        p = getattr(p, "parent", None)
    if not isinstance(p, ast.For):
        return False
    hdr = cfg.find(p)
    if not hdr:
        return False
    h = hdr[0]
    if not cfg.dominates(h, e):
        return False
    # e after the loop: reachable from the loop's exit edge only
    after = cfg.reachable([b for b, l in cfg.succ[h] if l == FALSE], exc=False)
    inside = cfg.reachable([b for b, l in cfg.succ[h] if l == TRUE], avoid=[h], exc=False)
    if e in inside:
        return cfg.dominates(g, e)
    return e in after
