"""C18 - program comparison is sound (structural clauses)."""
from __future__ import annotations

import ast

from ..cfg import cfg_of, T as TRUE, F as FALSE
from ..dataflow import derives, rd_of, resolve_local, resolve_name, return_values, expand_locals
from .common_guard import raise_facts, path_facts, facts, guard, rel
from ..loader import dotted, walk_no_nested


def eq(ctx, rule="C18.fields"):
    ctx.explain(f"{rule}: Program.__eq__ and program_equivalence's node_match consult class, parameters, register and the "
                "dagger flag of both commands; every field that is computed takes part in the verdict.")
    f = ctx.tree.func("program.py", "Program.__eq__")
    cfg = cfg_of(f.node)
    reads = {}
    for n in walk_no_nested(f.node):
        if isinstance(n, ast.Attribute):
            reads.setdefault(n.attr, 0)
            reads[n.attr] += 1
        if isinstance(n, ast.Call) and dotted(n.func) == "getattr" and len(n.args) >= 2 and isinstance(n.args[1], ast.Constant):
            reads.setdefault(n.args[1].value, 0)
            reads[n.args[1].value] += 1
    for a, what in (("__class__", "operation class"), ("p", "parameters"), ("reg", "modes"), ("dagger", "inverse flag")):
        ok = reads.get(a, 0) >= 2
        ctx.ob(rule, f.site, ok, "" if ok else f"Program.__eq__ does not compare the {what} (`{a}`) of both commands",
               role=f"field:{a}", line=f.node.lineno)
    # ... each taken from the OPERATION of each of the two commands of the pair (the Command has no dagger / p / __class__ of its own)
    lp0 = [n for n in walk_no_nested(f.node) if isinstance(n, ast.For)]
    cmdvars = [x.id for x in ast.walk(lp0[0].target) if isinstance(x, ast.Name)] if lp0 else []
    if len(cmdvars) == 2:
        for a in ("__class__", "p", "dagger"):
            bases = set()
            for n in walk_no_nested(f.node):
                if isinstance(n, ast.Attribute) and n.attr == a:
                    bases.add(dotted(n.value))
                if isinstance(n, ast.Call) and dotted(n.func) == "getattr" and len(n.args) >= 2 and isinstance(n.args[1], ast.Constant) \
                        and n.args[1].value == a:
                    bases.add(dotted(n.args[0]))
            ok = {f"{cmdvars[0]}.op", f"{cmdvars[1]}.op"} <= bases
            ctx.ob(rule, f.site, ok, "" if ok else f"`{a}` is not read from the operation of BOTH commands (read from {sorted(b for b in bases if b)}): "
                   "one side of the comparison is a constant", role=f"field-both-ops:{a}", line=f.node.lineno)
    # modes are compared as ordered sequences (zip over .reg), not as sets
    ordered = any(isinstance(n, ast.Call) and dotted(n.func) == "zip" and
                  all((dotted(a) or "").endswith(".reg") for a in n.args) and len(n.args) == 2 for n in walk_no_nested(f.node))
    unordered = any(isinstance(n, ast.Compare) and "get_dependencies" in ast.unparse(n) for n in walk_no_nested(f.node))
    ctx.ob(rule, f.site, ordered and not unordered, "" if ordered and not unordered else "the modes of two commands are not "
           "compared position by position: BSgate | (q0, q2) equals BSgate | (q2, q0)", role="modes-ordered", line=f.node.lineno)
    # every per-command comparison result reaches the verdict
    loop = [n for n in walk_no_nested(f.node) if isinstance(n, ast.For)]
    ctx.require(loop, "Program.__eq__ has no command loop")
    # (a flag = a loop-body local computed from both commands; it counts as used when some verdict test in the loop is
    #  computed from it, directly or through further temporaries)
    rdl = rd_of(f.node)
    tgt_names = {x.id for x in ast.walk(loop[0].target) if isinstance(x, ast.Name)}
    flags = []
    for st in loop[0].body:
        if isinstance(st, ast.Assign) and isinstance(st.targets[0], ast.Name):
            nm_ = {x.id for x in ast.walk(st.value) if isinstance(x, ast.Name)}
            if len(tgt_names & nm_) >= 2:
                flags.append((st.targets[0].id, st))
    used = set()
    for n in ast.walk(loop[0]):
        if isinstance(n, ast.If):
            ids = cfg.node_of_expr(n.test)
            d = derives(f.node, n.test, ids[0] if ids else None)
            used |= {dd.var for dd in d.defs} | {x.id for x in ast.walk(n.test) if isinstance(x, ast.Name)}
    for k, (fl, st) in enumerate(flags):
        what = next((a for a in ("__class__", "dagger", "reg", "p") if any(
            isinstance(x, ast.Attribute) and x.attr == a or isinstance(x, ast.Constant) and x.value == a
            for x in ast.walk(st.value))), str(k))
        ok = fl in used
        ctx.ob(rule, f.site, ok, "" if ok else f"`{fl}` is computed but does not take part in the verdict", role=f"used:{what}",
               line=loop[0].lineno)
    # every command pair goes through every comparison: the loop is left only by the verdict (no continue / break, and every
    # path through the body reaches a verdict test)
    skips = [x for x in ast.walk(loop[0]) if isinstance(x, (ast.Continue, ast.Break))]
    ctx.ob(rule, f.site, not skips, "" if not skips else f"`{type(skips[0]).__name__.lower()}` at line {skips[0].lineno} lets a command "
           "pair skip the comparisons (the modes live on the Command, not on the operation: a shared operation object on different "
           "modes compares equal)", role="no-shortcut", line=(skips[0].lineno if skips else loop[0].lineno))
    # target and register compared
    for a in ("target", "register"):
        ok = any(isinstance(n, ast.Compare) and isinstance(n.ops[0], ast.NotEq) and a in ast.unparse(n) for n in walk_no_nested(f.node))
        ctx.ob(rule, f.site, ok, "" if ok else f"Program.__eq__ no longer compares `{a}`", role=f"prog:{a}", line=f.node.lineno)
    g = ctx.tree.func("program_utils.py", "program_equivalence")
    nm = ctx.tree.func("program_utils.py", "program_equivalence.<locals>.node_match")
    keys = {n.slice.value for n in walk_no_nested(nm.node) if isinstance(n, ast.Subscript) and isinstance(n.slice, ast.Constant)}
    set_attrs = {k.value.value if isinstance(k.value, ast.Constant) else None
                 for n in walk_no_nested(g.node) if isinstance(n, ast.Call) and dotted(n.func) == "nx.set_node_attributes"
                 for k in n.keywords if k.arg == "name"}
    for k, what in (("name", "operation class"), ("p", "parameters"), ("w", "wires of order-sensitive gates"), ("dagger", "inverse flag")):
        ok = k in keys and k in set_attrs
        ctx.ob(rule, g.site, ok, "" if ok else f"program_equivalence does not match nodes on the {what} (attribute '{k}')",
               role=f"match:{k}", line=nm.node.lineno)
    # the wire attribute of a generic operation must derive from its register
    wm = {dotted(n.args[1]) for n in walk_no_nested(g.node) if isinstance(n, ast.Call) and dotted(n.func) == "nx.set_node_attributes"
          and len(n.args) >= 2 and any(k.arg == "name" and isinstance(k.value, ast.Constant) and k.value.value == "w" for k in n.keywords)}
    ctx.require(wm and None not in wm, "program_equivalence no longer sets the wire attribute 'w' from a mapping")
    defaults = [n for n in walk_no_nested(g.node) if isinstance(n, ast.Assign) and isinstance(n.targets[0], ast.Subscript)
                and dotted(n.targets[0].value) in wm]
    generic = [n for n in defaults if not any(isinstance(p, ast.If) for p in _parents(n, g.node))]
    ok = bool(generic) and all(any(isinstance(x, ast.Attribute) and x.attr == "reg" for x in ast.walk(n.value)) for n in generic)
    ctx.ob(rule, g.site, ok, "" if ok else "for every operation other than CXgate / BSgate the wire attribute is the constant "
           "0: Sgate(r) | q[0] and Sgate(r) | q[1] are reported equivalent (modes ignored)", role="match:modes-generic",
           line=(generic[0].lineno if generic else g.node.lineno))
    # an order-sensitive two-mode gate loses its wire attribute only on a test that looks at ALL its parameters
    cfgg = cfg_of(g.node)
    for n in walk_no_nested(g.node):
        if isinstance(n, ast.Assign) and isinstance(n.targets[0], ast.Subscript) and dotted(n.targets[0].value) in wm and \
                any(isinstance(x, ast.Attribute) and x.attr == "reg" for x in ast.walk(n.value)):
            ids = cfgg.find(n)
            if not ids:
                continue
            pf = path_facts(cfgg, ids[0])
            is_bs = any(v and any(isinstance(x, ast.Constant) and x.value == "BSgate" for x in ast.walk(a)) for a, v in pf)
            if not is_bs:
                continue
            whole = False
            for a, v in pf:
                d = derives(g.node, a, ids[0])
                for e in d.exprs:
                    if isinstance(e, ast.Attribute) and e.attr == "p":
                        par = getattr(e, "parent", None)
                        if not (isinstance(par, ast.Subscript) and par.value is e and isinstance(par.slice, ast.Constant)):
                            whole = True
                idx = {e.slice.value for e in d.exprs if isinstance(e, ast.Subscript) and isinstance(e.slice, ast.Constant)
                       and isinstance(e.value, ast.Attribute) and e.value.attr == "p"}
                if {0, 1} <= idx:
                    whole = True
            ctx.ob(rule, g.site, whole, "" if whole else "the beamsplitter is treated as mode-symmetric on a test of one of its two "
                   "parameters only: BSgate(pi/4, 0) | (q0, q1) and BSgate(pi/4, 0) | (q1, q0) are reported equivalent",
                   role="match:bs-both-params", line=n.lineno)
    # every return of node_match is computed from the compared attributes of BOTH nodes (whatever temporaries are used)
    cfgm = cfg_of(nm.node)
    for k, (r, rv) in enumerate(return_values(nm.node)):
        ids = cfgm.find(r)
        d = derives(nm.node, r.value, ids[0] if ids else None)
        read = {}
        for e in d.exprs:
            if isinstance(e, ast.Subscript) and isinstance(e.slice, ast.Constant) and isinstance(e.value, ast.Name):
                read.setdefault(e.slice.value, set()).add(e.value.id)
        under_params = any(truth and "compare_params" in ast.unparse(a) for a, truth in path_facts(cfgm, ids[0])) if ids else False
        for attr in ("name", "dagger", "w") + (("p",) if under_params else ()):
            ok = len(read.get(attr, ())) >= 2
            ctx.ob(rule, nm.site, ok, "" if ok else f"a return of node_match does not depend on attribute '{attr}' of both nodes",
                   role=f"ret{k}:{attr}", line=r.lineno)
    ctx.floor(rule, 14)


def _parents(n, stop):
    out = []
    p = getattr(n, "parent", None)
    while p is not None and p is not stop:
        out.append(p)
        p = getattr(p, "parent", None)
    return out


def length(ctx, rule="C18.length"):
    ctx.explain(f"{rule}: a zip over the two circuits in a comparison that can answer True is preceded by a length "
                "comparison that answers False (a program is not equal to a proper prefix of itself).")
    f = ctx.tree.func("program.py", "Program.__eq__")
    cfg = cfg_of(f.node)
    zips = [n for n in walk_no_nested(f.node) if isinstance(n, ast.For) and isinstance(n.iter, ast.Call) and
            dotted(n.iter.func) == "zip" and all((dotted(a) or "").endswith(".circuit") for a in n.iter.args)]
    ctx.require(zips, "Program.__eq__ no longer zips the circuits")
    zid = cfg.find(zips[0])[0]
    # some `return False` is taken whenever the lengths differ, ahead of the zip
    ok = False
    for nd in cfg.nodes:
        if nd.kind == "stmt" and isinstance(nd.ast, ast.Return) and isinstance(nd.ast.value, ast.Constant) and \
                nd.ast.value.value is False and zid not in cfg.reachable([nd.id], exc=False):
            for h, lab in cfg.branch_conditions(nd.id):
                hn = cfg.node(h)
                if hn.kind != "if" or not cfg.dominates(h, zid):
                    continue
                from .common_guard import sufficient
                for a, v in sufficient(hn.ast, lab == TRUE):
                    a = expand_locals(f.node, a)
                    r_ = rel(a, v)
                    t = ast.unparse(a)
                    if r_ is not None and r_[0] == "!=" and t.count("len(") == 2 and t.count(".circuit") == 2:
                        ok = True
    ctx.ob(rule, f.site, ok, "" if ok else "the circuits are zipped without comparing their lengths: a program equals any "
           "proper prefix of itself (and __eq__ is not symmetric in effect)", role="length-guard", line=zips[0].lineno)
    ctx.floor(rule, 1)


def relation(ctx, rule="C18.relation"):
    ctx.explain(f"{rule}: program_equivalence answers True for identical arguments before anything else (reflexive) and "
                "applies only symmetric tests to the pair (==, allclose with rtol=0 default documented).")
    g = ctx.tree.func("program_utils.py", "program_equivalence")
    cfg = cfg_of(g.node)
    a, b = g.pos_params[0], g.pos_params[1]
    ok = False
    first_eff = min([cfg.node_of_expr(n)[0] for n in walk_no_nested(g.node) if isinstance(n, ast.Call) and
                     dotted(n.func) == "list_to_DAG" and cfg.node_of_expr(n)] or [None], key=lambda x: (x is None, x))
    for nd in cfg.nodes:
        if nd.kind == "stmt" and isinstance(nd.ast, ast.Return) and isinstance(nd.ast.value, ast.Constant) and \
                nd.ast.value.value is True:
            for h, lab in cfg.branch_conditions(nd.id):
                hn = cfg.node(h)
                if hn.kind != "if":
                    continue
                from .common_guard import sufficient
                for a_, v in sufficient(hn.ast, lab == TRUE):
                    r_ = rel(a_, v)
                    if r_ is not None and r_[0] == "is" and {dotted(r_[1]), dotted(r_[2])} == {a, b}:
                        # ... and it is taken before the programs are looked at
                        ok = first_eff is None or cfg.dominates(h, first_eff)
    ctx.ob(rule, g.site, ok, "" if ok else "program_equivalence lost its identity shortcut (reflexivity for programs whose "
           "parameters cannot be evaluated)", role="reflexive", line=g.node.lineno)
    # both DAGs are built the same way: the loop `for G in (DAG1, DAG2)` treats the two programs alike
    loops = [n for n in walk_no_nested(g.node) if isinstance(n, ast.For) and isinstance(n.iter, ast.Tuple) and len(n.iter.elts) == 2]
    ok = bool(loops)
    ctx.ob(rule, g.site, ok, "" if ok else "the two programs are no longer prepared by the same code (asymmetric comparison)",
           role="symmetric-prep", line=g.node.lineno)
    # inside the loop every node attribute is computed from the loop variable (the graph being prepared)
    if loops:
        lv = loops[0].target.id if isinstance(loops[0].target, ast.Name) else None
        for comp in [n for n in ast.walk(loops[0]) if isinstance(n, (ast.DictComp, ast.ListComp)) or
                     (isinstance(n, ast.For) and n is not loops[0])]:
            its = [gen.iter for gen in comp.generators] if not isinstance(comp, ast.For) else [comp.iter]
            for it in its:
                if ".nodes()" in ast.unparse(it):
                    ok = lv is not None and lv in {x.id for x in ast.walk(it) if isinstance(x, ast.Name)}
                    ctx.ob(rule, g.site, ok, "" if ok else f"`{ast.unparse(it)[:40]}`: a node attribute of both graphs is computed "
                           "from one fixed program: the other program's flags are never compared", role="attr-from-loop-graph",
                           line=it.lineno)
    # the comparison accounts for every command: no node is removed from either DAG
    rm = [n for n in walk_no_nested(g.node) if isinstance(n, ast.Call) and isinstance(n.func, ast.Attribute) and
          n.func.attr in ("remove_node", "remove_nodes_from", "remove_edge", "remove_edges_from", "clear")]
    ctx.ob(rule, g.site, not rm, "" if not rm else f"`{ast.unparse(rm[0])[:50]}` drops commands from the graphs before they are "
           "compared: ordering across the dropped commands is lost", role="no-node-removal",
           line=(rm[0].lineno if rm else g.node.lineno))
    # parameters that cannot be evaluated make the comparison fail loudly: no handler in program_equivalence swallows the error
    hs = [h for n in walk_no_nested(g.node) if isinstance(n, ast.Try) for h in n.handlers]
    ctx.ob(rule, g.site, not hs, "" if not hs else f"program_equivalence catches `{ast.unparse(hs[0].type)[:30] if hs[0].type else 'everything'}`: "
           "operations whose parameters have no value are compared as if their parameters were equal", role="no-swallowed-errors",
           line=(hs[0].lineno if hs else g.node.lineno))
    iso = [n for n in walk_no_nested(g.node) if isinstance(n, ast.Call) and (dotted(n.func) or "").endswith("is_isomorphic")]
    ok = bool(iso) and (len(iso[0].args) >= 3 and dotted(iso[0].args[2]) == "node_match" or
                        any(k.arg == "node_match" and dotted(k.value) == "node_match" for k in iso[0].keywords))
    ctx.ob(rule, g.site, ok, "" if ok else "the isomorphism test does not use node_match", role="uses-node-match", line=g.node.lineno)
    ctx.floor(rule, 8)


def rules(ctx):
    eq(ctx)
    length(ctx)
    relation(ctx)
