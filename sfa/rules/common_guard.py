"""helpers for 'raising guard dominates effect' rules (E2)"""
from __future__ import annotations

import ast
from typing import Callable, List, Optional

from ..cfg import CFG, cfg_of, T as TRUE, F as FALSE
from ..loader import FuncInfo, dotted, walk_no_nested


def raising_ifs(f: FuncInfo):
    """(node, raising-label, exception name) for every `if` of f one of whose branches ends in a raise"""
    cfg = cfg_of(f.node)
    out = []
    for n in cfg.nodes:
        if n.kind != "if":
            continue
        for lab in (TRUE, FALSE):
            if cfg.ends_in_raise(n.id, lab):
                exc = _first_raise(cfg, n.id, lab)
                out.append((n, lab, exc))
    return out


def _first_raise(cfg: CFG, nid, lab) -> Optional[str]:
    todo = [b for b, l in cfg.succ[nid] if l == lab]
    seen = set()
    while todo:
        x = todo.pop(0)
        if x in seen:
            continue
        seen.add(x)
        a = cfg.node(x).ast
        if isinstance(a, ast.Raise) and a.exc is not None:
            e = a.exc
            return (dotted(e.func) if isinstance(e, ast.Call) else dotted(e)) or "?"
        todo += [b for b, l in cfg.succ[x] if l != "x"]
    return None


def find_guard(f: FuncInfo, pred: Callable[[ast.AST, str], bool], exc: Optional[str] = None,
               dominates: Optional[int] = None, polarity: Optional[str] = None):
    """a raising `if` whose test satisfies pred(test, text); optionally raising `exc` (suffix match) and
    dominating CFG node `dominates`"""
    cfg = cfg_of(f.node)
    for n, lab, e in raising_ifs(f):
        txt = ast.unparse(n.ast)
        if not pred(n.ast, txt):
            continue
        if exc is not None and not (e or "").endswith(exc):
            continue
        if polarity is not None and lab != polarity:
            continue
        if dominates is not None and not cfg.dominates(n.id, dominates):
            continue
        return n
    return None


def call_node(f: FuncInfo, name: str):
    cfg = cfg_of(f.node)
    for n in walk_no_nested(f.node):
        if isinstance(n, ast.Call) and (dotted(n.func) == name or (dotted(n.func) or "").endswith("." + name)):
            ids = cfg.node_of_expr(n)
            if ids:
                return ids[0], n
    return None, None
