"""helpers for 'raising guard dominates effect' rules (E2)"""
from __future__ import annotations

import ast
from typing import Callable, List, Optional

from ..cfg import CFG, cfg_of, T as TRUE, F as FALSE
from ..loader import FuncInfo, dotted, walk_no_nested


def raising_ifs(f: FuncInfo):
    """(node, raising-label, exception name) for every `if` of f one of whose branches ends in a raise"""
    cfg = cfg_of(f.node)
    out = []
    for n in cfg.nodes:
        if n.kind != "if":
            continue
        for lab in (TRUE, FALSE):
            if cfg.ends_in_raise(n.id, lab):
                exc = _first_raise(cfg, n.id, lab)
                out.append((n, lab, exc))
    return out


def _first_raise(cfg: CFG, nid, lab) -> Optional[str]:
    todo = [b for b, l in cfg.succ[nid] if l == lab]
    seen = set()
    while todo:
        x = todo.pop(0)
        if x in seen:
            continue
        seen.add(x)
        a = cfg.node(x).ast
        if isinstance(a, ast.Raise) and a.exc is not None:
            e = a.exc
            return (dotted(e.func) if isinstance(e, ast.Call) else dotted(e)) or "?"
        todo += [b for b, l in cfg.succ[x] if l != "x"]
    return None


def find_guard(f: FuncInfo, pred: Callable[[ast.AST, str], bool], exc: Optional[str] = None,
               dominates: Optional[int] = None, polarity: Optional[str] = None):
    """a raising `if` whose test satisfies pred(test, text); optionally raising `exc` (suffix match) and
    dominating CFG node `dominates`"""
    cfg = cfg_of(f.node)
    for n, lab, e in raising_ifs(f):
        txt = ast.unparse(n.ast)
        if not pred(n.ast, txt):
            continue
        if exc is not None and not (e or "").endswith(exc):
            continue
        if polarity is not None and lab != polarity:
            continue
        if dominates is not None and not cfg.dominates(n.id, dominates):
            continue
        return n
    return None


def call_node(f: FuncInfo, name: str):
    cfg = cfg_of(f.node)
    for n in walk_no_nested(f.node):
        if isinstance(n, ast.Call) and (dotted(n.func) == name or (dotted(n.func) or "").endswith("." + name)):
            ids = cfg.node_of_expr(n)
            if ids:
                return ids[0], n
    return None, None


def facts(test: ast.AST, truth: bool = True):
    """atomic facts known when `test` evaluates to `truth`: [(atom, bool)].  `not` is stripped, a true conjunction
    gives all its conjuncts, a false disjunction all its disjuncts; NotIn / IsNot / NotEq atoms are returned in their
    positive form with the truth value flipped.  Rules use this instead of matching the orientation of an `if`."""
    if isinstance(test, ast.UnaryOp) and isinstance(test.op, ast.Not):
        return facts(test.operand, not truth)
    if isinstance(test, ast.BoolOp):
        if isinstance(test.op, ast.And) and truth or isinstance(test.op, ast.Or) and not truth:
            out = []
            for v in test.values:
                out += facts(v, truth)
            return out
        return [(test, truth)]
    if isinstance(test, ast.Compare) and len(test.ops) == 1:
        flip = {ast.NotIn: ast.In, ast.IsNot: ast.Is, ast.NotEq: ast.Eq}
        for neg, pos in flip.items():
            if isinstance(test.ops[0], neg):
                t2 = ast.Compare(left=test.left, ops=[pos()], comparators=test.comparators)
                ast.copy_location(t2, test)
                return [(t2, not truth)]
    return [(test, truth)]


def path_facts(cfg: CFG, node_id: int):
    """facts that hold on every path to the CFG node (from the branch conditions that dominate it)"""
    out = []
    for h, lab in cfg.branch_conditions(node_id):
        n = cfg.node(h)
        if n.kind in ("if", "while") and lab in (TRUE, FALSE):
            out += facts(n.ast, lab == TRUE)
    return out


def _positive(test, truth):
    if isinstance(test, ast.Compare) and len(test.ops) == 1:
        flip = {ast.NotIn: ast.In, ast.IsNot: ast.Is, ast.NotEq: ast.Eq}
        for neg, pos in flip.items():
            if isinstance(test.ops[0], neg):
                t2 = ast.Compare(left=test.left, ops=[pos()], comparators=test.comparators)
                ast.copy_location(t2, test)
                return [(t2, not truth)]
    return [(test, truth)]


def sufficient(test: ast.AST, truth: bool = True):
    """atoms (a, v) such that `a == v` ALONE makes `test == truth` (disjuncts of a true `or`, conjuncts of a false
    `and`); a conjunction that must be true as a whole is returned as one opaque atom.  This is the direction a guard
    needs: 'whenever a == v the raise is taken'."""
    if isinstance(test, ast.UnaryOp) and isinstance(test.op, ast.Not):
        return sufficient(test.operand, not truth)
    if isinstance(test, ast.BoolOp):
        if isinstance(test.op, ast.Or) and truth or isinstance(test.op, ast.And) and not truth:
            out = []
            for v in test.values:
                out += sufficient(v, truth)
            return out
        return [(test, truth)]
    return _positive(test, truth)


def raise_facts(f: FuncInfo):
    """for every raising `if`: (cfg node, exception, [(atom, value)]) where each pair alone is sufficient for the
    raise to be taken"""
    out = []
    for n, lab, exc in raising_ifs(f):
        out.append((n, exc, sufficient(n.ast, lab == TRUE)))
    return out


def guard(f: FuncInfo, pred, exc: Optional[str] = None, dominates: Optional[int] = None, conj: bool = False):
    """a raising `if` one of whose *sufficient* atoms satisfies pred(atom with single-definition locals inlined, value,
    raw atom, cfg node).  Orientation of the `if`, `not`, De Morgan forms and the names of temporaries do not matter."""
    from ..dataflow import expand_locals
    cfg = cfg_of(f.node)
    for n, e, fs in raise_facts(f):
        if exc is not None and not (e or "").endswith(exc):
            continue
        if dominates is not None and not cfg.dominates(n.id, dominates):
            continue
        fs = list(fs)
        if conj:
            # a qualified guard `if <qualifier> and <condition>: raise` - offer the conjuncts too (never when a
            # conjunct is a constant: `and False` switches the guard off)
            for a, truth in list(fs):
                if isinstance(a, ast.BoolOp) and isinstance(a.op, ast.And) and truth and \
                        not any(isinstance(v, ast.Constant) for v in a.values):
                    for v in a.values:
                        fs += sufficient(v, True)
        for a, truth in fs:
            try:
                if pred(expand_locals(f.node, a), truth, a, n):
                    return n
            except (AttributeError, IndexError, TypeError):
                continue
    return None


def rel(atom, truth):
    """canonical relation of a comparison atom with its truth value folded in: ('>', l, r) | ('>=', l, r) | ('==', l, r) |
    ('!=', l, r) | ('in', l, r) | ('notin', l, r) | ('is', l, r) | ('isnot', l, r) | None"""
    if not (isinstance(atom, ast.Compare) and len(atom.ops) == 1):
        return None
    l, r, op = atom.left, atom.comparators[0], atom.ops[0]
    T_ = {ast.Gt: ('>', l, r), ast.Lt: ('>', r, l), ast.GtE: ('>=', l, r), ast.LtE: ('>=', r, l), ast.Eq: ('==', l, r),
          ast.NotEq: ('!=', l, r), ast.In: ('in', l, r), ast.NotIn: ('notin', l, r), ast.Is: ('is', l, r), ast.IsNot: ('isnot', l, r)}
    F_ = {ast.Gt: ('>=', r, l), ast.Lt: ('>=', l, r), ast.GtE: ('>', r, l), ast.LtE: ('>', l, r), ast.Eq: ('!=', l, r),
          ast.NotEq: ('==', l, r), ast.In: ('notin', l, r), ast.NotIn: ('in', l, r), ast.Is: ('isnot', l, r), ast.IsNot: ('is', l, r)}
    return (T_ if truth else F_).get(type(op))
