"""alias mutation (E4): a method that may return internal state of `self` unchanged makes its callers'
in-place updates of the result a mutation of the state object."""
from __future__ import annotations

import ast

from ..dataflow import MUTATORS, rd_of, return_values, resolve_local
from ..loader import dotted, walk_no_nested


def alias_returning_methods(cls):
    """method name -> set of positions (None: whole value) that may be a `self.<attr>` itself"""
    out = {}
    for c in cls.mro():
        for name, f in c.methods.items():
            if name in out:
                continue
            pos = set()
            for n, v in return_values(f.node):
                if True:
                    if isinstance(v, ast.Tuple):
                        for i, e in enumerate(v.elts):
                            k = dotted(e)
                            if k and k.startswith("self.") and k.count(".") == 1:
                                pos.add(i)
                    else:
                        k = dotted(v)
                        if k and k.startswith("self.") and k.count(".") == 1 and not isinstance(v, ast.Call):
                            pos.add(None)
            if pos:
                out[name] = pos
    return out


def alias_mutation(ctx, rule, rel, classes):
    ctx.explain(f"{rule}: values obtained from methods that may return an attribute of self unchanged "
                "(e.g. reduced_gaussian for the full mode list) are never updated in place by their callers.")
    m = ctx.tree.module(rel)
    n_sites = 0
    for cn in classes:
        cls = ctx.tree.cls(rel, cn)
        al = alias_returning_methods(cls)
        for name, f in sorted(cls.methods.items()):
            rd = rd_of(f.node)
            # names bound to an aliasing result
            bound = {}
            for ds in rd.defs_at.values():
                for d in ds:
                    v = d.value
                    if d.kind in ("assign", "unpack") and isinstance(v, ast.Call) and isinstance(v.func, ast.Attribute) \
                            and dotted(v.func.value) == "self" and v.func.attr in al:
                        pos = al[v.func.attr]
                        if d.kind == "assign" and None in pos:
                            bound[d] = v.func.attr
                        elif d.kind == "unpack" and d.index and len(d.index) == 1 and d.index[0] in pos:
                            bound[d] = v.func.attr
            if not bound:
                continue
            for d, meth in bound.items():
                n_sites += 1
                bad = None
                for nd in rd.cfg.nodes:
                    st = nd.ast
                    if st is None or nd.kind != "stmt":
                        continue
                    if d not in rd.reaching(d.var, nd.id):
                        continue
                    if isinstance(st, ast.AugAssign):
                        base = st.target
                        while isinstance(base, ast.Subscript):
                            base = base.value
                        if dotted(base) == d.var:
                            bad = st
                    elif isinstance(st, ast.Assign):
                        for t in st.targets:
                            if isinstance(t, ast.Subscript):
                                base = t
                                while isinstance(base, ast.Subscript):
                                    base = base.value
                                if dotted(base) == d.var:
                                    bad = st
                    for sub in walk_no_nested(st):
                        if isinstance(sub, ast.Call) and isinstance(sub.func, ast.Attribute) and \
                                dotted(sub.func.value) == d.var and sub.func.attr in (MUTATORS | {"sort", "fill", "resize"}):
                            bad = st
                        if isinstance(sub, ast.Call):
                            for kw in sub.keywords:
                                if kw.arg == "out" and dotted(kw.value) == d.var:
                                    bad = st
                ok = bad is None
                ctx.ob(rule, f.site, ok, "" if ok else
                       f"`{ast.unparse(bad)[:60]}` updates `{d.var}` in place, but self.{meth}() may return the state's "
                       f"own array: the state object is modified by a query", role=f"alias:{d.var}:{meth}",
                       line=(bad.lineno if bad is not None else d.stmt.lineno))
    return n_sites
