"""alias mutation (E4): a method that may return internal state of `self` unchanged makes its callers'
in-place updates of the result a mutation of the state object."""
from __future__ import annotations

import ast

from ..dataflow import MUTATORS, rd_of, return_values, resolve_local
from ..loader import dotted, walk_no_nested


def alias_returning_methods(cls):
    """method name -> set of positions (None: whole value) that may be a `self.<attr>` itself"""
    out = {}
    for c in cls.mro():
        for name, f in c.methods.items():
            if name in out:
                continue
            pos = set()
            for n, v in return_values(f.node):
                if True:
                    if isinstance(v, ast.Tuple):
                        for i, e in enumerate(v.elts):
                            k = dotted(e)
                            if k and k.startswith("self.") and k.count(".") == 1:
                                pos.add(i)
                    else:
                        k = dotted(v)
                        if k and k.startswith("self.") and k.count(".") == 1 and not isinstance(v, ast.Call):
                            pos.add(None)
            if pos:
                out[name] = pos
    return out


def alias_mutation(ctx, rule, rel, classes):
    ctx.explain(f"{rule}: values obtained from methods that may return an attribute of self unchanged "
                "(e.g. reduced_gaussian for the full mode list) are never updated in place by their callers.")
    m = ctx.tree.module(rel)
    n_sites = 0
    for cn in classes:
        cls = ctx.tree.cls(rel, cn)
        al = alias_returning_methods(cls)
        for name, f in sorted(cls.methods.items()):
            rd = rd_of(f.node)
            # names bound to an aliasing result
            bound = {}
            for ds in rd.defs_at.values():
                for d in ds:
                    v = d.value
                    if d.kind in ("assign", "unpack") and isinstance(v, ast.Call) and isinstance(v.func, ast.Attribute) \
                            and dotted(v.func.value) == "self" and v.func.attr in al:
                        pos = al[v.func.attr]
                        if d.kind == "assign" and None in pos:
                            bound[d] = v.func.attr
                        elif d.kind == "unpack" and d.index and len(d.index) == 1 and d.index[0] in pos:
                            bound[d] = v.func.attr
            if not bound:
                continue
            for d, meth in bound.items():
                n_sites += 1
                bad = None
                for nd in rd.cfg.nodes:
                    st = nd.ast
                    if st is None or nd.kind != "stmt":
                        continue
                    if d not in rd.reaching(d.var, nd.id):
                        continue
                    if isinstance(st, ast.AugAssign):
                        base = st.target
                        while isinstance(base, ast.Subscript):
                            base = base.value
                        if dotted(base) == d.var:
                            bad = st
                    elif isinstance(st, ast.Assign):
                        for t in st.targets:
                            if isinstance(t, ast.Subscript):
                                base = t
                                while isinstance(base, ast.Subscript):
                                    base = base.value
                                if dotted(base) == d.var:
                                    bad = st
                    for sub in walk_no_nested(st):
                        if isinstance(sub, ast.Call) and isinstance(sub.func, ast.Attribute) and \
                                dotted(sub.func.value) == d.var and sub.func.attr in (MUTATORS | {"sort", "fill", "resize"}):
                            bad = st
                        if isinstance(sub, ast.Call):
                            for kw in sub.keywords:
                                if kw.arg == "out" and dotted(kw.value) == d.var:
                                    bad = st
                ok = bad is None
                ctx.ob(rule, f.site, ok, "" if ok else
                       f"`{ast.unparse(bad)[:60]}` updates `{d.var}` in place, but self.{meth}() may return the state's "
                       f"own array: the state object is modified by a query", role=f"alias:{d.var}:{meth}",
                       line=(bad.lineno if bad is not None else d.stmt.lineno))
    return n_sites


def attr_alias_write(ctx, rule, funcs, note=""):
    """a container read from an attribute chain of another object (`x = cmd.op.p`, `op['args'] = cmd.op.p`: a reference,
    not a copy) must not be updated in place afterwards (item store, augmented assignment, mutator call) while the binding
    is still in force - the update would change the object the attribute belongs to"""
    from ..cfg import cfg_of
    ctx.explain(f"{rule}: no function updates in place a container it obtained by reference from an attribute of another "
                "object (binding `t = a.b.c` without a copy, then `t[i] = ..` / `t += ..` / `t.append(..)` on a path on which "
                f"the binding still holds): the owner of the attribute would be modified. {note}")

    def txt(e):
        return ast.unparse(e).replace(" ", "")

    skip_roots = {"self", "cls"}
    n_bind = 0
    for f in funcs:
        node = f.node
        cfg = cfg_of(node)
        imports = set(f.module.imports)
        binds = []
        for n in walk_no_nested(node):
            if isinstance(n, ast.Assign) and len(n.targets) == 1 and isinstance(n.value, ast.Attribute):
                src = dotted(n.value)
                if not src or src.split(".")[0] in skip_roots or src.split(".")[0] in imports:
                    continue
                tg = n.targets[0]
                if isinstance(tg, (ast.Name, ast.Subscript)):
                    binds.append((n, tg, src))
        for b, tg, src in binds:
            bid = cfg.find(b)
            if not bid:
                continue
            n_bind += 1
            tt = txt(tg)
            root = tg
            while isinstance(root, (ast.Subscript, ast.Attribute)):
                root = root.value
            rootname = root.id if isinstance(root, ast.Name) else None
            # the binding dies where the root name (or the bound expression itself) is assigned again
            kills = set()
            for nd in cfg.nodes:
                st = nd.ast
                if nd.id == bid[0] or st is None:
                    continue
                if isinstance(st, ast.Assign):
                    for t_ in st.targets:
                        if txt(t_) == tt or (isinstance(t_, ast.Name) and t_.id == rootname):
                            kills.add(nd.id)
                elif isinstance(st, ast.For) or nd.kind == "for":
                    tgt = getattr(st, "target", None)
                    if tgt is not None and rootname in {x.id for x in ast.walk(tgt) if isinstance(x, ast.Name)}:
                        kills.add(nd.id)
            reach = cfg.reachable([b_ for b_, l_ in cfg.succ[bid[0]] if l_ != "x"], avoid=kills, exc=False)
            bad = None
            for n in walk_no_nested(node):
                hit = False
                if isinstance(n, ast.Assign):
                    hit = any(isinstance(t_, ast.Subscript) and txt(t_.value) == tt for t_ in n.targets)
                elif isinstance(n, ast.AugAssign):
                    hit = txt(n.target) == tt or isinstance(n.target, ast.Subscript) and txt(n.target.value) == tt
                elif isinstance(n, ast.Call) and isinstance(n.func, ast.Attribute) and n.func.attr in MUTATORS:
                    hit = txt(n.func.value) == tt
                elif isinstance(n, ast.Delete):
                    hit = any(isinstance(t_, ast.Subscript) and txt(t_.value) == tt for t_ in n.targets)
                if not hit:
                    continue
                ids = cfg.find(n) if isinstance(n, ast.stmt) else cfg.node_of_expr(n)
                if ids and ids[0] in reach and ids[0] != bid[0]:
                    bad = n
                    break
            ok = bad is None
            ctx.ob(rule, f.site, ok, "" if ok else
                   f"`{ast.unparse(b)[:50]}` binds a reference to `{src}` and `{ast.unparse(bad)[:50]}` updates it in place: "
                   f"the object that owns `{src.split('.')[-1]}` is modified", role=f"alias-write:{'.'.join(src.split('.')[-2:])}",
                   line=(bad.lineno if bad is not None else b.lineno))
    return n_bind


def shallow_copy_mutation(ctx, rule, rels):
    """a SHALLOW copy (copy.copy, .copy(), list(..), dict(..), x[:]) shares its elements with the original: the elements must not
    be modified through the copy (nested item store, attribute store on an element, mutator call on an element)"""
    ctx.explain(f"{rule}: (shallow copies) where a function binds `y = <shallow copy of x>` it does not modify x's elements through y: no "
                "store `y[a][b] = ..` / `y[a].attr = ..` / `y[a].append(..)`, and no loop `for e in y:` that assigns to `e.attr` / `e[..]` "
                "or calls a mutator on e. (Deep copies are what makes `compile()` / the time-domain helpers safe to call on the user's data.)")

    def shallow_src(v):
        if isinstance(v, ast.Call):
            fn = dotted(v.func) or ""
            if fn in ("copy.copy", "copy") and v.args and isinstance(v.args[0], (ast.Name, ast.Attribute)):
                return dotted(v.args[0])
            if fn in ("list", "dict", "set", "tuple") and len(v.args) == 1 and isinstance(v.args[0], (ast.Name, ast.Attribute)):
                return dotted(v.args[0])
            if isinstance(v.func, ast.Attribute) and v.func.attr == "copy" and not v.args and isinstance(v.func.value, (ast.Name, ast.Attribute)):
                return dotted(v.func.value)
        if isinstance(v, ast.Subscript) and isinstance(v.slice, ast.Slice) and v.slice.lower is None and v.slice.upper is None and \
                isinstance(v.value, (ast.Name, ast.Attribute)):
            return dotted(v.value)
        return None

    n = 0
    for rel in rels:
        if rel not in ctx.tree.modules:
            continue
        for f in ctx.tree.module(rel).functions.values():
            binds = {}
            for st in walk_no_nested(f.node):
                if isinstance(st, ast.Assign) and len(st.targets) == 1 and isinstance(st.targets[0], ast.Name):
                    s_ = shallow_src(st.value)
                    if s_:
                        binds[st.targets[0].id] = (s_, st)
            for y, (src, bst) in binds.items():
                n += 1
                bad = None
                for m in walk_no_nested(f.node):
                    if isinstance(m, ast.For) and isinstance(m.iter, ast.Name) and m.iter.id == y and isinstance(m.target, ast.Name):
                        e = m.target.id
                        for x in ast.walk(m):
                            tg = x.targets if isinstance(x, ast.Assign) else [x.target] if isinstance(x, ast.AugAssign) else []
                            if isinstance(x, ast.Call) and isinstance(x.func, ast.Attribute) and x.func.attr in MUTATORS:
                                tg = [x.func]
                            for t_ in tg:
                                r_ = t_
                                while isinstance(r_, (ast.Attribute, ast.Subscript)):
                                    r_ = r_.value
                                if isinstance(r_, ast.Name) and r_.id == e and t_ is not r_:
                                    bad = x
                    tg = m.targets if isinstance(m, ast.Assign) else [m.target] if isinstance(m, ast.AugAssign) else []
                    extra = 0
                    if isinstance(m, ast.Call) and isinstance(m.func, ast.Attribute) and m.func.attr in MUTATORS:
                        tg, extra = [m.func.value], 1
                    for t_ in tg:
                        depth, r_ = extra, t_
                        while isinstance(r_, (ast.Attribute, ast.Subscript)):
                            depth += 1
                            r_ = r_.value
                        if isinstance(r_, ast.Name) and r_.id == y and depth >= 2:
                            bad = m
                ctx.ob(rule, f.site, bad is None, "" if bad is None else
                       f"`{ast.unparse(bst)[:40]}` is a shallow copy and `{ast.unparse(bad)[:50]}` modifies an element it shares with `{src}`",
                       role="shallow-copy-element-write", line=(bad.lineno if bad is not None else bst.lineno))
    return n
