"""C17 - matrix decompositions: only the last sentence ('invalid inputs are rejected with an error') is structural."""
from __future__ import annotations

import ast

from ..cfg import cfg_of, T as TRUE, F as FALSE
from ..dataflow import derives, rd_of, resolve_local, resolve_name, return_values, expand_locals
from ..loader import dotted, walk_no_nested
from .common_guard import raising_ifs, sufficient, rel

DEC = "decompositions.py"


def _feat(a, v) -> set:
    """precondition classes whose FAILURE the sufficient atom (a == v) of a raising test expresses; `a` has its locals
    inlined, orientation / operand order / negation are normalised by sufficient() and rel()"""
    t = ast.unparse(a).replace(" ", "")
    r = rel(a, v)
    out = set()

    def mod2(e):
        return any(isinstance(x, ast.BinOp) and isinstance(x.op, ast.Mod) and isinstance(x.right, ast.Constant) and
                   x.right.value == 2 for x in ast.walk(e))

    def const(e, val=None):
        return isinstance(e, ast.Constant) and (val is None or e.value == val)

    transposed = "np.transpose(" in t or ".T" in t
    if r is not None and r[0] == "!=":
        l, rr = r[1], r[2]
        if isinstance(l, ast.Name) and isinstance(rr, ast.Name):
            out.add("square")
        if "shape[0]" in t and "shape[1]" in t:
            out.add("square")
        if mod2(a) and (const(l, 0) or const(rr, 0)):
            out.add("even")
        if ".shape" in t and (isinstance(l, ast.Tuple) or isinstance(rr, ast.Tuple)):
            out.add("shape")
    if r is not None and r[0] == "==" and mod2(a) and (const(r[1], 1) or const(r[2], 1)):
        out.add("even")
    if isinstance(a, ast.Call) and (dotted(a.func) or "").split(".")[-1] in ("allclose", "isclose", "array_equal") and not v:
        if transposed and "@" not in t and "conj" not in t:
            out.add("symmetric")
        if ".conj().T" in t and ("identity(" in t or "eye(" in t):
            out.add("unitary")
        if "det(" in t:
            out.add("unit-det")
        if "@" in t and ("sympmat" in t or "omega" in t.lower()):
            out.add("symplectic")
    if r is not None and r[0] in (">", ">="):
        big, small = r[1], r[2]
        bt = ast.unparse(big).replace(" ", "")
        if "norm(" in bt:
            if ("np.transpose(" in bt or ".T" in bt) and "@" not in bt and "conj" not in bt:
                out.add("symmetric")
            if "@" in bt and ("sympmat" in bt or "omega" in bt.lower()):
                out.add("symplectic")
            if ".conj().T" in bt and ("identity(" in bt or "eye(" in bt):
                out.add("unitary")
        if const(big, 0):
            out.add("positive-definite")
        if const(big) and isinstance(big.value, int) and big.value > 0 and not const(small):
            out.add("min-size")
    return out


REQUIRED = {
    "takagi": {"square", "symmetric"},
    "graph_embed": {"square", "symmetric"},
    "graph_embed_deprecated": {"square", "symmetric"},
    "bipartite_graph_embed": {"square"},
    "rectangular": {"unitary"},
    "rectangular_phase_end": {"unitary"},
    "rectangular_MZ": {"unitary"},
    "rectangular_symmetric": {"unitary"},
    "triangular": {"unitary"},
    "triangular_compact": {"square", "unitary"},
    "rectangular_compact": {"square", "unitary"},
    "williamson": {"square", "symmetric", "even", "positive-definite"},
    "bloch_messiah": {"square", "even", "symplectic"},
    "sun_compact": {"min-size", "unitary"},
    "nullTi": {"square"}, "nullT": {"square"}, "nullMZi": {"square"}, "nullMZ": {"square"},
    "_su2_parameters": {"shape", "unit-det"}, "_su3_parameters": {"shape", "unit-det"},
}


def established(ctx, f, seen=()):
    """precondition classes that are checked by a raising ValueError guard dominating every return of f,
    directly or by an unconditional call that passes f's first parameter on to a checking function"""
    cfg = cfg_of(f.node)
    rets = [i for i in cfg.ids() if isinstance(cfg.node(i).ast, ast.Return)]
    param = f.pos_params[0]
    got = set()
    for n, lab, exc in raising_ifs(f):
        if not (exc or "").endswith("ValueError"):
            continue
        if rets and not all(cfg.dominates(n.id, r) or _loop_guard(cfg, n.id, r) for r in rets):
            continue
        for a, v in sufficient(n.ast, lab == TRUE):
            got |= _feat(expand_locals(f.node, a, at=n.id), v)
    m = f.module
    for nd in cfg.nodes:
        if nd.kind != "stmt" or nd.ast is None:
            continue
        for c in walk_no_nested(nd.ast):
            if isinstance(c, ast.Call) and isinstance(c.func, ast.Name) and c.func.id in m.functions and c.func.id not in seen \
                    and c.args and dotted(c.args[0]) == param:
                # param not reassigned before the call
                from ..dataflow import rd_of
                ds = rd_of(f.node).reaching(param, nd.id)
                if not all(d.kind == "param" for d in ds):
                    continue
                if rets and all(cfg.dominates(nd.id, r) for r in rets):
                    got |= established(ctx, m.functions[c.func.id], seen + (f.name,))
    return got


def _loop_guard(cfg, g, r) -> bool:
    """guard inside a `for` over values of the input; the loop header dominates the return"""
    p = getattr(cfg.node(g).stmt, "parent", None)
    while p is not None and not isinstance(p, (ast.For, ast.FunctionDef)):
        p = getattr(p, "parent", None)
    if not isinstance(p, ast.For):
        return False
    h = cfg.find(p)
    return bool(h) and cfg.dominates(h[0], r)


def guards(ctx, rule="C17.guards"):
    ctx.explain(f"{rule}: every public decomposition routine establishes each documented precondition class (square, "
                "symmetric, unitary, even dimension, positive definite, symplectic, minimum size) with a raising "
                "ValueError guard that dominates every return - directly or by handing its input unchanged to a "
                "routine that does.")
    ctx.trust("REQUIRED precondition table in sfa/rules/c17.py (from the Args / Raises sections of the docstrings)")
    m = ctx.tree.module(DEC)
    for name, req in sorted(REQUIRED.items()):
        f = m.functions.get(name)
        ctx.require(f is not None, f"decompositions.{name} vanished")
        got = established(ctx, f)
        for r in sorted(req):
            ok = r in got
            ctx.ob(rule, f.site, ok, "" if ok else f"{name} no longer rejects an input that is not '{r}' before computing "
                   "(a wrong decomposition is returned instead of an error)", role=f"pre:{r}", line=f.node.lineno)
    ctx.floor(rule, 33)


def exact_special_cases(ctx, rule="C17.exact-cases"):
    from .common_guard import path_facts
    ctx.explain(f"{rule}: where a decomposition routine replaces a data-dependent angle (arctan / angle of matrix elements) by a CONSTANT "
                "in a special case (an element is zero: no rotation, or a swap), the special case is selected by an EXACT test of the "
                "element (`== 0`): under a tolerance test (np.isclose, abs(x) < tol) an element of size 1e-9 is treated as zero, its "
                "nulling rotation is dropped and the factors no longer multiply back to the input within numerical precision.")
    n = 0
    for f in ctx.tree.module(DEC).functions.values():
        rd = rd_of(f.node)
        cfg = rd.cfg
        by_var = {}
        for ds in rd.defs_at.values():
            for d in ds:
                if d.kind == "assign" and isinstance(d.value, ast.AST) and d.index is None:
                    by_var.setdefault(d.var, set()).add(d)
        for var, ds in sorted(by_var.items()):
            def data_dependent(v):
                return any(isinstance(x, ast.Call) and (dotted(x.func) or "").split(".")[-1] in ("arctan", "arctan2", "angle", "arccos", "arcsin")
                           for x in ast.walk(v))

            def constant(v):
                return all(x.id in ("np", "pi", "math", "numpy") for x in ast.walk(v) if isinstance(x, ast.Name)) and \
                    not any(isinstance(x, (ast.Subscript, ast.Call)) for x in ast.walk(v))
            if not any(data_dependent(d.value) for d in ds):
                continue
            k = 0
            common = set()
            for d in ds:
                if data_dependent(d.value):
                    common |= {(ast.unparse(a), v) for a, v in path_facts(cfg, d.node)}
            for d in sorted((d for d in ds if constant(d.value)), key=lambda d: d.stmt.lineno):
                if isinstance(d.value, ast.Constant) and d.value.value is None:
                    continue
                # the facts that select THIS branch (not the validation guards shared with the general case) and test an element
                fs = [(a, v) for a, v in path_facts(cfg, d.node) if (ast.unparse(a), v) not in common
                      and any(isinstance(x, ast.Subscript) for x in ast.walk(a))]
                if not fs:
                    continue            # an initialisation, or a case selected by loop indices - not an element test
                k += 1
                n += 1
                bad = None
                for a, v in fs:
                    r_ = rel(a, v)
                    exact = r_ is not None and r_[0] == "==" and any(isinstance(x, ast.Constant) and x.value == 0 for x in (r_[1], r_[2]))
                    if isinstance(a, ast.Subscript) and v is False:
                        exact = True        # `if not U[m, n]:` - the truth value of the element itself is an exact zero test
                    if not exact:
                        bad = a
                ok = bad is None
                ctx.ob(rule, f.site, ok, "" if ok else f"`{var} = {ast.unparse(d.value)[:20]}` is selected by "
                       f"`{ast.unparse(bad)[:50]}`, not by an exact zero test: a small but non-zero element loses its rotation",
                       role=f"exact:{var}:{k}", line=d.stmt.lineno)
    ctx.require(n >= 4, f"only {n} constant special cases of data-dependent angles found in decompositions.py")
    ctx.floor(rule, 4)


def rules(ctx):
    guards(ctx)
    symmetric_not_hermitian(ctx)
    exact_special_cases(ctx)


def symmetric_not_hermitian(ctx, rule="C17.guards"):
    ctx.explain(f"{rule}: (symmetric, not Hermitian) the decompositions of this module are for complex SYMMETRIC matrices (Takagi / "
                "Autonne): no test in decompositions.py compares a matrix with its own CONJUGATE transpose (allclose(A, A.conj().T), "
                "norm(A - A.conj().T)) - that accepts Hermitian and rejects complex symmetric input.")
    n = 0
    for f in ctx.tree.module(DEC).functions.values():
        for c in walk_no_nested(f.node):
            pair = None
            if isinstance(c, ast.Call) and (dotted(c.func) or "").split(".")[-1] in ("allclose", "isclose", "array_equal") and len(c.args) >= 2:
                pair = (c.args[0], c.args[1])
            if isinstance(c, ast.BinOp) and isinstance(c.op, ast.Sub):
                pair = (c.left, c.right)
            if pair is None:
                continue
            a, b = (ast.unparse(x).replace(" ", "") for x in pair)
            forms = lambda x: {f"{x}.conj().T", f"{x}.T.conj()", f"np.conj({x}).T", f"np.conj({x}.T)", f"np.transpose({x}).conj()",
                               f"np.conjugate({x}).T", f"{x}.conjugate().T", f"np.transpose(np.conj({x}))", f"{x}.conj().transpose()"}
            plain = lambda x: {f"{x}.T", f"np.transpose({x})", f"{x}.transpose()"}
            if b in plain(a) or a in plain(b):
                n += 1
                ctx.ob(rule, f.site, True, role="symmetry-test", line=c.lineno)
            elif b in forms(a) or a in forms(b):
                n += 1
                ctx.ob(rule, f.site, False, f"`{ast.unparse(c)[:60]}` tests for a Hermitian matrix where the decomposition needs a "
                       "(complex) symmetric one", role="symmetry-test", line=c.lineno)
    ctx.floor(rule, 30)
