"""C17 - matrix decompositions: only the last sentence ('invalid inputs are rejected with an error') is structural."""
from __future__ import annotations

import ast

from ..cfg import cfg_of, T as TRUE, F as FALSE
from ..dataflow import derives
from ..loader import dotted, walk_no_nested
from .common_guard import raising_ifs

DEC = "decompositions.py"


def _feat(test, txt, param) -> set:
    """precondition classes a raising test checks"""
    t = txt.replace(" ", "")
    out = set()
    if isinstance(test, ast.Compare) and isinstance(test.ops[0], ast.NotEq) and isinstance(test.left, ast.Name) and \
            isinstance(test.comparators[0], ast.Name):
        out.add("square")
    if "shape[0]==" in t and "shape[1]" in t:
        out.add("square")
    if ("np.transpose(" in t or ".T" in t) and "@" not in t and ("norm(" in t or "allclose(" in t):
        out.add("symmetric")
    if ".conj().T" in t and "allclose(" in t and ("identity(" in t or "eye(" in t):
        out.add("unitary")
    if "%2!=0" in t:
        out.add("even")
    if "<=0" in t:
        out.add("positive-definite")
    if "omega" in t and "@" in t:
        out.add("symplectic")
    if isinstance(test, ast.Compare) and isinstance(test.ops[0], ast.Lt) and isinstance(test.comparators[0], ast.Constant):
        out.add("min-size")
    if ".shape!=" in t:
        out.add("shape")
    if "det(" in t:
        out.add("unit-det")
    return out


REQUIRED = {
    "takagi": {"square", "symmetric"},
    "graph_embed": {"square", "symmetric"},
    "graph_embed_deprecated": {"square", "symmetric"},
    "bipartite_graph_embed": {"square"},
    "rectangular": {"unitary"},
    "rectangular_phase_end": {"unitary"},
    "rectangular_MZ": {"unitary"},
    "rectangular_symmetric": {"unitary"},
    "triangular": {"unitary"},
    "triangular_compact": {"square", "unitary"},
    "rectangular_compact": {"square", "unitary"},
    "williamson": {"square", "symmetric", "even", "positive-definite"},
    "bloch_messiah": {"square", "even", "symplectic"},
    "sun_compact": {"min-size", "unitary"},
    "nullTi": {"square"}, "nullT": {"square"}, "nullMZi": {"square"}, "nullMZ": {"square"},
    "_su2_parameters": {"shape", "unit-det"}, "_su3_parameters": {"shape", "unit-det"},
}


def established(ctx, f, seen=()):
    """precondition classes that are checked by a raising ValueError guard dominating every return of f,
    directly or by an unconditional call that passes f's first parameter on to a checking function"""
    cfg = cfg_of(f.node)
    rets = [i for i in cfg.ids() if isinstance(cfg.node(i).ast, ast.Return)]
    param = f.pos_params[0]
    got = set()
    for n, lab, exc in raising_ifs(f):
        if not (exc or "").endswith("ValueError"):
            continue
        if rets and not all(cfg.dominates(n.id, r) or _loop_guard(cfg, n.id, r) for r in rets):
            continue
        # the raising side must be the one where the precondition FAILS: for `if not ok(...)`/`!=`/`>= tol` that is the true branch
        if lab != TRUE:
            continue
        txt = ast.unparse(n.ast)
        # one level of local definitions: diffn = norm(V - V.T); if diffn >= tol
        from ..dataflow import rd_of
        rd = rd_of(f.node)
        for nm in {x.id for x in ast.walk(n.ast) if isinstance(x, ast.Name)}:
            for d in rd.reaching(nm, n.id):
                if d.kind == "assign" and d.value is not None and d.index is None:
                    txt += " ; " + ast.unparse(d.value)
        got |= _feat(n.ast, txt, param)
    m = f.module
    for nd in cfg.nodes:
        if nd.kind != "stmt" or nd.ast is None:
            continue
        for c in walk_no_nested(nd.ast):
            if isinstance(c, ast.Call) and isinstance(c.func, ast.Name) and c.func.id in m.functions and c.func.id not in seen \
                    and c.args and dotted(c.args[0]) == param:
                # param not reassigned before the call
                from ..dataflow import rd_of
                ds = rd_of(f.node).reaching(param, nd.id)
                if not all(d.kind == "param" for d in ds):
                    continue
                if rets and all(cfg.dominates(nd.id, r) for r in rets):
                    got |= established(ctx, m.functions[c.func.id], seen + (f.name,))
    return got


def _loop_guard(cfg, g, r) -> bool:
    """guard inside a `for` over values of the input; the loop header dominates the return"""
    p = getattr(cfg.node(g).stmt, "parent", None)
    while p is not None and not isinstance(p, (ast.For, ast.FunctionDef)):
        p = getattr(p, "parent", None)
    if not isinstance(p, ast.For):
        return False
    h = cfg.find(p)
    return bool(h) and cfg.dominates(h[0], r)


def guards(ctx, rule="C17.guards"):
    ctx.explain(f"{rule}: every public decomposition routine establishes each documented precondition class (square, "
                "symmetric, unitary, even dimension, positive definite, symplectic, minimum size) with a raising "
                "ValueError guard that dominates every return - directly or by handing its input unchanged to a "
                "routine that does.")
    ctx.trust("REQUIRED precondition table in sfa/rules/c17.py (from the Args / Raises sections of the docstrings)")
    m = ctx.tree.module(DEC)
    for name, req in sorted(REQUIRED.items()):
        f = m.functions.get(name)
        ctx.require(f is not None, f"decompositions.{name} vanished")
        got = established(ctx, f)
        for r in sorted(req):
            ok = r in got
            ctx.ob(rule, f.site, ok, "" if ok else f"{name} no longer rejects an input that is not '{r}' before computing "
                   "(a wrong decomposition is returned instead of an error)", role=f"pre:{r}", line=f.node.lineno)
    ctx.floor(rule, 33)


def rules(ctx):
    guards(ctx)
