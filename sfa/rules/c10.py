"""C10 - symbolic parameters (structural clauses)."""
from __future__ import annotations

import ast

from ..cfg import cfg_of, T as TRUE, F as FALSE
from ..dataflow import derives, rd_of, resolve_local, return_values, expand_locals
from .common_guard import raise_facts, path_facts, facts
from ..loader import dotted, walk_no_nested
from ..tables import op_classes
from . import c04

PA = "parameters.py"

APPLY_EXCEPTIONS = {
    "GKP": "documented: GKP arguments are lists / strings / scalars and cannot be symbolic (checked by the bosonic "
           "backend's parameter_checker, rejected with CircuitError)",
}


def errors(ctx, rule="C10.errors"):
    ctx.explain(f"{rule}: MeasuredParameter/FreeParameter evaluation raises ParameterError on the unmeasured / unbound "
                "paths before any value is returned; bind_params raises ParameterError for unknown keys.")
    f = ctx.tree.func(PA, "MeasuredParameter._eval_evalf")
    cfg = cfg_of(f.node)
    ok = False
    for n, exc, fs in raise_facts(f):
        for a, truth in fs:
            if truth and isinstance(a, ast.Compare) and isinstance(a.ops[0], ast.Is) and \
                    isinstance(a.comparators[0], ast.Constant) and a.comparators[0].value is None:
                d = derives(f.node, a.left, n.id)
                if any(x.endswith("regref.val") for x in d.attrs) or "val" in d.attr_reads:
                    # dominates every return
                    rets = [i for i in cfg.ids() if isinstance(cfg.node(i).ast, ast.Return)]
                    ok = ok or bool(rets) and all(cfg.dominates(n.id, r) for r in rets)
    ctx.ob(rule, f.site, ok, "" if ok else "a measured parameter can be evaluated before its mode has been measured "
           "(no raising `val is None` guard ahead of the returns)", role="unmeasured", line=f.node.lineno)
    rets = [n for n in walk_no_nested(f.node) if isinstance(n, ast.Return) and n.value is not None]
    ok = bool(rets) and all(any(a.endswith("regref.val") for a in derives(f.node, r.value).attrs) for r in rets)
    ctx.ob(rule, f.site, ok, "" if ok else "the value returned does not come from self.regref.val (the most recent "
           "outcome of the mode)", role="most-recent", line=f.node.lineno)
    g = ctx.tree.func(PA, "FreeParameter._eval_evalf")
    cfgg = cfg_of(g.node)
    def is_none(a, attr):
        a = expand_locals(g.node, a)
        return isinstance(a, ast.Compare) and isinstance(a.ops[0], ast.Is) and isinstance(a.comparators[0], ast.Constant) \
            and a.comparators[0].value is None and dotted(a.left) == attr
    # every path on which val and default are both None ends in the raise: no value-returning statement is
    # reachable under the facts (val is None, default is None)
    ok = False
    for nd in cfgg.nodes:
        if nd.kind == "stmt" and isinstance(nd.ast, ast.Raise):
            pf = path_facts(cfgg, nd.id)
            if any(t and is_none(a, "self.val") for a, t in pf) and any(t and is_none(a, "self.default") for a, t in pf):
                ok = True
    for nd in cfgg.nodes:
        if nd.kind == "stmt" and isinstance(nd.ast, ast.Return):
            d = derives(g.node, nd.ast.value, nd.id) if nd.ast.value is not None else None
            pf = path_facts(cfgg, nd.id)
            if d is not None and "self.default" in d.attrs and not any(t and is_none(a, "self.val") for a, t in pf):
                ok = False  # the default is handed out although a value is bound
    ctx.ob(rule, g.site, ok, "" if ok else "an unbound free parameter without default no longer raises", role="unbound",
           line=g.node.lineno)
    for fn in (f, g):
        for n in walk_no_nested(fn.node):
            if isinstance(n, ast.Raise) and n.exc is not None:
                nm = dotted(n.exc.func) if isinstance(n.exc, ast.Call) else dotted(n.exc)
                ctx.ob(rule, fn.site, nm == "ParameterError", "" if nm == "ParameterError" else
                       f"raises {nm} instead of ParameterError", role="raise-type", line=n.lineno)
    b = ctx.tree.func("program.py", "Program.bind_params")
    cfb = cfg_of(b.node)
    raises = [n for n in walk_no_nested(b.node) if isinstance(n, ast.Raise) and isinstance(n.exc, ast.Call)
              and dotted(n.exc.func) == "ParameterError"]
    ok = False
    for r in raises:
        # reached only when the key is neither a known name nor a known parameter
        pf = path_facts(cfb, cfb.find(r)[0])
        # (the truth orientation of a fact depends on how the test is written - `if temp:` / `if temp != 0:` / `if temp is None:` -
        # so only the dependence on both look-ups is required)
        neg = [a for a, t in pf if "free_params" in ast.unparse(expand_locals(b.node, a))]
        if len(neg) >= 2:
            ok = True
    ctx.ob(rule, b.site, ok, "" if ok else "bind_params no longer raises ParameterError for an unknown key", role="unknown-key",
           line=b.node.lineno)
    ctx.floor(rule, 6)


def evaluate_at_apply(ctx, rule="C10.evaluate-at-apply"):
    ctx.explain(f"{rule}: in every _apply a value derived from self.p reaches a backend.* argument only through "
                "par_evaluate, and no _apply / apply stores into self.p except the paired overwrite of Gate.apply "
                "(no caching of a measured value: the most recent outcome is used).")
    ops = op_classes(ctx.tree)
    n = 0
    for name, c in sorted(ops.items()):
        f = c.methods.get("_apply")
        if f is None:
            continue
        for call in [x for x in walk_no_nested(f.node) if isinstance(x, ast.Call) and (dotted(x.func) or "").startswith("backend.")]:
            args = [a.value if isinstance(a, ast.Starred) else a for a in call.args] + [k.value for k in call.keywords]
            raw = []
            for a in args:
                d = derives(f.node, a, stop_calls=("par_evaluate",))
                if "self.p" in d.attrs:
                    raw.append(ast.unparse(a)[:30])
            n += 1
            if raw and name in APPLY_EXCEPTIONS:
                ctx.note(f"{rule}: {name}._apply passes {raw} unevaluated - listed exception: {APPLY_EXCEPTIONS[name]}")
                continue
            ctx.ob(rule, f.site, not raw, "" if not raw else f"argument(s) {raw} of {dotted(call.func)} come from self.p "
                   "without par_evaluate: a symbolic (measured / free) parameter reaches the simulator unevaluated",
                   role=f"call:{dotted(call.func)}", line=call.lineno)
        for x in walk_no_nested(f.node):
            if isinstance(x, (ast.Assign, ast.AugAssign)):
                tg = x.targets if isinstance(x, ast.Assign) else [x.target]
                for t in tg:
                    b = t
                    while isinstance(b, ast.Subscript):
                        b = b.value
                    if dotted(b) == "self.p":
                        ctx.ob(rule, f.site, False, f"`{ast.unparse(x)[:50]}` stores into self.p inside _apply: an evaluated "
                               "(measured) value is cached in the operation and reused after a re-measurement",
                               role="store-into-p", line=x.lineno)
    ctx.require(n >= 30, f"only {n} backend calls found in _apply methods")
    # par_evaluate evaluates both kinds of atoms through _eval_evalf
    pe = ctx.tree.func(PA, "par_evaluate.<locals>.do_evaluate")
    atoms = [x for x in walk_no_nested(pe.node) if isinstance(x, ast.Call) and isinstance(x.func, ast.Attribute)
             and x.func.attr == "atoms"]
    ok = bool(atoms) and {dotted(a) for a in atoms[0].args} >= {"MeasuredParameter", "FreeParameter"}
    ctx.ob(rule, pe.site, ok, "" if ok else "par_evaluate does not substitute both measured and free parameter atoms",
           role="atoms", line=pe.node.lineno)
    ev = any(isinstance(x, ast.Call) and isinstance(x.func, ast.Attribute) and x.func.attr == "_eval_evalf"
             for x in walk_no_nested(pe.node))
    ctx.ob(rule, pe.site, ev, "" if ev else "atoms are not evaluated through _eval_evalf (the raising accessor)",
           role="eval-evalf", line=pe.node.lineno)
    rec = any(isinstance(x, ast.Call) and dotted(x.func) == "do_evaluate" for x in walk_no_nested(pe.node))
    ctx.ob(rule, pe.site, rec, "" if rec else "object arrays are not evaluated element-wise", role="array-recursion",
           line=pe.node.lineno)
    ctx.floor(rule, 33)


def symbol_cache(ctx, rule="C10.symbol-cache"):
    ctx.explain(f"{rule}: a class deriving from sympy.Symbol (whose __new__ is memoised on class and name) keeps no "
                "per-program mutable state assigned in __init__.")
    for cn in ("MeasuredParameter", "FreeParameter"):
        c = ctx.tree.cls(PA, cn)
        ctx.require(c.has_external_base("sympy.Symbol") or c.has_external_base("Symbol"), f"{cn} no longer derives from sympy.Symbol")
        attrs = c.instance_attrs()
        for a in sorted(attrs):
            if a == "name":
                ctx.ob(rule, c.site, True, role=f"attr:{a}", line=c.node.lineno)
                continue
            ctx.ob(rule, c.site, False, f"{cn}.__init__ assigns `self.{a}` on an object that sympy caches per (class, name): "
                   "two programs using a parameter of the same name / the same mode index share one object, and "
                   "creating the second re-points or resets the first", role=f"attr:{a}", line=c.node.lineno)
        # the symbols carry no sympy assumptions: measured values can be complex (heterodyne) and free parameters can be bound
        # to anything; `real=True` & co. let sympy rewrite expressions (conjugate(q) -> q, im(q) -> 0) before the value exists
        nw = c.methods.get("__new__")
        if nw is not None:
            for call in walk_no_nested(nw.node):
                if isinstance(call, ast.Call) and isinstance(call.func, ast.Attribute) and call.func.attr == "__new__":
                    extra = [k.arg or "**" for k in call.keywords]
                    ctx.ob(rule, nw.site, not extra, "" if not extra else f"{cn}.__new__ creates the symbol with assumptions "
                           f"{extra}: sympy simplifies parameter expressions under them before the value is known",
                           role="no-assumptions", line=call.lineno)
    ctx.floor(rule, 3)


def par_convert(ctx, rule="C10.par-convert"):
    ctx.explain(f"{rule}: par_convert resolves a measured-parameter symbol q<k> through Program.reg_refs (keyed by mode "
                "index), not through the positional Program.register.")
    f = ctx.tree.func(PA, "par_convert.<locals>.do_convert")
    found = False
    for n in walk_no_nested(f.node):
        if isinstance(n, ast.Call) and dotted(n.func) == "MeasuredParameter" and n.args:
            found = True
            a = n.args[0]
            ok = isinstance(a, ast.Subscript) and isinstance(a.value, ast.Attribute) and a.value.attr == "reg_refs"
            pos = isinstance(a, ast.Subscript) and isinstance(a.value, ast.Attribute) and a.value.attr == "register"
            ctx.ob(rule, f.site, ok, "" if ok else ("q<k> is looked up as the k-th *active* mode (Program.register): after a "
                   "deletion the parameter is bound to another mode" if pos else "q<k> is not resolved through reg_refs"),
                   role="lookup", line=n.lineno)
    ctx.require(found, "par_convert no longer builds MeasuredParameter objects")
    # the mode index is the WHOLE numeric suffix of the symbol name
    for n in walk_no_nested(f.node):
        if isinstance(n, ast.Call) and dotted(n.func) == "MeasuredParameter" and n.args and isinstance(n.args[0], ast.Subscript):
            ix = n.args[0].slice
            d = derives(f.node, ix)
            txt = ast.unparse(ix).replace(" ", "")
            if ".name[1:]" in txt and txt.startswith("int("):
                ctx.ob(rule, f.site, True, role="whole-suffix", line=n.lineno)
                continue
            pats = [c for c in d.call_nodes if (dotted(c.func) or "").startswith("re.") and c.args and
                    isinstance(c.args[0], ast.Constant) and isinstance(c.args[0].value, str)]
            if not pats:
                ctx.na(rule, f.site, f"conversion of the symbol name to a mode index not understood: {txt}")
                continue
            for c in pats:
                ok, why = _regex_whole_suffix(c.args[0].value, dotted(c.func))
                ctx.ob(rule, f.site, ok, "" if ok else f"pattern {c.args[0].value!r}: {why}; q11 would be resolved to another "
                       "mode than 11", role="whole-suffix", line=c.lineno)
    ctx.floor(rule, 2)


def _regex_whole_suffix(pat: str, fn: str):
    """does the pattern capture the complete run of digits after 'q' and nothing else match?  Decided on the parsed
    regular expression (re._parser), not by running it"""
    try:
        import re._parser as sre
        from re._constants import MAXREPEAT
    except Exception:  # pragma: no cover
        return True, ""
    try:
        parsed = list(sre.parse(pat))
    except Exception as e:
        return False, f"pattern does not parse: {e}"
    ops = [(str(op), av) for op, av in parsed]
    names = [o for o, _ in ops]
    if not names or names[0] != "LITERAL" or ops[0][1] != ord("q"):
        return False, "pattern does not start with the literal 'q'"
    grp = [av for o, av in ops if o == "SUBPATTERN"]
    if not grp:
        return False, "no capturing group for the index"
    inner = list(grp[0][3])
    rep = [(str(o), av) for o, av in inner]
    if len(rep) != 1 or rep[0][0] not in ("MAX_REPEAT",):
        return False, "the group captures a single digit, not the whole run of digits"
    lo, hi, _ = rep[0][1]
    if hi != MAXREPEAT:
        return False, "the number of captured digits is bounded"
    anchored = fn.endswith("fullmatch") or any(o == "AT" and "END" in str(av) for o, av in ops)
    if not anchored:
        return False, "the pattern is not anchored at the end of the name (use fullmatch or $)"
    return True, ""


def ctor_guard(ctx, rule="C10.symbol-cache"):
    """FreeParameter(name) re-initialises the memoised symbol of that name: Program.params may construct one only
    for a name it does not know yet"""
    f = ctx.tree.func("program.py", "Program.params")
    cfg = cfg_of(f.node)
    calls = [n for n in walk_no_nested(f.node) if isinstance(n, ast.Call) and dotted(n.func) == "FreeParameter"]
    ctx.require(calls, "Program.params no longer creates FreeParameter objects")
    for c in calls:
        nid = cfg.node_of_expr(c)[0]
        ok = any(not t and isinstance(a, ast.Compare) and isinstance(a.ops[0], ast.In) and
                 "free_params" in ast.unparse(expand_locals(f.node, a)) for a, t in path_facts(cfg, nid))
        ctx.ob(rule, f.site, ok, "" if ok else "FreeParameter(name) is constructed although the name may already exist: "
               "sympy returns the cached symbol and __init__ resets its bound value and default", role="ctor-guard",
               line=c.lineno)


def values(ctx):
    from . import c08
    c08.values(ctx)
    for o in ctx.obls:
        if o.rule == "C08.values":
            o.rule = "C10.values"
            o.key = o.key.replace("C08.values", "C10.values")
    ctx.floors.pop("C08.values", None)
    ctx.floor("C10.values", 2)


def rules(ctx):
    ctor_guard(ctx)
    values(ctx)
    errors(ctx)
    evaluate_at_apply(ctx)
    symbol_cache(ctx)
    par_convert(ctx)
    c04.dep_key(ctx, "C10.deps")
    # measured values live in the RegRefs of the programs that were run: a reset must clear all of them, or a later run
    # evaluates measured parameters with outcomes of the previous computation
    from . import c09
    c09.reset_completeness(ctx, "C10.reset")
    # a measured parameter evaluates to regref.val: the value must have been stored for the right register, and a parameter that
    # depends on a foreign / deleted register must be rejected when the operation is appended (shared with C06 / C08)
    from . import c06 as _c06, c08 as _c08
    ctx.shared(_c06.store)
    ctx.shared(_c08.validation)
