"""C20 - trainable GBS / chemistry (structural clauses: hbar passed consistently, passive time evolution,
per-mode index agreement, operator order of the Doktorov circuit)."""
from __future__ import annotations

import ast

from ..dataflow import derives, rd_of, resolve_local, resolve_name, return_values, expand_locals
from ..loader import dotted, walk_no_nested
from . import common_hbar as Hb

PASSIVE = {"Rgate": "R(theta) = exp(i theta n) commutes with n", "BSgate": "beamsplitter conserves n1 + n2",
           "MZgate": "beamsplitters and rotations", "sMZgate": "beamsplitters and rotations",
           "Interferometer": "unitary mixing of annihilation operators"}
DYN = "apps/qchem/dynamics.py"
VIB = "apps/qchem/vibronic.py"


def _applied_ops(fn_node):
    """[(class name, call node, register expr)] for `sf.ops.X(...) | reg` / `X(...) | reg` statements, in source order"""
    out = []
    bound = {}
    for n in ast.walk(fn_node):
        if isinstance(n, ast.Assign) and isinstance(n.targets[0], ast.Name) and isinstance(n.value, ast.Call):
            bound[n.targets[0].id] = n.value
    for n in ast.walk(fn_node):
        if isinstance(n, ast.BinOp) and isinstance(n.op, ast.BitOr):
            left = n.left
            if isinstance(left, ast.Name) and left.id in bound:
                left = bound[left.id]
            if isinstance(left, ast.Call):
                cn = dotted(left.func) or ""
                out.append((cn.split(".")[-1], left, n.right, n.lineno))
    return sorted(out, key=lambda x: x[3])


def hbar(ctx, rule="C20.hbar"):
    Hb.thewalrus_kw(ctx, rule, "apps/train/param.py", {"__returns__": {"A_to_cov": Hb.O, "_Omat": Hb.Z}})
    Hb.thewalrus_kw(ctx, rule, "apps/qchem/utils.py", {"marginals": {"mu": Hb.H, "V": Hb.O}})
    # A_to_cov scales with sf.hbar
    f = ctx.tree.func("apps/train/param.py", "A_to_cov")
    def factors(e):
        if isinstance(e, ast.BinOp) and isinstance(e.op, (ast.Mult, ast.MatMult)):
            return factors(e.left) + factors(e.right)
        if isinstance(e, ast.BinOp) and isinstance(e.op, ast.Div):
            return factors(e.left)
        return [e]
    rets = [expand_locals(f.node, v) for _, v in return_values(f.node)]
    ok = bool(rets) and all(any(dotted(s) in ("sf.hbar", "hbar") for s in factors(v)) for v in rets)
    ctx.ob(rule, f.site, ok, "" if ok else "A_to_cov no longer returns sf.hbar * (...): its consumers pass hbar=sf.hbar to "
           "thewalrus, so the covariance must scale with hbar", role="cov-scales-with-hbar", line=f.node.lineno)
    ctx.floor(rule, 6)


def passive(ctx, rule="C20.passive"):
    ctx.explain(f"{rule}: the operation built by qchem.dynamics.TimeEvolution applies only photon-number conserving "
                "(passive) gate classes, one rotation per mode with the angle of that mode; the sample_* drivers "
                "sandwich it between Interferometer(Ul.T) and Interferometer(Ul) on the same register.")
    ctx.trust("PASSIVE gate table in sfa/rules/c20.py")
    op = ctx.tree.func(DYN, "TimeEvolution.<locals>.op")
    apps = _applied_ops(op.node)
    ctx.require(apps, "TimeEvolution.op applies no operation")
    for cn, call, reg, line in apps:
        ok = cn in PASSIVE
        ctx.ob(rule, op.site, ok, "" if ok else f"TimeEvolution applies {cn}, which does not conserve photon number",
               role=f"passive:{cn}", line=line)
        _index_agreement(ctx, rule, op, cn, call, reg, line)
    for qn in ("sample_fock", "sample_tmsv", "sample_coherent"):
        f = ctx.tree.func(DYN, qn)
        seq = [(cn, call, reg, line) for cn, call, reg, line in _applied_ops(f.node) if cn in ("Interferometer", "TimeEvolution")]
        names = [(cn, ast.unparse(call.args[0]) if call.args else "") for cn, call, reg, line in seq]
        ok = names == [("Interferometer", "Ul.T"), ("TimeEvolution", "w"), ("Interferometer", "Ul")] and \
            len({ast.unparse(reg) for _, _, reg, _ in seq}) == 1
        ctx.ob(rule, f.site, ok, "" if ok else f"{qn} does not apply Interferometer(Ul.T), TimeEvolution(w, t), "
               f"Interferometer(Ul) in this order on one register: {names}", role="sandwich", line=f.node.lineno)
    ctx.floor(rule, 5)


def _index_agreement(ctx, rule, f, cn, call, reg, line):
    """X(p[i], ...) | q[j]  ->  i == j"""
    if not (isinstance(reg, ast.Subscript) and isinstance(reg.slice, ast.Name)):
        return
    j = reg.slice.id
    idx = {ast.unparse(s.slice) for a in call.args for s in ast.walk(a) if isinstance(s, ast.Subscript)}
    if not idx:
        return
    ok = idx == {j}
    ctx.ob(rule, f.site, ok, "" if ok else f"{cn} on register q[{j}] takes parameters of index {sorted(idx)}", role=f"index:{cn}",
           line=line)


def doktorov(ctx, rule="C20.doktorov"):
    ctx.explain(f"{rule}: VibronicTransition applies Interferometer(U1), Sgate(r[i]) | q[i], Interferometer(U2), "
                "Dgate(|alpha[i]|, arg alpha[i]) | q[i] in this order (Doktorov operator D(alpha) U2 S(r) U1), with "
                "per-mode index agreement; gbs_params hands back the SVD factors in the order the operation consumes.")
    op = ctx.tree.func(VIB, "VibronicTransition.<locals>.op")
    apps = _applied_ops(op.node)
    outer = ctx.tree.func(VIB, "VibronicTransition")
    ppos = {p: k for k, p in enumerate(outer.pos_params)}
    # which parameter of VibronicTransition(U1, r, U2, alpha) - by POSITION - feeds each applied operation
    kinds = [(cn, sorted({ppos[x.id] for a in call.args for x in ast.walk(a) if isinstance(x, ast.Name) and x.id in ppos}))
             for cn, call, reg, line in apps]
    ok = kinds == [("Interferometer", [0]), ("Sgate", [1]), ("Interferometer", [2]), ("Dgate", [3])]
    ctx.ob(rule, op.site, ok, "" if ok else f"operation order / parameters are {kinds}", role="order", line=op.node.lineno)
    # the matrices are applied as they are handed in: gbs_params already returns them in the convention of the operator
    for cn, call, reg, line in apps:
        if cn == "Interferometer":
            tr = [x for a in call.args for x in ast.walk(a) if isinstance(x, ast.Attribute) and x.attr in ("T", "H", "conj", "conjugate", "transpose")
                  or isinstance(x, ast.Call) and dotted(x.func) in ("np.transpose", "np.conj", "np.conjugate")]
            ctx.ob(rule, op.site, not tr, "" if not tr else f"`{ast.unparse(call)[:40]}` applies a transposed / conjugated factor: "
                   "the operator is D(alpha) U2 S(r) U1 with the factors as returned by gbs_params", role="factors-as-given", line=line)
    for cn, call, reg, line in apps:
        _index_agreement(ctx, rule, op, cn, call, reg, line)
    dg = [c for cn, c, r, l in apps if cn == "Dgate"]
    if dg:
        a = dg[0].args
        ok = len(a) == 2 and (dotted(a[0].func) if isinstance(a[0], ast.Call) else "") == "np.abs" and \
            (dotted(a[1].func) if isinstance(a[1], ast.Call) else "") == "np.angle"
        ctx.ob(rule, op.site, ok, "" if ok else "the displacement is not applied as Dgate(|alpha|, arg(alpha))", role="dgate-polar",
               line=dg[0].lineno)
    g = ctx.tree.func(VIB, "gbs_params")
    rets = [v for _, v in return_values(g.node) if isinstance(v, ast.Tuple)]
    ok = False
    if rets:
        elts = [resolve_name(g.node, e) for e in rets[0].elts]
        svd = [n for n in walk_no_nested(g.node) if isinstance(n, ast.Assign) and isinstance(n.value, ast.Call)
               and (dotted(n.value.func) or "").endswith("svd") and isinstance(n.targets[0], ast.Tuple) and len(n.targets[0].elts) == 3]
        if svd and len(elts) == 5:
            left, sing, right = [dotted(e) for e in svd[0].targets[0].elts]  # M = left @ diag(sing) @ right
            d2 = derives(g.node, elts[2])
            # Doktorov: U1 (applied first) is the right factor, U2 the left one, r = log of the singular values
            ok = dotted(elts[1]) == right and dotted(elts[3]) == left and d2.has_call("np.log", "log") and \
                any(dd.var == sing for dd in d2.defs)
    ctx.ob(rule, g.site, ok, "" if ok else "gbs_params does not return (t, U1, log s, U2, alpha) with U2, s, U1 = svd(...)",
           role="svd-order", line=g.node.lineno)
    # sample(): thermal two-mode squeezers pair mode i with i + n_modes; transition on the first n_modes
    s = ctx.tree.func(VIB, "sample")
    apps = _applied_ops(s.node)
    s2 = [(c, r) for cn, c, r, l in apps if cn == "S2gate"]
    ok = False
    if s2 and isinstance(s2[0][1], ast.Tuple) and len(s2[0][1].elts) == 2 and \
            all(isinstance(e, ast.Subscript) and isinstance(e.value, ast.Name) for e in s2[0][1].elts):
        e0, e1 = s2[0][1].elts
        i0 = ast.unparse(e0.slice).replace(" ", "")
        i1 = ast.unparse(e1.slice).replace(" ", "")
        if e0.value.id == e1.value.id and isinstance(e0.slice, ast.Name) and i1.startswith(i0 + "+"):
            half = i1[len(i0) + 1:]
            ok = any(cn == "VibronicTransition" and ast.unparse(r).replace(" ", "") == f"{e0.value.id}[:{half}]"
                     for cn, c, r, l in apps)
    ctx.ob(rule, s.site, ok, "" if ok else "sample() does not pair mode i with i + n_modes / apply the transition to the first "
           "n_modes modes", role="register-layout", line=s.node.lineno)
    ctx.floor(rule, 6)


def no_capture(ctx, rule="C20.no-capture"):
    ctx.explain(f"{rule}: the trainable-GBS model classes answer for the parameter vector they are handed: outside "
                "__init__ no method of VGBS / the cost classes stores a reference to a caller-owned argument in self "
                "(a cache keyed by the identity of an array the optimiser updates in place returns stale moments).")
    n = 0
    for rel in ("apps/train/param.py", "apps/train/cost.py"):
        for cls in ctx.tree.module(rel).classes.values():
            for name, f in sorted(cls.methods.items()):
                if name == "__init__":
                    continue
                n += 1
                params = {p for p in f.pos_params[1:] if p in ("params", "theta", "weights")}
                bad = None
                for x in walk_no_nested(f.node):
                    if isinstance(x, ast.Assign) and any(isinstance(t, ast.Attribute) and dotted(t.value) == "self" for t in x.targets):
                        v = x.value
                        if isinstance(v, ast.Name) and v.id in params:
                            bad = x
                        if isinstance(v, ast.Tuple) and any(isinstance(e, ast.Name) and e.id in params for e in v.elts):
                            bad = x
                ctx.ob(rule, f.site, bad is None, "" if bad is None else
                       f"`{ast.unparse(bad)[:50]}` keeps a reference to the caller's array: after an in-place update of the "
                       "parameters the stored key still compares equal and stale results are returned", role="captures-argument",
                       line=(bad.lineno if bad is not None else f.node.lineno))
    ctx.require(n >= 10, f"only {n} model methods found")
    ctx.floor(rule, 10)


def threshold_polarity(ctx, rule="C20.passive"):
    from ..cfg import cfg_of
    from .common_guard import path_facts
    ctx.explain(f"{rule}: (threshold selects the click statistics) in the trainable-GBS modules the `threshold` flag chooses between sibling "
                "routines: click / Torontonian ones (mean_clicks_by_mode, prob_click, rescale_tor, torontonian_sample_state) when it holds, "
                "photon-number / Hafnian ones (mean_photons_by_mode, prob_photon_sample, rescale, hafnian_sample_state) when it does not - at "
                "every one of the sites (statement branches, early returns and conditional expressions), so that cost, gradient, "
                "normalisation and samples of one model refer to the same detector.")

    def kind(name):
        n_ = name.lower()
        if "click" in n_ or "torontonian" in n_ or n_.endswith("_tor") or "_tor_" in n_:
            return "click"
        if "photon" in n_ or "hafnian" in n_ or n_ == "rescale":
            return "photon"
        return None
    n = 0
    for rel_ in ("apps/train/param.py", "apps/train/cost.py"):
        if rel_ not in ctx.tree.modules:
            continue
        for f in ctx.tree.module(rel_).functions.values():
            cfg = None
            k = 0
            for c in walk_no_nested(f.node):
                if not isinstance(c, ast.Call):
                    continue
                kd = kind((dotted(c.func) or "").split(".")[-1])
                if kd is None:
                    continue
                pol = None
                # conditional expressions
                ch, par = c, getattr(c, "parent", None)
                while par is not None and not isinstance(par, ast.stmt):
                    if isinstance(par, ast.IfExp) and "threshold" in ast.unparse(par.test) and ch is not par.test:
                        t, neg = par.test, False
                        while isinstance(t, ast.UnaryOp) and isinstance(t.op, ast.Not):
                            t, neg = t.operand, not neg
                        pol = (ch is par.body) != neg
                    ch, par = par, getattr(par, "parent", None)
                if pol is None:
                    cfg = cfg or cfg_of(f.node)
                    ids = cfg.node_of_expr(c)
                    for a, v in (path_facts(cfg, ids[0]) if ids else []):
                        if "threshold" in ast.unparse(a) and isinstance(a, (ast.Attribute, ast.Name)):
                            pol = bool(v)
                if pol is None:
                    continue
                n += 1
                k += 1
                ok = pol == (kd == "click")
                ctx.ob(rule, f.site, ok, "" if ok else f"`{ast.unparse(c)[:50]}` ({'click' if kd == 'click' else 'photon-number'} statistics) is used when "
                       f"`threshold` is {'true' if pol else 'false'}: the sibling sites use the other routine there", role=f"threshold:{kd}:{k}", line=c.lineno)
    ctx.require(n >= 6, f"only {n} threshold-selected click / photon routines found in apps/train")
    ctx.floor(rule, 6)


def rules(ctx):
    no_capture(ctx)
    hbar(ctx)
    passive(ctx)
    doktorov(ctx)
    fixed_samples(ctx)
    threshold_polarity(ctx)
    from . import c19 as _c19
    _c19.padding_guard(ctx, "C20.fit-guard")
    ctx.floor("C20.fit-guard", 1)


def fixed_samples(ctx, rule="C20.no-capture"):
    ctx.explain(f"{rule}: (fixed sample set) VGBS.get_A_init_samples hands out the STORED samples: freshly generated samples reach the caller "
                "only through add_A_init_samples (cost and gradient of the stochastic trainer must be computed on one and the same set).")
    f = ctx.tree.func("apps/train/param.py", "VGBS.get_A_init_samples")
    n = 0
    for r, v in return_values(f.node):
        n += 1
        d = derives(f.node, r.value)
        fresh = d.has_call("self.generate_samples", "generate_samples")
        ok = "self.A_init_samples" in d.attrs and not fresh
        ctx.ob(rule, f.site, ok, "" if ok else f"`{ast.unparse(r)[:50]}` returns samples that were not stored with add_A_init_samples: the "
               "next call works on a different sample set", role="returns-stored-samples", line=r.lineno)
    ctx.require(n >= 1, "get_A_init_samples returns nothing")
