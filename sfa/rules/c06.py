"""C06 - measurements: collation, storage, column alignment, unit conversions (structural clauses)."""
from __future__ import annotations

import ast

from ..cfg import cfg_of
from ..dataflow import derives, rd_of, resolve_local, return_values, expand_locals
from ..loader import dotted, walk_no_nested
from . import common_hbar as Hb

ENG = "engine.py"


def _sample_dict_var(ctx, g, qn):
    dv = None
    for n in walk_no_nested(g.node):
        if isinstance(n, ast.Call) and isinstance(n.func, ast.Attribute) and n.func.attr == "_combine_and_sort_samples" \
                and n.args and isinstance(n.args[0], ast.Name):
            dv = n.args[0].id
    if dv is None:
        for _, v in return_values(g.node):
            if isinstance(v, ast.Tuple) and len(v.elts) == 2 and isinstance(v.elts[1], ast.Name):
                dv = v.elts[1].id
    ctx.require(dv, f"{qn}: the sample dictionary handed to _combine_and_sort_samples was not found")
    return dv


def collation(ctx):
    rule = "C06.collation"
    ctx.explain(f"{rule}: the samples array returned by _combine_and_sort_samples derives from "
                "sorted(<dict keyed by mode index>.items()) on every path; the dict keys written by the engines are r.ind.")
    f = ctx.tree.func(ENG, "LocalEngine._combine_and_sort_samples")
    sp = f.pos_params[1]
    rets = [n for n in walk_no_nested(f.node) if isinstance(n, ast.Return) and n.value is not None]
    ctx.require(rets, "_combine_and_sort_samples has no return")
    for i, r in enumerate(rets):
        v = resolve_local(f.node, r.value)
        first = v.elts[0] if isinstance(v, ast.Tuple) and v.elts else v
        d = derives(f.node, first)
        if sp not in d.params:
            # constant result for the empty dictionary
            ok = not d.params - {"self"} and d.has_call("empty", "zeros", "array")
            ctx.ob(rule, f.site, ok, "" if ok else "samples returned without consulting the sample dictionary",
                   role=f"return{i}:empty", line=r.lineno)
            continue
        srt = [c for c in d.call_nodes if dotted(c.func) == "sorted"]
        ok = False
        for c in srt:
            a = c.args[0] if c.args else None
            if isinstance(a, ast.Call) and isinstance(a.func, ast.Attribute) and a.func.attr == "items":
                da = derives(f.node, a)
                if sp in da.params:
                    ok = True
        # every list built from the dictionary must come through such a sorted() call
        unsorted = [c for c in d.call_nodes if isinstance(c.func, ast.Attribute) and c.func.attr in ("items", "values", "keys")
                    and not any(c is (s.args[0] if s.args else None) for s in srt)
                    and sp in derives(f.node, c).params and not _inside_dictcomp(c)]
        ok = ok and not unsorted
        ctx.ob(rule, f.site, ok, "" if ok else "the returned samples are assembled from the dictionary without "
               "sorted(...items()): columns come out in measurement order instead of ascending mode order",
               role=f"return{i}:sorted", line=r.lineno)
    # keys written by the engines
    for rel, qn in ((ENG, "LocalEngine._run_program"), ("backends/bosonicbackend/backend.py", "BosonicBackend.run_prog")):
        g = ctx.tree.func(rel, qn)
        nkeys = 0
        # the dictionary is the value handed to _combine_and_sort_samples (directly, or as the second element of
        # the pair run_prog returns to the bosonic engine) - whatever the local is called
        dv = _sample_dict_var(ctx, g, qn)
        for n in walk_no_nested(g.node):
            key = None
            if isinstance(n, ast.Assign) and isinstance(n.value, ast.List) and not n.value.elts:
                for t in n.targets:
                    if isinstance(t, ast.Subscript) and dotted(t.value) == dv:
                        key = t.slice
            if isinstance(n, ast.Call) and isinstance(n.func, ast.Attribute) and n.func.attr == "append" and \
                    isinstance(n.func.value, ast.Subscript) and dotted(n.func.value.value) == dv:
                key = n.func.value.slice
            if key is None:
                continue
            nkeys += 1
            ok = isinstance(key, ast.Attribute) and key.attr == "ind"
            ctx.ob(rule, g.site, ok, "" if ok else f"samples_dict key `{ast.unparse(key)}` is not a mode index (.ind)",
                   role="dict-key", line=n.lineno)
        ctx.require(nkeys >= 2, f"{qn} no longer fills samples_dict")
    ctx.floor(rule, 8)


def _inside_dictcomp(node):
    p = getattr(node, "parent", None)
    while p is not None and not isinstance(p, (ast.stmt,)):
        if isinstance(p, ast.DictComp):
            return True
        p = getattr(p, "parent", None)
    return False


def columns(ctx):
    rule = "C06.columns"
    ctx.explain(f"{rule}: the column of the outcome array stored under r.ind has the index r has in cmd.reg "
                "(both from one enumerate(cmd.reg)).")
    for rel, qn in ((ENG, "LocalEngine._run_program"), ("backends/bosonicbackend/backend.py", "BosonicBackend.run_prog")):
        g = ctx.tree.func(rel, qn)
        rd = rd_of(g.node)
        n = 0
        dv = _sample_dict_var(ctx, g, qn)
        for c in walk_no_nested(g.node):
            if isinstance(c, ast.Call) and isinstance(c.func, ast.Attribute) and c.func.attr == "append" and \
                    isinstance(c.func.value, ast.Subscript) and dotted(c.func.value.value) == dv and c.args:
                key = c.func.value.slice
                val = c.args[0]
                if not (isinstance(val, ast.Subscript) and isinstance(key, ast.Attribute) and isinstance(key.value, ast.Name)):
                    continue
                idx = val.slice.elts[-1] if isinstance(val.slice, ast.Tuple) else val.slice
                if isinstance(idx, ast.Constant):
                    n += 1
                    ctx.ob(rule, g.site, False, f"`{ast.unparse(val)}` stores a fixed column for every register of the "
                           "command", role="column", line=c.lineno)
                    continue
                if not isinstance(idx, ast.Name):
                    ctx.na(rule, g.site, f"column index `{ast.unparse(idx)}` not a name")
                    continue
                n += 1
                at = rd.cfg.node_of_expr(c)[0]
                di = rd.reaching(idx.id, at)
                dr = rd.reaching(key.value.id, at)
                ok = False
                for a in di:
                    for b in dr:
                        if a.kind == "for" and b.kind == "for" and a.node == b.node and a.index == (0,) and b.index == (1,) \
                                and isinstance(a.value, ast.Call) and dotted(a.value.func) == "enumerate" \
                                and a.value.args and dotted(a.value.args[0]) and dotted(a.value.args[0]).endswith(".reg"):
                            ok = True
                ctx.ob(rule, g.site, ok, "" if ok else f"`{ast.unparse(val)}` stored under `{ast.unparse(key)}`: column "
                       "index and register reference do not come from the same enumerate(cmd.reg)", role="column",
                       line=c.lineno)
        ctx.require(n >= 1, f"{qn}: no outcome column is stored")
    ctx.floor(rule, 3)


def store(ctx):
    rule = "C06.store"
    ctx.explain(f"{rule}: Measurement.apply assigns r.val for every r of reg from the transposed outcome array "
                "(zip over both) after the shots-is-None early exit.")
    f = ctx.tree.func("ops.py", "Measurement.apply")
    rd = rd_of(f.node)
    regp = f.pos_params[1]
    found = False
    for nd in rd.cfg.nodes:
        st = nd.ast
        if nd.kind == "stmt" and isinstance(st, ast.Assign):
            for t in st.targets:
                if isinstance(t, ast.Attribute) and t.attr == "val" and isinstance(t.value, ast.Name):
                    found = True
                    dr = derives(f.node, t.value, nd.id)
                    dv = derives(f.node, st.value, nd.id)
                    from_reg = regp in dr.params and dr.has_call("zip")
                    from_vals = dv.has_call("super().apply") or any("apply" in c for c in dv.calls)
                    transposed = dv.has_call("transpose") or any(isinstance(e, ast.Attribute) and e.attr == "T" for e in dv.exprs)
                    in_loop = any(d.kind == "for" for d in rd.reaching(t.value.id, nd.id))
                    # column k of the outcome belongs to reg[k]: the register sequence is zipped as it was given, not re-ordered
                    reordered = dr.has_call("sorted", "reversed", "sort", "np.sort", "set", "frozenset") or \
                        any(isinstance(e, ast.Subscript) and isinstance(e.slice, ast.Slice) and e.slice.step is not None for e in dr.exprs)
                    ok = from_reg and from_vals and transposed and in_loop and not reordered
                    why = [] if ok else [w for w, c in (("register not from zip over reg", from_reg),
                                                        ("the register is re-ordered before it is paired with the outcome columns "
                                                         "(the backend returns the columns in the order of reg)", not reordered),
                                                        ("value not from the backend outcome", from_vals),
                                                        ("outcome array not transposed (rows are shots)", transposed),
                                                        ("not in a loop over the register", in_loop)) if not c]
                    ctx.ob(rule, f.site, ok, "; ".join(why), role="val-store", line=st.lineno)
    if not found:
        ctx.ob(rule, f.site, False, "Measurement.apply no longer stores the outcome in r.val of the measured registers: a measured "
               "parameter keeps its previous value (or none)", role="val-store", line=f.node.lineno)
    # the stored value is the value returned
    ctx.floor(rule, 1)


def units(ctx):
    rule = "C06.units"
    Hb.ops_frontend(ctx, rule, only_classes=("MeasureHomodyne", "MSgate", "MeasureHeterodyne"))
    from .common_none import none_tests
    f = ctx.tree.func("ops.py", "MeasureHomodyne._apply")
    none_tests(ctx, rule, f, ("select",), "a post-selection on the quadrature value")
    # every function that takes a `select` / `dark_counts` parameter (backends, circuits, operations)
    for g in ctx.tree.all_functions():
        if g.module.rel.startswith("backends/tfbackend") or g is f:
            continue
        if "select" in g.params:
            none_tests(ctx, rule, g, ("select",), "a post-selection on the value")
    ctx.floor(rule, 5)


def _conv_factors(e, f) -> int:
    """number of amplitude->quadrature conversion factors (x 2 or x sqrt(2*hbar)) in the top-level
    multiplicative chain of expression e"""
    def chain(x):
        if isinstance(x, ast.BinOp) and isinstance(x.op, ast.Mult):
            return chain(x.left) + chain(x.right)
        return [x]
    n = 0
    for side in chain(e):
        if isinstance(side, ast.Constant) and side.value in (2, 2.0):
            n += 1
        if isinstance(side, ast.Call) and (dotted(side.func) or "").split(".")[-1] == "sqrt" and side.args:
            txt = ast.unparse(side.args[0]).replace(" ", "")
            if "hbar" in txt and (txt.startswith("2*") or txt.endswith("*2")):
                n += 1
    return n


def amplitude_units(ctx):
    rule = "C06.amplitude-units"
    ctx.explain(f"{rule}: on the way from a post-selected heterodyne amplitude to the quadrature vector compared with "
                "the means exactly one amplitude->quadrature factor (2 in the hbar-free Gaussian circuit, "
                "sqrt(2*hbar) in the bosonic one) is applied, counting backend wrapper and circuit method together; "
                "sibling implementations must agree.")
    pairs = [
        ("backends/gaussianbackend/backend.py", "GaussianBackend.measure_heterodyne",
         "backends/gaussianbackend/gaussiancircuit.py", "GaussianModes.post_select_heterodyne"),
        ("backends/bosonicbackend/backend.py", "BosonicBackend.measure_heterodyne",
         "backends/bosonicbackend/bosoniccircuit.py", "BosonicModes.post_select_heterodyne"),
    ]
    for brel, bqn, crel, cqn in pairs:
        b = ctx.tree.func(brel, bqn)
        c = ctx.tree.func(crel, cqn)
        calls = [n for n in walk_no_nested(b.node) if isinstance(n, ast.Call) and
                 dotted(n.func) == "self.circuit.post_select_heterodyne"]
        ctx.require(calls, f"{bqn} no longer calls circuit.post_select_heterodyne")
        nb = 0
        for call in calls:
            arg = call.args[1] if len(call.args) > 1 else None
            ctx.require(arg is not None, "post_select_heterodyne called without value")
            d = derives(b.node, arg)
            nb = sum(_conv_factors(e, b) for e in [arg] + [x.value for x in d.defs if x.value is not None and x.kind == "assign"])
        ap = c.pos_params[2]
        nc = 0
        # expressions in the circuit method that read the amplitude parameter
        for n in walk_no_nested(c.node):
            if isinstance(n, ast.Assign) and ap in {x.id for x in ast.walk(n.value) if isinstance(x, ast.Name)}:
                nc += _conv_factors(n.value, c)
        ok = nb + nc == 1
        ctx.ob(rule, b.site, ok, "" if ok else f"{nb} conversion factor(s) in {bqn} + {nc} in {cqn}: the selected "
               "amplitude is compared with the quadrature means " + ("unscaled" if nb + nc == 0 else "scaled twice"),
               role="alpha-to-quadrature", line=calls[0].lineno)
    ctx.floor(rule, 2)


def reset_measured(ctx):
    rule = "C06.reset"
    ctx.explain(f"{rule}: measured modes are reset: Gaussian/bosonic reassemble helpers put the vacuum block on the "
                "measured positions; Fock measure_fock projects with project_reset on the measured modes with the "
                "sampled outcome.")
    f = ctx.tree.func("backends/fockbackend/circuit.py", "Circuit.measure_fock")
    rd = rd_of(f.node)
    calls = [n for n in walk_no_nested(f.node) if isinstance(n, ast.Call) and dotted(n.func) == "ops.project_reset"]
    if len(calls) < 2:
        ctx.ob("C06.reset", f.site, False, "Circuit.measure_fock no longer projects-and-resets the measured modes in both "
               "representations (ops.project_reset): the measured modes are not left in vacuum", role="fock-project-reset", line=f.node.lineno)
        return
    for i, c in enumerate(sorted(calls, key=lambda x: x.lineno)):
        d0 = derives(f.node, c.args[0])
        d1 = derives(f.node, c.args[1])
        ok = f.pos_params[1] in d0.params
        ctx.ob(rule, f.site, ok, "" if ok else "project_reset is not applied to (a subset of) the measured modes",
               role=f"project{i}:modes", line=c.lineno)
    ctx.floor(rule, 2)


MEAS_FUNCS = [
    ("backends/gaussianbackend/gaussiancircuit.py", "GaussianModes.measure_dyne"),
    ("backends/gaussianbackend/gaussiancircuit.py", "GaussianModes.post_select_homodyne"),
    ("backends/gaussianbackend/gaussiancircuit.py", "GaussianModes.post_select_heterodyne"),
    ("backends/bosonicbackend/bosoniccircuit.py", "BosonicModes.post_select_generaldyne"),
    ("backends/bosonicbackend/bosoniccircuit.py", "BosonicModes.measure_threshold"),
]


def _linform(f, rd, e, at, bvar, depth=6):
    """linear form {symbol: coefficient} of a vector-valued update expression; products with a (gain) matrix - np.dot(G, x),
    G @ x, np.einsum(fmt, G, x) - are positive linear maps of their last argument; None when not linear / not modelled"""
    def comb(a, b, sb):
        if a is None or b is None:
            return None
        out = dict(a)
        for k, v in b.items():
            out[k] = out.get(k, 0) + sb * v
        return {k: v for k, v in out.items() if v != 0}

    if depth <= 0:
        return None
    if isinstance(e, ast.Name):
        ds = [d for d in rd.reaching(e.id, at) if not d.weak]
        if ds and all(d.kind == "unpack" and d.var in bvar and isinstance(d.value, ast.Call) and
                      (dotted(d.value.func) or "").startswith("ops.chop_in_blocks_vector") for d in ds):
            return {bvar[e.id]: 1}
        if len(ds) == 1 and ds[0].kind == "assign" and ds[0].index is None and isinstance(ds[0].value, ast.AST):
            inner = _linform(f, rd, ds[0].value, ds[0].node, bvar, depth - 1)
            if inner is not None and (set(inner) & {"a", "c"}):
                return inner
        return {"o:" + e.id: 1}
    if isinstance(e, ast.BinOp) and isinstance(e.op, (ast.Add, ast.Sub)):
        return comb(_linform(f, rd, e.left, at, bvar, depth), _linform(f, rd, e.right, at, bvar, depth),
                    1 if isinstance(e.op, ast.Add) else -1)
    if isinstance(e, ast.UnaryOp) and isinstance(e.op, ast.USub):
        return comb({}, _linform(f, rd, e.operand, at, bvar, depth), -1)
    if isinstance(e, ast.UnaryOp) and isinstance(e.op, ast.UAdd):
        return _linform(f, rd, e.operand, at, bvar, depth)
    if isinstance(e, ast.BinOp) and isinstance(e.op, ast.MatMult):
        return _linform(f, rd, e.right, at, bvar, depth)
    if isinstance(e, ast.Call) and dotted(e.func) in ("np.dot", "np.matmul") and len(e.args) == 2:
        return _linform(f, rd, e.args[1], at, bvar, depth)
    if isinstance(e, ast.Call) and dotted(e.func) == "np.einsum" and len(e.args) == 3 and isinstance(e.args[0], ast.Constant):
        return _linform(f, rd, e.args[2], at, bvar, depth)
    if isinstance(e, ast.Subscript):
        return _linform(f, rd, e.value, at, bvar, depth)
    if isinstance(e, ast.BinOp) and isinstance(e.op, (ast.Mult, ast.Div)):
        for c_, o_ in ((e.left, e.right), (e.right, e.left)):
            if isinstance(c_, ast.Constant) and isinstance(c_.value, (int, float)) and (isinstance(e.op, ast.Mult) or c_ is e.right):
                inner = _linform(f, rd, o_, at, bvar, depth)
                if inner is None:
                    return None
                k = c_.value if isinstance(e.op, ast.Mult) else 1 / c_.value
                return {s_: v * k for s_, v in inner.items()}
    return {"o:" + ast.unparse(e)[:20]: 1}


def gain(ctx, rule="C06.gain"):
    ctx.explain(f"{rule}: in every general-dyne update the covariance update (Schur complement), the mean update and the "
                "re-weighting use the inverse of one and the same matrix (measured block + measurement noise): all "
                "np.linalg.inv(...) arguments inside one update routine agree, and the sibling routines of one circuit "
                "agree with each other.")
    per_file = {}
    for rel, qn in MEAS_FUNCS:
        f = ctx.tree.func(rel, qn)
        invs = [n for n in walk_no_nested(f.node) if isinstance(n, ast.Call) and (dotted(n.func) or "").endswith("linalg.inv") and n.args]
        ctx.require(len(invs) >= 1, f"{qn}: no matrix inverse found")
        texts = {ast.unparse(expand_locals(f.node, n.args[0])).replace(" ", "") for n in invs}
        ok = len(texts) == 1
        ctx.ob(rule, f.site, ok, "" if ok else f"the update uses inverses of different matrices {sorted(texts)}: covariance and "
               "mean are conditioned with different gains (the state is no longer the conditional state of the outcome)",
               role="one-gain", line=invs[0].lineno)
        noise = all(("+" in t) for t in texts)
        ctx.ob(rule, f.site, noise, "" if noise else f"an inverse {sorted(texts)} lacks the measurement-noise term",
               role="noise-term", line=invs[0].lineno)
        # the conditional mean is prior mean of the kept block + gain * (outcome - prior mean of the MEASURED block): the new
        # means derive from both blocks of the chopped mean vector
        rdm = rd_of(f.node)
        blocks = {}
        for ds in rdm.defs_at.values():
            for d in ds:
                if d.kind == "unpack" and isinstance(d.value, ast.Call) and \
                        (dotted(d.value.func) or "").startswith("ops.chop_in_blocks_vector") and d.index:
                    blocks.setdefault(d.index[0], set()).add(d)
        sinks = [n.args[0] for n in walk_no_nested(f.node) if isinstance(n, ast.Call) and dotted(n.func) == "self.fromsmean" and n.args] + \
                [n.value for n in walk_no_nested(f.node) if isinstance(n, ast.Assign) and dotted(n.targets[0]) == "self.means"]
        if blocks and sinks:
            used = set()
            for sk in sinks:
                dsk = derives(f.node, sk)
                for k_, dset in blocks.items():
                    if dset & dsk.defs:
                        used.add(k_)
            ok = {0, 1} <= used
            ctx.ob(rule, f.site, ok, "" if ok else "the new means do not depend on the prior mean of the measured block "
                   f"(blocks of the chopped mean vector used: {sorted(used)}): the update is gain * outcome instead of "
                   "gain * (outcome - prior mean)", role="innovation", line=invs[0].lineno)
        else:
            ctx.na(rule, f.site, "mean update (chop_in_blocks_vector -> fromsmean / self.means) not recognised")
        # sign law of the update: new kept mean = (+1) * prior kept mean + gain * (outcome - prior measured mean): evaluated
        # as a linear form in which a product with the gain matrix is a positive linear map of its vector argument
        if blocks:
            bvar = {d.var: ("a" if k_ == 0 else "c") for k_, dset in blocks.items() for d in dset}
            for nd in rdm.cfg.nodes:
                st = nd.ast
                if nd.kind != "stmt" or not isinstance(st, ast.Assign) or not isinstance(st.targets[0], ast.Name):
                    continue
                direct = {x.id for x in ast.walk(st.value) if isinstance(x, ast.Name)}
                if not any(bvar.get(x) == "a" for x in direct):
                    continue
                lf = _linform(f, rdm, st.value, nd.id, bvar)
                if lf is None or "c" not in lf:
                    continue
                others = {k_: v_ for k_, v_ in lf.items() if k_ not in ("a", "c")}
                ok = lf.get("a") == 1 and lf.get("c") == -1 and all(v_ == 1 for v_ in others.values())
                ctx.ob(rule, f.site, ok, "" if ok else f"`{ast.unparse(st)[:60]}` evaluates to the linear form {lf}: the "
                       "conditional mean must be prior + gain * (outcome - prior mean of the measured block), i.e. kept block +1, "
                       "measured block -1, outcome +1", role="innovation-sign", line=st.lineno)
        per_file.setdefault(rel, []).append((qn, texts))
    ctx.floor(rule, 10)


def fock_outcome(ctx, rule="C06.fock-outcome"):
    ctx.explain(f"{rule}: Circuit.measure_fock samples the outcome of the measured modes in ascending mode order (axes of "
                "the reduced state) and must hand project_reset the outcome re-ordered to the order of `measure`: the "
                "statements between the sampling and the projection are folded by the analyser for every ordered choice "
                "of up to 3 measured modes out of 4 and the pairing (mode, outcome of that mode) is checked.")
    import itertools
    from ..layout import Frame, Machine, NotModelled, Returned, Violation
    f = ctx.tree.func("backends/fockbackend/circuit.py", "Circuit.measure_fock")
    # locate the slice: after `permuted_outcome = ops.unIndex(...)` up to the statement calling project_reset(measure, outcome, ...)
    blk = None
    for n in walk_no_nested(f.node):
        if isinstance(n, ast.If):
            body = n.body
            i0 = [i for i, st in enumerate(body) if isinstance(st, ast.Assign) and
                  any(isinstance(c, ast.Call) and dotted(c.func) == "ops.unIndex" for c in ast.walk(st.value))]
            i1 = [i for i, st in enumerate(body) if any(isinstance(c, ast.Call) and dotted(c.func) == "ops.project_reset"
                                                       for c in ast.walk(st))]
            if i0 and i1 and i1[0] > i0[0]:
                blk = (body, i0[0], i1[0])
    ctx.require(blk is not None, "measure_fock: sampling (ops.unIndex) / projection (ops.project_reset) anchors not found")
    body, a, b = blk
    tgt = body[a].targets[0]
    ctx.require(isinstance(tgt, ast.Name), "sampled outcome is not bound to a name")
    proj = [c for c in ast.walk(body[b]) if isinstance(c, ast.Call) and dotted(c.func) == "ops.project_reset"][0]
    # the list of measured modes is the one whose length the sampling step decodes the outcome for
    unidx = [c for c in ast.walk(body[a].value) if isinstance(c, ast.Call) and dotted(c.func) == "ops.unIndex"][0]
    mvar = None
    if len(unidx.args) > 1:
        ln = expand_locals(f.node, unidx.args[1])
        if isinstance(ln, ast.Call) and dotted(ln.func) == "len" and ln.args and isinstance(ln.args[0], ast.Name):
            mvar = ln.args[0].id
    ctx.require(mvar, "measure_fock: ops.unIndex is not called with len(<list of measured modes>)")
    n_cases = 0
    for k in (1, 2, 3):
        for measure in itertools.permutations(range(4), k):
            n_cases += 1
            m = Machine(ctx.tree, [])
            fr = Frame(m, f, None)
            fr.env = {mvar: list(measure), tgt.id: [("outcome-of-mode", x) for x in sorted(measure)]}
            label = f"measure={list(measure)}"
            try:
                for st in body[a + 1:b]:
                    fr.stmt(st)
                modes = fr.ev(proj.args[0])
                out = fr.ev(proj.args[1])
                pairs = list(zip(list(modes), list(out)))
                ok = all(o == ("outcome-of-mode", mm) for mm, o in pairs) and len(pairs) == k
                ctx.ob(rule, f.site, ok, "" if ok else f"{label}: project_reset receives {pairs}: the sampled outcome of one "
                       "mode is projected onto another", role=f"pairing:k{k}:{'asc' if list(measure) == sorted(measure) else 'desc'}",
                       line=body[a].lineno, detail=label)
            except (NotModelled, Violation, IndexError, KeyError, TypeError) as e:
                ctx.na(rule, f.site, f"{label}: {type(e).__name__}: {e}")
    if ctx.not_analysed and any(x["rule"] == rule for x in ctx.not_analysed):
        from ..loader import AnalysisError
        raise AnalysisError(f"{rule}: outcome re-ordering code not interpretable: {ctx.not_analysed[-1]['why']}")
    ctx.floor(rule, 40)


def homodyne_rotation(ctx, rule="C06.basis-rotation"):
    ctx.explain(f"{rule}: every simulator measures the quadrature x_phi by rotating the STATE by -phi and then measuring x (sibling "
                "agreement over the Gaussian, bosonic, Fock and TensorFlow measure_homodyne): a phase operation whose angle is the "
                "`phi` parameter and that is applied to the state before sampling carries the negated angle; the phase that builds the "
                "projected eigenstate together with the displacement by the outcome carries +phi. With the signs exchanged the outcomes "
                "are those of x_(-phi) - identical for phi = 0, pi and for states symmetric under p -> -p, which is what the tests use.")
    sites = [("backends/gaussianbackend/backend.py", "GaussianBackend.measure_homodyne"),
             ("backends/bosonicbackend/backend.py", "BosonicBackend.measure_homodyne"),
             ("backends/fockbackend/circuit.py", "Circuit.measure_homodyne"),
             ("backends/tfbackend/circuit.py", "Circuit.measure_homodyne")]
    n = 0
    for rel_, qn in sites:
        try:
            f = ctx.tree.func(rel_, qn)
        except Exception:
            f = None
        if f is None:
            ctx.note(f"{rule}: {rel_}::{qn} not present")
            continue
        ctx.require("phi" in f.params or len(f.params) >= 2, f"anchor vanished: {qn}(self, phi, ...)")
        phi = "phi" if "phi" in f.params else f.params[1]
        k = 0
        for c in walk_no_nested(f.node):
            if not isinstance(c, ast.Call) or not c.args:
                continue
            cn = (dotted(c.func) or "").split(".")[-1]
            if cn not in ("phase", "phase_shift", "phase_shifter", "rotation"):
                continue
            a = expand_locals(f.node, c.args[0])
            # sign of phi inside the angle: (mentions phi, sign) folded over unary minus, products with constants, sums
            def sg(e):
                if isinstance(e, ast.Name):
                    return (e.id == phi, 1)
                if isinstance(e, ast.Constant) and isinstance(e.value, (int, float)):
                    return (False, -1 if e.value < 0 else 1)
                if isinstance(e, ast.UnaryOp) and isinstance(e.op, ast.USub):
                    r = sg(e.operand)
                    return r and (r[0], -r[1])
                if isinstance(e, ast.UnaryOp) and isinstance(e.op, ast.UAdd):
                    return sg(e.operand)
                if isinstance(e, ast.BinOp) and isinstance(e.op, (ast.Mult, ast.Div)):
                    l, r = sg(e.left), sg(e.right)
                    if l is None or r is None or (l[0] and r[0]):
                        return None
                    return (l[0] or r[0], l[1] * r[1])
                if isinstance(e, ast.BinOp) and isinstance(e.op, (ast.Add, ast.Sub)):
                    l, r = sg(e.left), sg(e.right)
                    if l is None or r is None or (l[0] and r[0]):
                        return None
                    if l[0]:
                        return l
                    if r[0]:
                        return (True, -r[1] if isinstance(e.op, ast.Sub) else r[1])
                    return (False, 1)
                if isinstance(e, ast.Attribute):
                    return (False, 1)
                return None
            r0 = sg(a)
            if not r0 or not r0[0]:
                continue
            sign = r0[1]
            # the eigenstate side: the phase is a direct operand of a product whose other operand is a displacement (by the outcome)
            eig = False
            consumers = []
            par = getattr(c, "parent", None)
            if isinstance(par, ast.Call):
                consumers.append(par)
            elif isinstance(par, ast.Assign) and len(par.targets) == 1 and isinstance(par.targets[0], ast.Name):
                t = par.targets[0].id
                rd = rd_of(f.node)
                for x in walk_no_nested(f.node):
                    if isinstance(x, ast.Call) and any(isinstance(y, ast.Name) and y.id == t for y in x.args):
                        ids = rd.cfg.node_of_expr(x)
                        if ids and any(dd.stmt is par for dd in rd.reaching(t, ids[0])):
                            consumers.append(x)
            for cons in consumers:
                for other in cons.args:
                    if other is c:
                        continue
                    e = expand_locals(f.node, other)
                    if isinstance(e, ast.Call) and "displacement" in (dotted(e.func) or ""):
                        eig = True
            n += 1
            k += 1
            want = 1 if eig else -1
            ok = sign == want
            ctx.ob(rule, f.site, ok, "" if ok else f"`{ast.unparse(c)[:60]}`: the phase applied to the "
                   f"{'eigenstate that is projected on' if eig else 'state before sampling'} carries {'-' if sign < 0 else '+'}{phi}; "
                   f"every backend uses {'+' if eig else '-'}{phi} here", role=f"rotation:{'eigenstate' if eig else 'state'}", line=c.lineno)
    ctx.require(n >= 2, f"only {n} phase rotations by phi found in the measure_homodyne implementations")
    ctx.floor(rule, 2)


def rules(ctx):
    gain(ctx)
    fock_outcome(ctx)
    collation(ctx)
    columns(ctx)
    store(ctx)
    units(ctx)
    amplitude_units(ctx)
    reset_measured(ctx)
    homodyne_rotation(ctx)
    from . import common_backend as _B
    _B.polar_pair(ctx, "C06.polar", ("backends/fockbackend/circuit.py",))
    ctx.floor("C06.polar", 1)
    # the Gaussian photon-number sampler reads the x and p quadratures of the measured modes (block offset = allocated slots);
    # outcomes handed to a successor program are the latest ones of the engine's own record (shared with C08)
    from . import c08 as _c08
    _c08.register_shape(ctx, "C06.register-shape")
    _c08.values(ctx)
    for o in ctx.obls:
        if o.rule == "C08.values":
            o.rule = "C06.values"
            o.key = o.key.replace("C08.values", "C06.values")
    ctx.floors.pop("C08.values", None)
    from . import common_backend as _Bk
    ctx.shared(_Bk.mode_routing, "C06.mode-routing")
    ctx.shared(_Bk.prep_reset, "C06.prep-reset")
