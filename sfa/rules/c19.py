"""C19 - GBS application helpers (structural clauses)."""
from __future__ import annotations

import ast

from ..cfg import cfg_of, T as TRUE, F as FALSE
from ..dataflow import derives, rd_of, resolve_local, resolve_name, return_values, expand_locals
from ..indexspace import IndexKinds
from ..loader import dotted, walk_no_nested
from . import common_order as CO
from .common_guard import find_guard

SIM = "apps/similarity.py"
CLQ = "apps/clique.py"
SUB = "apps/subgraph.py"
SMP = "apps/sample.py"

FLOAT_CALLS = {"np.prod", "np.product", "np.exp", "np.log", "np.sqrt", "np.power", "float", "np.float64", "gamma", "gammaln"}


def orbit_fits(ctx, rule="C19.exact"):
    from .common_guard import path_facts, rel
    ctx.explain(f"{rule}: (the orbit fits) orbit_cardinality pads the orbit with zeros up to `modes` entries: an orbit with MORE non-zero "
                "entries than modes has no samples - some `return 0` (or raise) is taken under the fact len(orbit) > modes, ahead of the "
                "multinomial (which otherwise counts the arrangements of the unpadded orbit).")
    f = ctx.tree.func(SIM, "orbit_cardinality")
    cfg = cfg_of(f.node)
    orbp, modp = f.pos_params[0], f.pos_params[1]
    ok = False
    for nd in cfg.nodes:
        if nd.kind == "stmt" and (isinstance(nd.ast, ast.Raise) or isinstance(nd.ast, ast.Return) and
                                  isinstance(nd.ast.value, ast.Constant) and nd.ast.value.value == 0):
            for a, v in path_facts(cfg, nd.id):
                r_ = rel(a, v)
                if r_ is not None and r_[0] == ">":
                    big, small = ast.unparse(r_[1]).replace(" ", ""), ast.unparse(r_[2]).replace(" ", "")
                    if big == f"len({orbp})" and small == modp:
                        ok = True
    ctx.ob(rule, f.site, ok, "" if ok else "orbit_cardinality has no `len(orbit) > modes -> 0` case: orbit_cardinality([2, 1, 1], 2) is 1 and "
           "event_cardinality(4, 2, 2) is 2 (the only such sample is [2, 2])", role="orbit-fits", line=f.node.lineno)


def padding_guard(ctx, rule="C19.exact"):
    from .common_guard import path_facts, rel
    ctx.explain(f"{rule}: (fit guard agrees with the padding) where a function of apps/similarity.py pads a pattern with "
                "`[0] * (M - L)` zeros, a guard that answers 0 (or raises) for patterns that do not fit compares the SAME two quantities "
                "(`L > M`): comparing another quantity with M (the photon number instead of the orbit length, say) rejects patterns that fit "
                "and lets through patterns that do not.")
    n = 0
    for f in ctx.tree.module(SIM).functions.values():
        pads = []
        for b in walk_no_nested(f.node):
            if isinstance(b, ast.BinOp) and isinstance(b.op, ast.Mult):
                for lst, cnt in ((b.left, b.right), (b.right, b.left)):
                    if isinstance(lst, ast.List) and len(lst.elts) == 1 and isinstance(lst.elts[0], ast.Constant) and lst.elts[0].value == 0:
                        c = expand_locals(f.node, cnt)
                        if isinstance(c, ast.BinOp) and isinstance(c.op, ast.Sub):
                            pads.append((ast.unparse(c.left).replace(" ", ""), ast.unparse(c.right).replace(" ", "")))
        if not pads:
            continue
        cfg = cfg_of(f.node)
        k = 0
        for nd in cfg.nodes:
            if nd.kind == "stmt" and (isinstance(nd.ast, ast.Raise) or isinstance(nd.ast, ast.Return) and
                                      isinstance(nd.ast.value, ast.Constant) and nd.ast.value.value in (0, 0.0)):
                for a, v in path_facts(cfg, nd.id):
                    r_ = rel(a, v)
                    if r_ is None or r_[0] not in (">", ">="):
                        continue
                    big = ast.unparse(expand_locals(f.node, r_[1], keep=tuple(f.params))).replace(" ", "")
                    small = ast.unparse(expand_locals(f.node, r_[2], keep=tuple(f.params))).replace(" ", "")
                    for M, L in pads:
                        if small == M:
                            k += 1
                            n += 1
                            ok = big == L
                            ctx.ob(rule, f.site, ok, "" if ok else f"`{ast.unparse(a)[:50]}` answers for patterns that do not fit, but the "
                                   f"padding is `[0] * ({M} - {L})`: the guard must compare `{L}` with `{M}`, not `{big[:30]}`",
                                   role=f"fit-guard:{k}", line=nd.ast.lineno)
    ctx.require(n >= 1, "no fit guard next to a zero padding found in apps/similarity.py (orbit_cardinality has one)")
    return n


def orbit_order(ctx, rule="C19.set-order"):
    ctx.explain(f"{rule}: (canonical orbit order) an orbit is the photon pattern in NON-INCREASING order: the enumerator `orbits` and the "
                "conversion `sample_to_orbit` (sibling producers of the same representation, compared with `==` by the event / orbit "
                "probability estimators) hand out `sorted(..., reverse=True)` at every return / yield that sorts.")
    n = 0
    for qn in ("orbits", "sample_to_orbit"):
        try:
            f = ctx.tree.func(SIM, qn)
        except Exception:
            ctx.note(f"{rule}: {qn} not present")
            continue
        k = 0
        for st in walk_no_nested(f.node):
            v = st.value if isinstance(st, (ast.Return, ast.Expr)) else None
            if isinstance(v, (ast.Yield, ast.YieldFrom)):
                v = v.value
            elif not isinstance(st, ast.Return):
                continue
            if v is None:
                continue
            e = expand_locals(f.node, v)
            srt = [c for c in ast.walk(e) if isinstance(c, ast.Call) and dotted(c.func) == "sorted"]
            if not srt:
                continue
            n += 1
            k += 1
            ok = all(any(kw.arg == "reverse" and isinstance(kw.value, ast.Constant) and kw.value.value is True for kw in c.keywords) for c in srt)
            ctx.ob(rule, f.site, ok, "" if ok else f"`{ast.unparse(v)[:50]}`: this producer hands out the orbit in increasing order, its "
                   "siblings in non-increasing order - orbits of the same sample no longer compare equal", role=f"orbit-order:{k}", line=st.lineno)
    if n == 0:
        ctx.note(f"{rule}: no sorting orbit producer found")


def exact(ctx, rule="C19.exact"):
    ctx.explain(f"{rule}: the value returned by orbit_cardinality / event_cardinality is built from integer-exact "
                "operations only (no true division, no factorial(..., exact=False), no floating-point product).")
    for qn in ("orbit_cardinality", "event_cardinality"):
        f = ctx.tree.func(SIM, qn)
        rets = [n for n in walk_no_nested(f.node) if isinstance(n, ast.Return) and n.value is not None]
        ctx.require(rets, f"{qn} returns nothing")
        for i, r in enumerate(rets):
            d = derives(f.node, r.value)
            bad = None
            for e in d.exprs:
                if isinstance(e, ast.BinOp) and isinstance(e.op, ast.Div):
                    bad = (e, "true division `/` produces a float")
                if isinstance(e, ast.Call):
                    cn = dotted(e.func) or ""
                    if cn.split(".")[-1] == "factorial":
                        ex = [k for k in e.keywords if k.arg == "exact"]
                        if not ex or not (isinstance(ex[0].value, ast.Constant) and ex[0].value.value is True):
                            bad = (e, "factorial without exact=True is floating point")
                    if cn in FLOAT_CALLS:
                        bad = (e, f"{cn} is floating point / fixed width")
                if isinstance(e, ast.Constant) and isinstance(e.value, float):
                    bad = (e, "float literal")
            for dd in d.defs:
                if dd.kind == "aug" and isinstance(dd.stmt, ast.AugAssign) and isinstance(dd.stmt.op, ast.Div):
                    bad = (dd.stmt, "`/=` produces a float")
            ctx.ob(rule, f.site, bad is None, "" if bad is None else
                   f"`{ast.unparse(bad[0])[:50]}`: {bad[1]}; the count is wrong beyond 2**53 (e.g. 30 photons in 60 modes)",
                   role=f"ret{i}:integer-exact", line=r.lineno)
    # event cardinality sums orbit cardinalities over the orbits within the count limit
    f = ctx.tree.func(SIM, "event_cardinality")
    ok = any(isinstance(n, ast.Call) and dotted(n.func) == "orbit_cardinality" for n in walk_no_nested(f.node)) and \
        any(isinstance(n, ast.Call) and dotted(n.func) == "orbits" for n in walk_no_nested(f.node)) and \
        any(isinstance(n, ast.Compare) and "max(" in ast.unparse(n) and isinstance(n.ops[0], ast.LtE) for n in walk_no_nested(f.node))
    ctx.ob(rule, f.site, ok, "" if ok else "event_cardinality is not the sum of orbit_cardinality over orbits(photon_number) "
           "with max(orbit) <= max_count_per_mode", role="event-sum", line=f.node.lineno)
    ctx.floor(rule, 3)


def index_space(ctx, rule="C19.index-space"):
    ctx.explain(f"{rule}: an index obtained from np.where/np.argwhere/np.random.choice over an array is an index into "
                "the arrays aligned with that array's base sequence; every subscript D[k] in clique.py / subgraph.py "
                "with such a k uses an array of the same base (kinds inferred per reaching definition, so the "
                "uniform and the weighted branch are checked separately).")
    n = 0
    for rel in (CLQ, SUB):
        for qn, f in sorted(ctx.tree.module(rel).functions.items()):
            ik = IndexKinds(f)
            seen = set()
            for s, arr, base, d, k in ik.check():
                key = (arr, d.var, d.stmt.lineno)
                if key in seen:
                    continue
                seen.add(key)
                n += 1
                ok = k[1] == base
                ctx.ob(rule, f.site, ok, "" if ok else
                       f"`{ast.unparse(s)}`: `{d.var} = {ast.unparse(d.value)[:50]}` is an index into arrays aligned with "
                       f"`{k[1]}`, but `{arr}` is aligned with `{base}`: a different node than the selected one is used",
                       role=f"index:{arr}[{d.var}]:{_branch_role(f, d)}", line=d.stmt.lineno)
    ctx.require(n >= 10, f"only {n} kinded subscripts found")
    ctx.floor(rule, 10)


def _branch_role(f, d):
    cfg = cfg_of(f.node)
    conds = cfg.branch_conditions(d.node)
    for h, lab in reversed(conds):
        t = cfg.node(h).ast
        if cfg.node(h).kind == "if" and isinstance(t, ast.Compare) and isinstance(t.comparators[0], ast.Constant) and lab == TRUE:
            return str(t.comparators[0].value)
    return "all"


def clique_taint(ctx, rule="C19.clique"):
    ctx.explain(f"{rule}: grow / swap validate their input (subset of the graph, is a clique) before use; every node "
                "added comes from c_0 / c_1 of the current clique; c_0 keeps nodes adjacent to all clique members, c_1 "
                "those adjacent to all but one; is_clique compares edges with n(n-1)/2.")
    for qn, src in (("grow", "c_0"), ("swap", "c_1")):
        f = ctx.tree.func(CLQ, qn)
        cfg = cfg_of(f.node)
        g1 = find_guard(f, lambda t, s: "issubset" in s and "graph.nodes" in s, exc="ValueError")
        g2 = find_guard(f, lambda t, s: "is_clique" in s, exc="ValueError")
        adds = [n for n in walk_no_nested(f.node) if isinstance(n, ast.Call) and dotted(n.func) == "clique.add" and n.args]
        ctx.require(adds, f"{qn} adds no node")
        for role, g in (("subset", g1), ("is-clique", g2)):
            ok = g is not None and all(cfg.dominates(g.id, cfg.node_of_expr(a)[0]) for a in adds)
            ctx.ob(rule, f.site, ok, "" if ok else f"{qn} no longer rejects an input that fails '{role}' before modifying it",
                   role=f"guard:{role}", line=f.node.lineno)
        for i, a in enumerate(adds):
            d = derives(f.node, a.args[0])
            ok = d.has_call(src)
            ctx.ob(rule, f.site, ok, "" if ok else f"a node added by {qn} does not come from {src}(clique, graph)",
                   role=f"add{i}:from-{src}", line=a.lineno)
        if qn == "grow":
            # candidates are recomputed for the grown clique inside the loop
            loops = [n for n in walk_no_nested(f.node) if isinstance(n, ast.While)]
            ok = bool(loops) and any(any(isinstance(c, ast.Call) and dotted(c.func) == "c_0" for c in ast.walk(x.value))
                                     for x in ast.walk(loops[0]) if isinstance(x, ast.Assign))
            ctx.ob(rule, f.site, ok, "" if ok else "grow does not recompute c_0 after adding a node: a node not adjacent to "
                   "the new member may be added next", role="recompute-candidates", line=f.node.lineno)
        else:
            rm = [n for n in walk_no_nested(f.node) if isinstance(n, ast.Call) and dotted(n.func) == "clique.remove" and n.args]
            ok = bool(rm) and ast.unparse(rm[0].args[0]).endswith("[0]") and ast.unparse(adds[0].args[0]).endswith("[1]") and \
                ast.unparse(rm[0].args[0])[:-3] == ast.unparse(adds[0].args[0])[:-3]
            ctx.ob(rule, f.site, ok, "" if ok else "swap does not remove the clique member and add the outside node of the "
                   "same (member, outsider) pair", role="swap-pair", line=f.node.lineno)
    # swap ranks the candidates by the OUTSIDE node of each (member, outsider) pair - the node that is added
    sw = ctx.tree.func(CLQ, "swap")
    adds = [n for n in walk_no_nested(sw.node) if isinstance(n, ast.Call) and dotted(n.func) == "clique.add" and n.args]
    added_k = None
    if adds and isinstance(adds[0].args[0], ast.Subscript) and isinstance(adds[0].args[0].slice, ast.Constant):
        added_k = adds[0].args[0].slice.value
    cands = {n.targets[0].id for n in walk_no_nested(sw.node) if isinstance(n, ast.Assign) and isinstance(n.targets[0], ast.Name)
             and any(isinstance(c, ast.Call) and dotted(c.func) == "c_1" for c in ast.walk(n.value))}
    comps = [n for n in walk_no_nested(sw.node) if isinstance(n, ast.ListComp) and dotted(n.generators[0].iter) in cands]
    ctx.require(added_k is not None and len(comps) >= 2, "swap: candidate ranking comprehensions over the c_1 pairs not found")
    for i, comp in enumerate(comps):
        tgt = comp.generators[0].target
        used = None
        if isinstance(tgt, ast.Name):
            ks = {x.slice.value for x in ast.walk(comp.elt) if isinstance(x, ast.Subscript) and dotted(x.value) == tgt.id
                  and isinstance(x.slice, ast.Constant)}
            used = ks.pop() if len(ks) == 1 else None
        elif isinstance(tgt, ast.Tuple):
            names = [e.id if isinstance(e, ast.Name) else None for e in tgt.elts]
            reads = {x.id for x in ast.walk(comp.elt) if isinstance(x, ast.Name)}
            ks = [j for j, nm in enumerate(names) if nm in reads and nm != "_"]
            used = ks[0] if len(ks) == 1 else None
        ok = used == added_k
        ctx.ob(rule, sw.site, ok, "" if ok else f"`{ast.unparse(comp)[:50]}` ranks the candidates by component {used} of the "
               f"(member, outsider) pairs, but component {added_k} is the node that is added", role=f"rank-component{i}",
               line=comp.lineno)
    c0 = ctx.tree.func(CLQ, "c_0")
    ok = any(isinstance(n, ast.Call) and dotted(n.func) == "clique.issubset" and n.args and
             "neighbors" in ast.unparse(n.args[0]) for n in walk_no_nested(c0.node))
    ctx.ob(rule, c0.site, ok, "" if ok else "c_0 does not require adjacency to every clique member", role="c0-all-adjacent", line=c0.node.lineno)
    c1 = ctx.tree.func(CLQ, "c_1")
    ok = any(isinstance(n, ast.Compare) and isinstance(n.ops[0], ast.Eq) and "len(clique) - 1" in ast.unparse(n) for n in walk_no_nested(c1.node))
    ctx.ob(rule, c1.site, ok, "" if ok else "c_1 does not select nodes adjacent to all but exactly one member", role="c1-all-but-one", line=c1.node.lineno)
    ic = ctx.tree.func(CLQ, "is_clique")
    import re as _re
    rets = return_values(ic.node)
    ok = bool(rets)
    for r, v in rets:
        v = expand_locals(ic.node, v)
        good = isinstance(v, ast.Compare) and len(v.ops) == 1 and isinstance(v.ops[0], ast.Eq)
        if good:
            sides = [ast.unparse(v.left).replace(" ", ""), ast.unparse(v.comparators[0]).replace(" ", "")]
            edge = [s_ for s_ in sides if "edges" in s_ or "size()" in s_]
            full = [s_ for s_ in sides if _re.fullmatch(r"(.+)\*\(\1-1\)//?2", s_) or _re.fullmatch(r"\((.+)-1\)\*\1//?2", s_)]
            good = bool(edge) and bool(full)
        ok = ok and good
    ctx.ob(rule, ic.site, ok, "" if ok else "is_clique is not `number of edges == n (n - 1) / 2`", role="is-clique", line=ic.node.lineno)
    ctx.floor(rule, 13)


def order(ctx, rule="C19.set-order"):
    ctx.explain(f"{rule}: sample post-processing returns node lists sorted, never in set-iteration order.")
    fs = list(ctx.tree.module(SMP).functions.values()) + list(ctx.tree.module(SUB).functions.values())
    CO.set_order(ctx, rule, fs)
    f = ctx.tree.func(SMP, "to_subgraphs")
    rd = rd_of(f.node)
    # every list of nodes built from a set passes through sorted
    ok = True
    for n in walk_no_nested(f.node):
        if isinstance(n, ast.Call) and dotted(n.func) in ("list", "tuple") and n.args and isinstance(n.args[0], ast.Call) \
                and dotted(n.args[0].func) == "set":
            ok = False
    ctx.ob(rule, f.site, ok, "" if ok else "to_subgraphs builds node lists with list(set(...)): hash order (e.g. [8, 1])",
           role="sorted-nodes", line=f.node.lineno)
    # relabelling is positional (graph_nodes[i]): it may be skipped only when the node list IS 0..n-1 in order
    guards = [n for n in walk_no_nested(f.node) if isinstance(n, ast.If) and "range(" in ast.unparse(n.test)]
    ctx.require(guards, "to_subgraphs: relabelling guard not found")
    t = guards[0].test
    ok = isinstance(t, ast.Compare) and isinstance(t.ops[0], (ast.NotEq, ast.Eq)) and \
        not any(isinstance(c, ast.Call) and dotted(c.func) in ("set", "frozenset", "sorted") for c in ast.walk(t))
    ctx.ob(rule, f.site, ok, "" if ok else f"`{ast.unparse(t)[:60]}` compares node labels as sets: a graph with labels 0..n-1 in "
           "another iteration order skips the positional relabelling and gets wrong nodes", role="relabel-guard-ordered",
           line=guards[0].lineno)
    g = ctx.tree.func(SMP, "modes_from_counts")
    rets = [n for n in walk_no_nested(g.node) if isinstance(n, ast.Return) and n.value is not None]
    ok = bool(rets) and all(derives(g.node, r.value).has_call("sorted") for r in rets)
    ctx.ob(rule, g.site, ok, "" if ok else "modes_from_counts does not return the modes in non-decreasing order", role="sorted-modes",
           line=g.node.lineno)
    ctx.floor(rule, 2)


def rules(ctx):
    orbit_fits(ctx)
    padding_guard(ctx)
    orbit_order(ctx)
    exact(ctx)
    index_space(ctx)
    clique_taint(ctx)
    order(ctx)
