"""C09 - compositional runs without side effects on inputs (structural clauses)."""
from __future__ import annotations

import ast
from typing import Dict, List, Set, Tuple

from ..cfg import cfg_of, T as TRUE, F as FALSE
from ..dataflow import MUTATORS, derives, rd_of, return_values
from ..loader import dotted, walk_no_nested
from .c08 import _stores_attr

SKIP_PREFIX = ("backends/tfbackend", "apps/")


# ------------------------------------------------------------------------------------------------
def paired_restore(ctx, rule="C09.paired-restore", min_sites=3):
    """template:  saved = X ... X = <other> ... X = saved   (X an attribute / item expression).
    Every CFG path from the overwrite to EXIT *or* the exceptional exit passes the restore."""
    ctx.explain(f"{rule}: every temporary overwrite of caller-visible state (saved = X; X = tmp; ...; X = saved) is "
                "undone on every path to the normal and the exceptional exit (sites found by the template over the "
                "whole package, not listed by hand).")
    sites = 0
    for f in ctx.tree.all_functions():
        if f.module.rel.startswith(SKIP_PREFIX):
            continue
        assigns = []
        for n in walk_no_nested(f.node):
            if isinstance(n, ast.Assign) and len(n.targets) == 1:
                assigns.append(n)
        # saved = X
        saves = {}
        for a in assigns:
            t = a.targets[0]
            if isinstance(t, ast.Name) and isinstance(a.value, (ast.Attribute, ast.Subscript)):
                root = a.value
                while isinstance(root, (ast.Attribute, ast.Subscript)):
                    root = root.value
                if isinstance(root, ast.Name):
                    saves.setdefault(ast.unparse(a.value), []).append(a)
        if not saves:
            continue
        cfg = None
        for xtxt, svs in saves.items():
            saved_names = {s.targets[0].id for s in svs}
            cfg = cfg or cfg_of(f.node)
            rd = rd_of(f.node)

            def is_restore(a):
                # X = saved, where `saved` still holds a value read from X (not redefined in between)
                if not (isinstance(a.value, ast.Name) and a.value.id in saved_names):
                    return False
                ids = cfg.find(a)
                if not ids:
                    return False
                ds = rd.reaching(a.value.id, ids[0])
                return bool(ds) and all(d.stmt in svs for d in ds)

            cands = [a for a in assigns if ast.unparse(a.targets[0]) == xtxt]
            restores = [a for a in cands if is_restore(a)]
            overwrites = [a for a in cands if a not in restores]
            if overwrites and not restores:
                # a value saved from X and never read again, while X is overwritten: the restore was lost
                reads = {n.id for n in walk_no_nested(f.node) if isinstance(n, ast.Name) and isinstance(n.ctx, ast.Load)}
                dead = [s for s in svs if s.targets[0].id not in reads]
                for s in dead:
                    if any(cfg.dominates(sn, on) for sn in cfg.find(s) for ow in overwrites for on in cfg.find(ow)):
                        sites += 1
                        ctx.ob(rule, f.site, False, f"`{s.targets[0].id} = {xtxt}` saves the value, `{xtxt}` is then "
                               "overwritten, and the saved value is never written back", role=f"restore:{xtxt}:normal",
                               line=s.lineno)
                continue
            if not overwrites or not restores:
                continue
            rnodes = [i for r in restores for i in cfg.find(r)]
            for ow in overwrites:
                # the overwrite must come after a save (the save dominates it)
                own = cfg.find(ow)
                if not own:
                    continue
                if not any(cfg.dominates(sn, own[0]) for s in svs for sn in cfg.find(s)):
                    continue
                # the saved name must not be redefined between save and restore (else it is not a restore)
                sites += 1
                ok_norm = all(cfg.must_pass(o, rnodes, exits=[cfg.exit], exc=True) for o in own)
                ok_exc = all(cfg.must_pass(o, rnodes, exits=[cfg.exc], exc=True) for o in own)
                ctx.ob(rule, f.site, ok_norm, "" if ok_norm else
                       f"`{xtxt}` is overwritten at line {ow.lineno} and a path reaches the normal exit without "
                       f"`{xtxt} = {sorted(saved_names)[0]}` (early return skips the restore)",
                       role=f"restore:{xtxt}:normal", line=ow.lineno)
                ctx.ob(rule, f.site, ok_exc, "" if ok_exc else
                       f"`{xtxt}` is overwritten at line {ow.lineno} and an exception raised before the restore leaves "
                       f"it changed (no try/finally)", role=f"restore:{xtxt}:exceptional", line=ow.lineno)
    ctx.require(sites >= min_sites, f"paired-restore template found only {sites} site(s)")
    ctx.floor(rule, 2 * min_sites)


# ------------------------------------------------------------------------------------------------
FRESH_CALLS = {"copy.copy", "copy.deepcopy", "deepcopy", "list", "dict", "set", "sorted", "tuple"}

# who may write the attributes that make up a user's program / operation objects.
# site -> reason.  'fresh:<name>' means: allowed provided the local receiver <name> is fresh in that call.
WRITERS: Dict[str, Dict[str, str]] = {
    "circuit": {
        "program.py::Program.__init__": "constructor",
        "program.py::Program.append": "documented way of building a program (guarded by `locked`)",
        "program.py::Program.compile": "fresh:compiled",
        "program.py::Program.optimize": "fresh:opt",
        "program_utils.py::validate_gate_parameters": "fresh:lossless_compiled",
        "compilers/tdm.py::Borealis.add_loss": "receives the linked copy made by Program.compile",
        "tdm/program.py::TDMProgram.roll": "switches between cached circuit forms of the TDM program (paired with unroll)",
        "tdm/program.py::TDMProgram.unroll": "cached circuit form",
        "tdm/program.py::TDMProgram.space_unroll": "cached circuit form",
        "tdm/program.py::TDMProgram._unroll_program": "rebuilds the unrolled form; rolled form kept in rolled_circuit",
        "utils/program_functions.py::_program_in_CJ_rep": "fresh:prog",
    },
    "p": {
        "ops.py::Operation.__init__": "constructor",
        "ops.py::Channel.merge": "fresh:temp",
        "ops.py::Gate.merge": "fresh:temp",
        "ops.py::Gate.apply": "temporary overwrite, covered by C09.paired-restore",
        "compilers/tdm.py::Borealis._replace_loop_offset_params": "only loop-offset Rgates inserted from the device layout",
        "tdm/program.py::TDMProgram.apply_op": "fresh:op",
    },
    "dagger": {
        "ops.py::Gate.__init__": "constructor",
        "ops.py::Gate.H": "fresh:s",
        "ops.py::Gate.decompose": "flips decomposition products, which C02.dagger-products proves fresh",
    },
    "reg": {
        "program_utils.py::Command.__init__": "constructor",
        "compilers/xcov.py::Xcov.compile": "fresh:Ui",
        "compilers/xunitary.py::Xunitary.compile": "fresh:Ui",
    },
    "op": {
        "program_utils.py::Command.__init__": "constructor",
        "ops.py::All.__init__": "constructor",
    },
    "select": {"ops.py::Measurement.__init__": "constructor"},
    "dark_counts": {"ops.py::MeasureFock.__init__": "constructor"},
    "_measurement_deps": {"ops.py::Operation.__init__": "constructor"},
    "free_params": {
        "program.py::Program.__init__": "constructor",
        "program.py::Program.params": "documented creation of free parameters (guarded by `locked`)",
    },
    "locked": {
        "program.py::Program.__init__": "constructor",
        "program.py::Program.lock": "documented",
        "compilers/tdm.py::Borealis.add_loss": "receives the linked copy; re-locks before returning",
        "tdm/program.py::TDMProgram.unroll": "temporary, covered by C09.paired-restore",
        "tdm/program.py::TDMProgram.space_unroll": "temporary, covered by C09.paired-restore",
        "utils/program_functions.py::_program_in_CJ_rep": "fresh:prog",
    },
    "tdm_params": {
        "tdm/program.py::TDMProgram.context": "builder",
        "compilers/tdm.py::Borealis.update_params": "receives the linked copy (tdm_params is deep-copied by _linked_copy)",
        "compilers/tdm.py::Borealis.add_loss": "receives the linked copy",
    },
    "loop_vars": {
        "tdm/program.py::TDMProgram.context": "builder",
        "compilers/tdm.py::Borealis.add_loss": "receives the linked copy",
    },
}


def _fresh_receiver(f, name: str, stmt) -> Tuple[bool, str]:
    """all definitions of local `name` reaching stmt are copies / constructor calls / elements of a deep copy"""
    rd = rd_of(f.node)
    ids = rd.cfg.find(stmt) or rd.cfg.node_of_expr(stmt)
    if not ids:
        return False, "statement not in CFG"
    ds = rd.reaching(name, ids[0])
    strong = [d for d in ds if not d.weak]
    if not strong:
        return False, f"`{name}` has no local definition"
    for d in strong:
        if d.kind == "param":
            return False, f"`{name}` is a parameter"
        v = d.value
        if d.kind == "for" and v is not None:
            # element of a sequence that is itself fresh (deep copy)
            dv = derives(f.node, v, d.node)
            if dv.has_call("deepcopy"):
                continue
            return False, f"`{name}` iterates over `{ast.unparse(v)[:40]}` which is not a deep copy"
        if isinstance(v, ast.Call):
            cn = dotted(v.func) or ""
            if cn in FRESH_CALLS or cn.endswith("._linked_copy") or cn.endswith(".copy"):
                continue
            r = f.module and ctx_tree.resolve_dotted(f.module, cn) if cn else None
            if r and r[0] == "class":
                continue
            if cn in ("sf.Program", "Program", "TDMProgram"):
                continue
        return False, f"`{name} = {ast.unparse(v)[:50] if v is not None else '?'}` is not a copy"
    return True, ""


ctx_tree = None
LINKED_SHARED = ("circuit", "reg_refs", "init_reg_refs", "free_params")


def _shallow_shared(f, name, stmt, attr) -> str:
    rd = rd_of(f.node)
    cfg = rd.cfg
    ids = cfg.find(stmt) or cfg.node_of_expr(stmt)
    for d in rd.reaching(name, ids[0]):
        v = d.value
        if d.weak or not isinstance(v, ast.Call):
            continue
        cn = dotted(v.func) or ""
        shallow = cn == "copy.copy" or (cn.endswith("._linked_copy") and attr in LINKED_SHARED)
        if not shallow:
            continue
        # a dominating rebinding `name.attr = ...` makes the attribute private to the copy
        rebound = False
        for nd in cfg.nodes:
            a = nd.ast
            if nd.kind == "stmt" and isinstance(a, ast.Assign) and any(dotted(t) == f"{name}.{attr}" for t in a.targets) \
                    and cfg.dominates(nd.id, ids[0]) and nd.id != ids[0]:
                rebound = True
        if not rebound:
            return (f"`{name}` is a shallow copy ({cn}) that shares `{attr}` with the original; modifying it in place "
                    "changes the user's object")
    return ""


def writers(ctx, rule="C09.effects", floor=40):
    global ctx_tree
    ctx_tree = ctx.tree
    ctx.explain(f"{rule}: who-may-write table for the attributes of user-visible Program / Command / Operation "
                "objects (circuit, p, dagger, reg, op, select, dark_counts, free_params, locked, tdm_params, loop_vars): "
                "every writer in the package is a constructor, a documented mutator, or writes to a receiver that is "
                "fresh in that call (copy / _linked_copy / constructor) - proved by reaching definitions.")
    for attr, table in WRITERS.items():
        for f, st, x, kind in _stores_attr(ctx.tree, attr):
            if f.module.rel.startswith(SKIP_PREFIX) or f.module.rel.startswith("backends/"):
                continue
            if attr == "p" and f.cls is not None and not f.cls.is_subclass_of("Operation") and dotted(x.value) == "self":
                continue  # `self.p` of an unrelated class
            if attr == "circuit" and f.cls is not None and dotted(x.value) == "self" and \
                    not f.cls.is_subclass_of("Program"):
                continue
            if attr == "op" and f.cls is not None and dotted(x.value) == "self" and f.cls.name not in ("Command", "All"):
                continue
            if attr == "locked" and f.cls is not None and dotted(x.value) == "self" and not f.cls.is_subclass_of("Program"):
                continue
            if attr == "reg" and f.cls is not None and dotted(x.value) == "self" and f.cls.name != "Command":
                continue
            reason = table.get(f.site)
            recv = dotted(x.value) or ast.unparse(x.value)
            role = f"write:{attr}:{recv}:{kind}"
            if reason is None:
                ctx.ob(rule, f.site, False, f"`{ast.unparse(st)[:70]}` writes `{attr}` of a program / operation object; "
                       "this function is not among the writers known to act on fresh or owned objects", role=role,
                       line=st.lineno)
                continue
            if reason.startswith("fresh:"):
                want = reason[6:]
                root = recv.split(".")[0]
                ok, why = _fresh_receiver(f, root, st)
                if ok and kind != "store":
                    # in-place modification *through* a shallow copy hits the object shared with the original,
                    # unless the attribute was rebound on the copy first
                    sh = _shallow_shared(f, root, st, attr)
                    if sh:
                        ok, why = False, sh
                ctx.ob(rule, f.site, ok, "" if ok else f"`{ast.unparse(st)[:60]}`: receiver is not fresh in this call "
                       f"({why}) - the caller's object is modified", role=role, line=st.lineno)
            else:
                ctx.ob(rule, f.site, True, role=role, line=st.lineno, detail=reason)
    # the attributes compile() mutates in place on the linked copy must be deep-copied by _linked_copy
    lc = ctx.tree.func("program.py", "Program._linked_copy")
    shared, copied = None, None
    for n in walk_no_nested(lc.node):
        if isinstance(n, ast.Compare) and isinstance(n.ops[0], ast.NotIn) and isinstance(n.comparators[0], ast.Tuple):
            shared = {e.value for e in n.comparators[0].elts if isinstance(e, ast.Constant)}
        if isinstance(n, ast.Compare) and isinstance(n.ops[0], ast.In) and isinstance(n.comparators[0], ast.Tuple):
            copied = {e.value for e in n.comparators[0].elts if isinstance(e, ast.Constant)}
        if isinstance(n, ast.For) and isinstance(n.iter, ast.Tuple) and all(isinstance(e, ast.Constant) for e in n.iter.elts) \
                and any(isinstance(x, ast.Call) and dotted(x.func) == "setattr" for x in ast.walk(n)):
            copied = {e.value for e in n.iter.elts}
    deep = any(isinstance(x, ast.Call) and dotted(x.func) in ("copy.deepcopy", "deepcopy") for x in walk_no_nested(lc.node))
    must_copy = ("run_options", "backend_options", "locked", "unused_indices")
    if shared is None and copied is not None:
        # white-list form: everything not listed stays shared with the original
        for a in must_copy:
            ok = a in copied
            ctx.ob(rule, lc.site, ok, "" if ok else f"_linked_copy copies only {sorted(copied)}: `{a}` stays shared with the "
                   "source program, so compile() / lock() on the copy change the user's program",
                   role=f"copies:{a}", line=lc.node.lineno)
        shared = {"circuit", "reg_refs"} | {a for a in ("run_options", "backend_options", "tdm_params", "loop_vars") if a not in copied}
    ctx.require(shared is not None, "_linked_copy: neither an exclusion nor an inclusion list of attributes found")
    ctx.ob(rule, lc.site, deep, "" if deep else "_linked_copy no longer deep-copies the attributes it does not share "
           "(dict / list valued options would be shared with the source)", role="deepcopy", line=lc.node.lineno)
    comp = ctx.tree.func("program.py", "Program.compile")
    copies = {dotted(n.targets[0]) for n in walk_no_nested(comp.node) if isinstance(n, ast.Assign) and
              isinstance(n.value, ast.Call) and dotted(n.value.func) == "self._linked_copy"}
    # the compiled program is a linked copy: the value compile() returns derives from self._linked_copy(), never from self itself
    rets = [v for _r, v in return_values(comp.node)]
    from_copy = bool(copies) and bool(rets) and all(derives(comp.node, v).has_call("self._linked_copy") for v in rets)
    ctx.ob(rule, comp.site, from_copy, "" if from_copy else "Program.compile does not return a self._linked_copy(): the compiled circuit, target and "
           "options are written into the user's own program", role="works-on-copy", line=comp.node.lineno)
    if not copies:
        ctx.floor(rule, floor)
        return
    for n in walk_no_nested(comp.node):
        if isinstance(n, ast.Call) and isinstance(n.func, ast.Attribute) and n.func.attr in MUTATORS and \
                isinstance(n.func.value, ast.Attribute) and dotted(n.func.value.value) in copies:
            a = n.func.value.attr
            ok = a not in shared
            ctx.ob(rule, comp.site, ok, "" if ok else f"compile() updates `compiled.{a}` in place but _linked_copy shares "
                   f"`{a}` with the source program", role=f"inplace-on-copy:{a}", line=n.lineno)
    ok = {"circuit", "reg_refs"} <= shared and "run_options" not in shared and "backend_options" not in shared
    ctx.ob(rule, lc.site, ok, "" if ok else f"_linked_copy shares {sorted(shared)}; run/backend options must be copied",
           role="shared-set", line=lc.node.lineno)
    # Program.optimize / compile assign the new circuit to the copy, never to self
    ctx.floor(rule, floor)


# ------------------------------------------------------------------------------------------------
def run_order(ctx, rule="C09.order"):
    ctx.explain(f"{rule}: in BaseEngine._run, for every program segment bind_params and lock dominate _run_program, "
                "compilation precedes the can_follow check, and run_progs.append(p) lies on every normal path from "
                "_run_program to the next iteration.")
    f = ctx.tree.func("engine.py", "BaseEngine._run")
    cfg = cfg_of(f.node)

    def node_of(call_name, required=True):
        for n in walk_no_nested(f.node):
            if isinstance(n, ast.Call) and dotted(n.func) == call_name:
                return cfg.node_of_expr(n)[0], n
        if required:
            ctx.require(False, f"BaseEngine._run no longer calls {call_name}")
        return None, None

    run, runc = node_of("self._run_program")
    # the segment variable is whatever is handed to _run_program; the predecessor whatever can_follow receives
    pv = runc.args[0].id if runc.args and isinstance(runc.args[0], ast.Name) else "p"
    bind, _ = node_of(f"{pv}.bind_params", required=False)
    lock, _ = node_of(f"{pv}.lock", required=False)
    app, _ = node_of("self.run_progs.append", required=False)
    for what, nd_, role_ in (("bind_params", bind, "bind-before-run"), ("lock", lock, "lock-before-run"), ("run_progs.append", app, "append-after-run")):
        if nd_ is None:
            ctx.ob(rule, f.site, False, f"BaseEngine._run no longer calls {what} for the program segment it runs", role=role_, line=runc.lineno)
    if bind is None or lock is None or app is None:
        return
    comp, _ = node_of(f"{pv}.compile")
    _, folc = node_of(f"{pv}.can_follow")
    prevv = folc.args[0].id if folc.args and isinstance(folc.args[0], ast.Name) else "prev"
    follow = None
    for n in cfg.nodes:
        if n.kind == "if" and "can_follow" in ast.unparse(n.ast):
            follow = n.id
    ctx.require(follow is not None, "no can_follow test in _run")
    ctx.ob(rule, f.site, cfg.dominates(bind, run), "bind_params does not dominate _run_program: free parameters may be "
           "evaluated unbound or with stale values", role="bind-before-run", line=runc.lineno)
    ctx.ob(rule, f.site, cfg.dominates(lock, run), "lock does not dominate _run_program", role="lock-before-run",
           line=runc.lineno)
    # compile precedes can_follow: can_follow is not reachable ... every path to can_follow passed the compile `if`
    comp_if = None
    for n in cfg.nodes:
        if n.kind == "if" and comp in cfg.reachable([b for b, l in cfg.succ[n.id] if l == TRUE], exc=False) and \
                "compile_options" in ast.unparse(n.ast):
            comp_if = n.id
    ok = comp_if is not None and cfg.dominates(comp_if, follow)
    ctx.ob(rule, f.site, ok, "" if ok else "the register check can_follow runs before the program is compiled",
           role="compile-before-follow", line=runc.lineno)
    # whether the segment is compiled (i.e. replaced by a locked copy the engine may bind / roll / run) depends on the
    # compile options only, never on the state of the user's program
    reads_prog = None
    for h, lab in cfg.branch_conditions(comp):
        hn = cfg.node(h)
        if hn.kind in ("if", "while") and pv in {x.id for x in ast.walk(hn.ast) if isinstance(x, ast.Name)}:
            reads_prog = hn
    ctx.ob(rule, f.site, reads_prog is None, "" if reads_prog is None else
           f"`{ast.unparse(reads_prog.ast)[:60]}`: compilation of a segment is skipped depending on the program's own state - the "
           "engine then binds, locks and runs the user's program object itself instead of a compiled copy", role="compile-unconditional",
           line=(reads_prog.ast.lineno if reads_prog is not None else runc.lineno))
    hdr = [n.id for n in cfg.nodes if n.kind == "for" and run in cfg.reachable([n.id], exc=False)]
    ok = bool(hdr) and cfg.must_pass(run, [app], exits=[hdr[0], cfg.exit], exc=False)
    ctx.ob(rule, f.site, ok, "" if ok else "a normal path leaves _run_program and reaches the next segment without "
           "recording the program in run_progs (reset would not clear its measured values; prev is wrong)",
           role="append-after-run", line=runc.lineno)
    # prev = p at the end of each iteration
    prev_ok = False
    for n in walk_no_nested(f.node):
        if isinstance(n, ast.Assign) and dotted(n.targets[0]) == prevv and dotted(n.value) == pv:
            i = cfg.find(n)[0]
            prev_ok = cfg.must_pass(run, [i], exits=[hdr[0], cfg.exit], exc=False) if hdr else False
    ctx.ob(rule, f.site, prev_ok, "" if prev_ok else "`prev = p` is not executed on every path after a segment has run",
           role="prev-update", line=runc.lineno)
    ctx.floor(rule, 5)


# ------------------------------------------------------------------------------------------------
def _self_attr_writes(cls, method_names, depth=2) -> Set[str]:
    """attributes of self assigned / mutated in the named methods (self-calls inlined to `depth`)"""
    out: Set[str] = set()
    seen = set()

    def visit(name, d):
        f = cls.lookup(name)
        if f is None or (name, d) in seen:
            return
        seen.add((name, d))
        for n in walk_no_nested(f.node):
            tg = []
            if isinstance(n, ast.Assign):
                tg = n.targets
            elif isinstance(n, (ast.AugAssign, ast.AnnAssign)):
                tg = [n.target]
            for t in tg:
                for tt in (t.elts if isinstance(t, (ast.Tuple, ast.List)) else [t]):
                    x = tt
                    while isinstance(x, ast.Subscript):
                        x = x.value
                    k = dotted(x)
                    if k and k.startswith("self.") and k.count(".") == 1:
                        out.add(k[5:])
            if isinstance(n, ast.Call) and isinstance(n.func, ast.Attribute):
                k = dotted(n.func.value)
                if n.func.attr in MUTATORS and k and k.startswith("self.") and k.count(".") == 1:
                    out.add(k[5:])
                if k == "self" and d > 0:
                    visit(n.func.attr, d - 1)
                if isinstance(n.func.value, ast.Call) and dotted(n.func.value.func) == "super" and d > 0:
                    g = cls.lookup_after(f.cls, n.func.attr) if f.cls else None
                    if g is not None:
                        key = (g.qualname, d - 1)
                        if key not in seen:
                            seen.add(key)
                            _inline(g, d - 1)

    def _inline(g, d):
        sub = _self_attr_writes_func(g)
        out.update(sub)

    for m in method_names:
        visit(m, depth)
    return out


def _self_attr_writes_func(f) -> Set[str]:
    out = set()
    for n in walk_no_nested(f.node):
        tg = []
        if isinstance(n, ast.Assign):
            tg = n.targets
        elif isinstance(n, (ast.AugAssign, ast.AnnAssign)):
            tg = [n.target]
        for t in tg:
            for tt in (t.elts if isinstance(t, (ast.Tuple, ast.List)) else [t]):
                x = tt
                while isinstance(x, ast.Subscript):
                    x = x.value
                k = dotted(x)
                if k and k.startswith("self.") and k.count(".") == 1:
                    out.add(k[5:])
        if isinstance(n, ast.Call) and isinstance(n.func, ast.Attribute):
            k = dotted(n.func.value)
            if n.func.attr in MUTATORS and k and k.startswith("self.") and k.count(".") == 1:
                out.add(k[5:])
    return out


RESET_SPECS = [
    # (file, class, run-path methods, reset methods, attributes exempt with reason)
    ("engine.py", "LocalEngine", ["_run", "_run_program", "run"], ["reset"],
     {"backend_options": "reset merges new options into it (documented)"}),
    ("backends/bosonicbackend/backend.py", "BosonicBackend", ["run_prog", "init_circuit"], ["reset"],
     {"circuit": "re-created by begin_circuit / reset through circuit.reset", "_init_modes": "set by begin_circuit"}),
]


def reset_completeness(ctx, rule="C09.reset"):
    ctx.explain(f"{rule}: every attribute initialised in __init__ and modified on the run path of the engine / the "
                "bosonic backend is re-initialised by reset (mod-set of run path intersected with __init__ attributes "
                "is contained in the mod-set of reset).")
    for rel, cn, runm, resetm, exempt in RESET_SPECS:
        cls = ctx.tree.cls(rel, cn)
        init_attrs = set(cls.instance_attrs())
        run_mod = _self_attr_writes(cls, runm)
        reset_mod = _self_attr_writes(cls, resetm)
        for a in sorted(run_mod & init_attrs):
            if a in exempt:
                ctx.note(f"{rule}: {cn}.{a} exempt: {exempt[a]}")
                continue
            ok = a in reset_mod
            ctx.ob(rule, cls.site, ok, "" if ok else f"`self.{a}` is initialised in __init__, modified while running, "
                   f"but not re-initialised by {cn}.reset: after a reset the engine does not behave like a fresh one",
                   role=f"reset:{a}", line=cls.node.lineno)
    # reset clears the measured values of every program that was run and forgets them
    f = ctx.tree.func("engine.py", "BaseEngine.reset")
    clears = any(isinstance(n, ast.Call) and isinstance(n.func, ast.Attribute) and n.func.attr == "_clear_regrefs"
                 for n in walk_no_nested(f.node))
    forgets = any(isinstance(n, ast.Call) and dotted(n.func) == "self.run_progs.clear" for n in walk_no_nested(f.node)) \
        or "run_progs" in _self_attr_writes_func(f)
    ctx.ob(rule, f.site, clears, "" if clears else "reset no longer clears the measured values of the programs that were run",
           role="clear-regrefs", line=f.node.lineno)
    # ... of EVERY program: the clearing call sits in a loop over all of self.run_progs, on its loop variable
    every = False
    for lp in [n for n in walk_no_nested(f.node) if isinstance(n, ast.For)]:
        if dotted(lp.iter) == "self.run_progs" and isinstance(lp.target, ast.Name):
            every = every or any(isinstance(n, ast.Call) and isinstance(n.func, ast.Attribute) and n.func.attr == "_clear_regrefs"
                                 and dotted(n.func.value) == lp.target.id for n in ast.walk(lp))
    # ... and of every RegRef of such a program, deleted ones included (a measured-then-deleted ancilla keeps its RegRef)
    cr = ctx.tree.func("program.py", "Program._clear_regrefs")
    loops_ = [n for n in walk_no_nested(cr.node) if isinstance(n, ast.For)]
    allrefs = any("self.reg_refs" in derives(cr.node, lp_.iter).attrs for lp_ in loops_)
    ctx.ob(rule, cr.site, allrefs, "" if allrefs else "_clear_regrefs does not visit self.reg_refs (all RegRefs): the outcome stored in a "
           "deleted subsystem survives the reset and is inherited by successor programs", role="clears-all-regrefs", line=cr.node.lineno)
    if clears:
        ctx.ob(rule, f.site, every, "" if every else "reset clears the measured values of some of the programs that were run only: "
               "the segments deep-copy their RegRefs from their parents, so the others keep their measured values and "
               "re-running them after the reset uses stale outcomes", role="clear-regrefs-all", line=f.node.lineno)
    ctx.ob(rule, f.site, forgets, "" if forgets else "reset no longer empties run_progs", role="forget-progs",
           line=f.node.lineno)
    g = ctx.tree.func("engine.py", "LocalEngine.reset")
    ok = any(isinstance(n, ast.Call) and dotted(n.func) == "self.backend.reset" for n in walk_no_nested(g.node)) and \
        any(isinstance(n, ast.Call) and isinstance(n.func, ast.Attribute) and n.func.attr == "reset" and
            isinstance(n.func.value, ast.Call) and dotted(n.func.value.func) == "super" for n in walk_no_nested(g.node))
    ctx.ob(rule, g.site, ok, "" if ok else "LocalEngine.reset must reset both the engine bookkeeping (super().reset) and "
           "the backend", role="both-resets", line=g.node.lineno)
    ctx.floor(rule, 6)


# ------------------------------------------------------------------------------------------------
def cache_alias(ctx, rule="C09.cache-alias"):
    ctx.explain(f"{rule}: arrays returned by functools.lru_cache'd builders in fockbackend/ops.py are never updated in "
                "place by their callers (augmented assignment, item store, out=), since the cache would hand the "
                "modified array to the next run.")
    m = ctx.tree.module("backends/fockbackend/ops.py")
    cached = {qn for qn, f in m.functions.items() if any("lru_cache" in d for d in f.decorators)}
    ctx.require(len(cached) >= 10, f"only {len(cached)} lru_cache'd functions found in fockbackend/ops.py")
    n_sites = 0
    for f in ctx.tree.all_functions():
        if not f.module.rel.startswith("backends/fockbackend"):
            continue
        rd = rd_of(f.node)
        for ds in rd.defs_at.values():
            for d in ds:
                v = d.value
                if d.kind != "assign" or not isinstance(v, ast.Call):
                    continue
                cn = dotted(v.func) or ""
                base = cn.split(".")[-1]
                if base not in cached or not (cn == base and f.module is m or cn == "ops." + base):
                    continue
                n_sites += 1
                bad = None
                for nd in rd.cfg.nodes:
                    st = nd.ast
                    if st is None or nd.kind != "stmt" or d not in rd.reaching(d.var, nd.id):
                        continue
                    if isinstance(st, ast.AugAssign):
                        b = st.target
                        while isinstance(b, ast.Subscript):
                            b = b.value
                        if dotted(b) == d.var:
                            bad = st
                    if isinstance(st, ast.Assign):
                        for t in st.targets:
                            if isinstance(t, ast.Subscript):
                                b = t
                                while isinstance(b, ast.Subscript):
                                    b = b.value
                                if dotted(b) == d.var:
                                    bad = st
                    for sub in walk_no_nested(st):
                        if isinstance(sub, ast.Call):
                            for kw in sub.keywords:
                                if kw.arg == "out" and dotted(kw.value) == d.var:
                                    bad = st
                ctx.ob(rule, f.site, bad is None, "" if bad is None else
                       f"`{ast.unparse(bad)[:60]}` modifies the array returned by the cached builder {base}() in place",
                       role=f"cached:{base}:{d.var}", line=(bad or d.stmt).lineno)
    ctx.require(n_sites >= 8, f"only {n_sites} uses of cached builders found")
    ctx.floor(rule, 8)


def values(ctx):
    from . import c08
    c08.values(ctx)
    for o in ctx.obls:
        if o.rule == "C08.values":
            o.rule = "C09.values"
            o.key = o.key.replace("C08.values", "C09.values")
    ctx.floors.pop("C08.values", None)
    ctx.floor("C09.values", 2)


def parent_copy(ctx, rule="C09.effects"):
    ctx.explain(f"{rule}: (parent) a Program constructed from a parent takes a DEEP copy of the parent's RegRef map: the RegRefs "
                "carry the measured values and the activity flags, a shallow copy would let the child's New / Del / measurements "
                "change the parent program.")
    f = ctx.tree.func("program.py", "Program.__init__")
    n = 0
    for st in walk_no_nested(f.node):
        if isinstance(st, ast.Assign) and dotted(st.targets[0]) == "self.reg_refs":
            d = derives(f.node, st.value)
            if not any(a.endswith(".reg_refs") for a in d.attrs):
                continue
            n += 1
            ok = d.has_call("copy.deepcopy", "deepcopy")
            ctx.ob(rule, f.site, ok, "" if ok else f"`{ast.unparse(st)[:60]}` shares the RegRef objects of the parent program",
                   role="parent-regrefs-deepcopy", line=st.lineno)
    ctx.require(n >= 1, "Program.__init__ no longer copies reg_refs from a parent program")


def rules(ctx):
    parent_copy(ctx)
    values(ctx)
    paired_restore(ctx)
    writers(ctx)
    run_order(ctx)
    reset_completeness(ctx)
    cache_alias(ctx)
    # whole package: no container obtained by reference from another object's attribute is updated in place (remote engines
    # serialise the user's program with io.to_blackbird / to_xir on every run)
    from . import c02
    c02.pure_decompose(ctx, "C09.op-immutable", methods=None, exempt=("Gate.apply",))
    from . import common_alias as CA
    CA.attr_alias_write(ctx, "C09.alias-write", list(ctx.tree.all_functions()), "Scope: every function of the package.")
    ctx.floor("C09.alias-write", 20)
    from . import common_alias as _CA
    _CA.shallow_copy_mutation(ctx, "C09.shallow-copy", ("program.py", "program_utils.py", "engine.py", "utils/program_functions.py", "tdm/program.py", "io/blackbird_io.py", "io/xir_io.py"))
    # time-domain programs are user programs too: what unrolling changes is undone by roll(), template operations are copied
    from . import c13 as _c13
    ctx.shared(_c13.undo)
    ctx.shared(_c13.op_clone)
    ctx.shared(_c13.neg_slice)
