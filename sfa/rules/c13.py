"""C13 - time-domain programs (structural clauses)."""
from __future__ import annotations

import ast

from ..cfg import cfg_of, T as TRUE, F as FALSE
from ..dataflow import derives, rd_of, return_values
from ..loader import dotted, walk_no_nested
from . import c09
from . import common_order as CO

T = "tdm/program.py"
CACHES = {
    "rolled_circuit": "keeps the rolled form; roll() reads it",
    "_measured_modes": "monotone cache of measured mode indices (a set; idempotent)",
    "locked": "temporary, restored by unroll/space_unroll themselves (C13.lock)",
}


def op_clone(ctx, rule="C13.op-clone"):
    ctx.explain(f"{rule}: the operation TDMProgram.apply_op appends for a time bin keeps every semantic attribute of the "
                "template operation other than p (dagger, select, dark_counts): it is a copy with substituted "
                "parameters, or a re-instantiation that explicitly carries them over.")
    f = ctx.tree.func(T, "TDMProgram.apply_op")
    apps = [n for n in walk_no_nested(f.node) if isinstance(n, ast.Call) and dotted(n.func) == "self.append" and n.args]
    ctx.require(apps, "apply_op no longer calls self.append")
    a = apps[0].args[0]
    d = derives(f.node, a)
    copied = d.has_call("copy.copy") or d.has_call("copy.deepcopy")
    reinst = any(isinstance(c.func, ast.Attribute) and c.func.attr == "__class__" or
                 (isinstance(c.func, ast.Call) and dotted(c.func.func) == "type") for c in d.call_nodes) or \
        any("__class__" in (dotted(c.func) or "") for c in d.call_nodes)
    reads = {n.attr for n in walk_no_nested(f.node) if isinstance(n, ast.Attribute)}
    for attr in ("dagger", "select", "dark_counts"):
        ok = copied and not reinst or attr in reads
        ctx.ob(rule, f.site, ok, "" if ok else f"the unrolled operation is rebuilt from its parameters only: `{attr}` of the "
               "template operation is lost in every time bin", role=f"clone:{attr}", line=apps[0].lineno)
    # the substituted parameters come from the per-time-bin arrays, indexed by the time bin
    subs = [n for n in walk_no_nested(f.node) if isinstance(n, ast.Subscript) and "self.parameters" in ast.unparse(n.value)]
    tb = f.pos_params[3]
    ok = any(tb in {x.id for x in ast.walk(n.slice) if isinstance(x, ast.Name)} for n in subs)
    ctx.ob(rule, f.site, ok, "" if ok else "symbolic loop parameters are not replaced by the value of the current time bin",
           role="param-of-timebin", line=f.node.lineno)
    # the template's parameter list is not modified
    cp = any(isinstance(n, ast.Call) and isinstance(n.func, ast.Attribute) and n.func.attr == "copy" and
             (dotted(n.func.value) or "").endswith(".p") for n in walk_no_nested(f.node)) or \
        any(isinstance(n, ast.Call) and dotted(n.func) == "list" and n.args and (dotted(n.args[0]) or "").endswith(".p")
            for n in walk_no_nested(f.node))
    ctx.ob(rule, f.site, cp, "" if cp else "apply_op writes the time-bin values into the parameter list of the rolled "
           "template operation (no copy of cmd.op.p)", role="params-copied", line=f.node.lineno)
    ctx.floor(rule, 5)


def undo(ctx, rule="C13.undo"):
    ctx.explain(f"{rule}: every attribute modified by unroll / space_unroll / _unroll_program (self-calls inlined) is "
                "restored by roll, or is a listed cache: mod-set(unrolling) is contained in mod-set(roll) plus caches.")
    cls = ctx.tree.cls(T, "TDMProgram")
    mod = c09._self_attr_writes(cls, ["unroll", "space_unroll", "_unroll_program"], depth=2)
    # Program._add_subsystems grows the register maps
    for n in walk_no_nested(cls.lookup("space_unroll").node):
        if isinstance(n, ast.Call) and dotted(n.func) == "self._add_subsystems":
            mod |= c09._self_attr_writes(cls, ["_add_subsystems"], depth=1)
    restore = c09._self_attr_writes(cls, ["roll"], depth=1)
    for a in sorted(mod):
        if a in CACHES:
            ctx.note(f"{rule}: {a} exempt: {CACHES[a]}")
            continue
        ok = a in restore
        ctx.ob(rule, cls.site, ok, "" if ok else f"`self.{a}` is changed by unrolling but not restored by roll(): rolling back "
               "does not give the original program, and a second space-unrolled run starts from the grown register",
               role=f"undo:{a}", line=cls.node.lineno)
    # roll switches back to the rolled circuit, and does nothing for a rolled program
    r = cls.lookup("roll")
    ok = any(isinstance(n, ast.Assign) and dotted(n.targets[0]) == "self.circuit" and dotted(n.value) == "self.rolled_circuit"
             for n in walk_no_nested(r.node))
    ctx.ob(rule, r.site, ok, "" if ok else "roll() does not reinstate self.rolled_circuit", role="reinstates-rolled", line=r.node.lineno)
    # cache reuse is keyed by the number of shots
    for qn in ("unroll", "space_unroll"):
        f = cls.lookup(qn)
        cfg = cfg_of(f.node)
        reuse = [n for n in walk_no_nested(f.node) if isinstance(n, ast.Assign) and dotted(n.targets[0]) == "self.circuit"
                 and (dotted(n.value) or "").endswith("unrolled_circuit")]
        ok = bool(reuse)
        for a in reuse:
            conds = cfg.branch_conditions(cfg.find(a)[0])
            if not any("_unrolled_shots" in ast.unparse(cfg.node(h).ast) and lab == TRUE for h, lab in conds):
                ok = False
        ctx.ob(rule, f.site, ok, "" if ok else f"{qn} reuses a cached unrolled circuit without checking the number of shots "
               "it was unrolled for", role="cache-keyed-by-shots", line=f.node.lineno)
    ctx.floor(rule, 8)


def lock(ctx, rule="C13.lock"):
    c09.paired_restore(ctx, rule, min_sites=3)


def order(ctx, rule="C13.set-order"):
    ctx.explain(f"{rule}: measured_modes (consumed positionally: band i <-> measured_modes[i]) is not in set-iteration "
                "order; the engine hands reshape_samples the measured modes, N and timebins of the program in the "
                "declared order.")
    fs = list(ctx.tree.module(T).functions.values())
    CO.set_order(ctx, rule, fs)
    f = ctx.tree.func(T, "TDMProgram.measured_modes")
    rets = [n for n in walk_no_nested(f.node) if isinstance(n, ast.Return) and n.value is not None]
    ok = bool(rets) and all(derives(f.node, r.value).has_call("sorted") for r in rets)
    ctx.ob(rule, f.site, ok, "" if ok else "measured_modes is returned in hash order of the underlying set", role="sorted", line=f.node.lineno)
    e = ctx.tree.func("engine.py", "LocalEngine._run_program")
    calls = [n for n in walk_no_nested(e.node) if isinstance(n, ast.Call) and dotted(n.func) == "reshape_samples"]
    if not calls:
        ctx.ob(rule, e.site, False, "LocalEngine._run_program no longer hands the samples of a time-domain program to reshape_samples: "
               "entry (shot, spatial mode, time bin) is not the outcome of that pulse", role="reshape-call", line=e.node.lineno)
        return
    callee = ctx.tree.func(T, "reshape_samples")
    want = {"modes": "measured_modes", "N": "N", "timebins": "timebins"}
    c = calls[0]
    ok = len(c.args) + len(c.keywords) == 4
    for p, a in list(zip(callee.pos_params, c.args)) + [(k.arg, k.value) for k in c.keywords]:
        k = dotted(a) or ""
        if p in want and k.split(".")[-1] != want[p]:
            ok = False
        if p == callee.pos_params[0] and not isinstance(a, ast.Name):
            ok = False
    ctx.ob(rule, e.site, ok, "" if ok else "reshape_samples receives its arguments in the wrong order / from the wrong "
           "program attributes", role="reshape-args", line=c.lineno)
    ctx.floor(rule, 2)


def options(ctx, rule="C13.options"):
    ctx.explain(f"{rule}: BaseEngine.get_tdm_options honours the space_unroll run option whatever state the program is "
                "in: the call program.space_unroll(...) is control-dependent only on the option and on the absence of a "
                "cached space-unrolled circuit, program.unroll(...) only on the option being off and the program being "
                "rolled; shots reach both calls.")
    f = ctx.tree.func("engine.py", "BaseEngine.get_tdm_options")
    cfg = cfg_of(f.node)
    for meth, allowed in (("space_unroll", ("space_unroll", "space_unrolled_circuit")),
                          ("unroll", ("space_unroll", "is_unrolled"))):
        calls = [n for n in walk_no_nested(f.node) if isinstance(n, ast.Call) and dotted(n.func) == f"program.{meth}"]
        ctx.require(calls, f"get_tdm_options no longer calls program.{meth}")
        c = calls[0]
        conds = cfg.branch_conditions(cfg.node_of_expr(c)[0])
        tests = [ast.unparse(cfg.node(h).ast) for h, lab in conds if cfg.node(h).kind == "if"]
        foreign = [t for t in tests if not any(a in t for a in allowed)]
        opt = any("space_unroll" in t and "space_unrolled_circuit" not in t for t in tests)
        ok = not foreign and opt
        ctx.ob(rule, f.site, ok, "" if ok else f"program.{meth}() is additionally conditional on {foreign or tests}: the "
               "space_unroll option is ignored for a program in that state", role=f"honours:{meth}", line=c.lineno)
        d = derives(f.node, c.keywords[0].value if c.keywords else (c.args[0] if c.args else ast.Constant(value=None)))
        ok = any("shots" in str(x) for x in d.consts) or "shots" in {x.var for x in d.defs}
        ctx.ob(rule, f.site, ok, "" if ok else f"the number of shots does not reach program.{meth}", role=f"shots:{meth}", line=c.lineno)
    ctx.floor(rule, 4)


def neg_slice(ctx, rule="C13.undo"):
    ctx.explain(f"{rule}: (slice) `x[-n:]` is the WHOLE sequence when n == 0: in the time-domain modules every slice whose lower "
                "bound is the negation of a non-constant is reached only on paths on which that quantity is known to be non-zero "
                "(roll() deletes `register[-added:]`: with nothing added it would delete every subsystem).")
    from .common_guard import path_facts, rel
    n = 0
    for relp in ("tdm/program.py", "tdm/utils.py"):
        for f in ctx.tree.module(relp).functions.values():
            cfg = cfg_of(f.node)
            for sub in walk_no_nested(f.node):
                if not isinstance(sub, ast.Subscript):
                    continue
                sls = sub.slice.elts if isinstance(sub.slice, ast.Tuple) else [sub.slice]
                for sl in sls:
                    if isinstance(sl, ast.Slice) and isinstance(sl.lower, ast.UnaryOp) and isinstance(sl.lower.op, ast.USub) \
                            and not isinstance(sl.lower.operand, ast.Constant) and sl.upper is None:
                        q = ast.unparse(sl.lower.operand).replace(" ", "")
                        ids = cfg.node_of_expr(sub)
                        if not ids:
                            continue
                        n += 1
                        ok = False
                        for a, v in path_facts(cfg, ids[0]):
                            r_ = rel(a, v)
                            ta = ast.unparse(a).replace(" ", "")
                            if ta == q and v:
                                ok = True  # truthy
                            if r_ is not None and r_[0] in (">", "!=") and q in (ast.unparse(r_[1]).replace(" ", ""),
                                                                                  ast.unparse(r_[2]).replace(" ", "")) \
                                    and any(isinstance(x, ast.Constant) and x.value == 0 for x in (r_[1], r_[2])):
                                ok = r_[0] == "!=" or ast.unparse(r_[1]).replace(" ", "") == q
                            if r_ is not None and r_[0] == ">=" and ast.unparse(r_[1]).replace(" ", "") == q and \
                                    isinstance(r_[2], ast.Constant) and isinstance(r_[2].value, (int, float)) and r_[2].value >= 1:
                                ok = True
                        ctx.ob(rule, f.site, ok, "" if ok else f"`{ast.unparse(sub)[:50]}` is not guarded by `{q} > 0`: for {q} == 0 "
                               "the slice is the whole sequence", role="neg-slice-guard", line=sub.lineno)
    return n


def live_parameters(ctx, rule="C13.undo"):
    ctx.explain(f"{rule}: (live parameters) TDMProgram.parameters is computed from self.loop_vars and self.tdm_params at every access: "
                "compilers rewrite `compiled.tdm_params` on the linked copy (loop-phase compensation), a table cached at context() "
                "time keeps the arrays of the source program.")
    f = ctx.tree.func(T, "TDMProgram.parameters")
    rets = return_values(f.node)
    ok = bool(rets) and all({"self.tdm_params", "self.loop_vars"} <= derives(f.node, r.value).attrs for r, v in rets)
    ctx.ob(rule, f.site, ok, "" if ok else "TDMProgram.parameters does not derive from self.tdm_params / self.loop_vars at access time "
           "(a cached table goes stale when the parameter arrays are replaced)", role="parameters-live", line=f.node.lineno)


def crop_leading(ctx, rule="C13.crop"):
    ctx.explain(f"{rule}: cropping removes the vacuum pulses that arrive BEFORE the first computational one: wherever the engine uses "
                "TDMProgram.get_crop_value() (on the samples and on the modes of the returned state - sibling sites that must agree) the "
                "value is the LOWER bound of a slice or the START of a two-argument range; as an upper bound, a subtrahend or the "
                "single argument of range() it keeps the wrong end (the leading vacuum instead of the last computed pulses).")
    n = 0
    for f in ctx.tree.module("engine.py").functions.values():
        calls = [c for c in walk_no_nested(f.node) if isinstance(c, ast.Call) and isinstance(c.func, ast.Attribute)
                 and c.func.attr == "get_crop_value"]
        if not calls:
            continue
        rd = rd_of(f.node)
        uses = list(calls)
        # locals computed from the crop value (crop = prog.get_crop_value() if ... else 0)
        for x in walk_no_nested(f.node):
            if isinstance(x, ast.Name) and isinstance(x.ctx, ast.Load):
                ids = rd.cfg.node_of_expr(x)
                if not ids:
                    continue
                for d in rd.reaching(x.id, ids[0]):
                    if d.kind == "assign" and isinstance(d.value, ast.AST) and any(c in calls for c in ast.walk(d.value)):
                        uses.append(x)
                        break
        k = 0
        for u in uses:
            par = getattr(u, "parent", None)
            while isinstance(par, ast.IfExp) and u is not par.test:
                u, par = par, getattr(par, "parent", None)
            if isinstance(par, (ast.Assign, ast.AnnAssign)) and par.value is u:
                continue                     # the definition of a local: its uses are examined
            # only positional uses are obligations: the value (possibly inside arithmetic) bounds a slice or a range
            direct, top = True, par
            while top is not None and not isinstance(top, (ast.Slice, ast.stmt)) and not \
                    (isinstance(top, ast.Call) and dotted(top.func) == "range"):
                if isinstance(top, (ast.BinOp, ast.UnaryOp)):
                    direct = False
                    top = getattr(top, "parent", None)
                else:
                    top = None
            if not isinstance(top, (ast.Slice, ast.Call)):
                continue                     # a test, a message, an argument of something else: not a bound
            k += 1
            n += 1
            ok = direct and ((isinstance(top, ast.Slice) and top.lower is u) or
                             (isinstance(top, ast.Call) and len(top.args) >= 2 and top.args[0] is u))
            ctx.ob(rule, f.site, ok, "" if ok else f"`{ast.unparse(top)[:60]}`: the crop value is not the "
                   "lower bound of a slice / start of a range - the wrong end of the time bins is kept", role=f"crop-use:{k}", line=u.lineno)
    ctx.require(n >= 1, f"only {n} uses of get_crop_value() found in engine.py")
    ctx.floor(rule, 1)


def rules(ctx):
    options(ctx)
    op_clone(ctx)
    undo(ctx)
    live_parameters(ctx)
    neg_slice(ctx)
    lock(ctx)
    order(ctx)
    crop_leading(ctx)
    from . import common_alias as _CA
    _CA.shallow_copy_mutation(ctx, "C13.shallow-copy", ("tdm/utils.py", "tdm/program.py"))
