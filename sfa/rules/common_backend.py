"""Backend-level rules: routing of mode arguments, argument order, preparation reset, bosonic
expansion.  Shared by C01, C05, C08."""
from __future__ import annotations

import ast
from typing import Dict, List, Optional, Set, Tuple

from ..cfg import cfg_of, T as TRUE, F as FALSE
from ..dataflow import derives, rd_of
from ..footprint import IndexEnv
from ..loader import FuncInfo, dotted, walk_no_nested
from ..modekind import attr_types, mode_kinds, resolve_call

BACKENDS = [
    ("backends/gaussianbackend/backend.py", "GaussianBackend"),
    ("backends/fockbackend/backend.py", "FockBackend"),
    ("backends/bosonicbackend/backend.py", "BosonicBackend"),
]
BOS = "backends/bosonicbackend/bosoniccircuit.py"
FOCKC = "backends/fockbackend/circuit.py"


def _circuit_calls(f: FuncInfo):
    """Call nodes self.circuit.<m>(...) in f, in source order"""
    out = []
    for n in walk_no_nested(f.node):
        if isinstance(n, ast.Call) and isinstance(n.func, ast.Attribute) and dotted(n.func.value) == "self.circuit":
            out.append(n)
    return sorted(out, key=lambda c: (c.lineno, c.col_offset))


def _strip(e):
    """-x, +x, x -> x ; self._remap_modes(x) kept"""
    while isinstance(e, ast.UnaryOp) and isinstance(e.op, (ast.USub, ast.UAdd)):
        e = e.operand
    return e


# ------------------------------------------------------------------------------------------
def mode_routing(ctx, rule, backends=BACKENDS, require_remap=("FockBackend",)):
    """every backend API wrapper hands its mode parameters to the circuit method's mode-kind parameters
    in declaration order; in the Fock backend only through self._remap_modes"""
    ctx.explain(f"{rule}: mode parameters of each backend API method are forwarded to the mode-kind parameters of "
                "the circuit method in declaration order (Fock: through _remap_modes).")
    mk = mode_kinds(ctx.tree)
    types: dict = {}
    for rel, cn in backends:
        cls = ctx.tree.cls(rel, cn)
        for name, f in sorted(cls.methods.items()):
            own = [p for p in f.pos_params if p in mk.of(f)]
            if not own:
                continue
            for call in _circuit_calls(f):
                callee = resolve_call(ctx.tree, f, call, types)
                if callee is None:
                    continue
                cp = callee.pos_params[1:]
                cmodes = [p for p in cp if p in mk.of(callee)]
                if not cmodes:
                    continue
                # arguments landing on mode-kind parameters of the callee, in callee order
                got: List[Tuple[str, ast.AST]] = []
                for i, a in enumerate(call.args):
                    if i < len(cp) and cp[i] in cmodes:
                        got.append((cp[i], a))
                for kw in call.keywords:
                    if kw.arg in cmodes:
                        got.append((kw.arg, kw.value))
                got.sort(key=lambda x: cp.index(x[0]))
                site = f.site
                role = f"call:{callee.name}"
                # which own parameters do the arguments come from, in order?
                srcs: List[str] = []
                bad = None
                for pname, a in got:
                    names = _mode_names(f, a, mk)
                    if cn in require_remap:
                        if not _through_remap(f, a):
                            bad = f"argument `{ast.unparse(a)}` for mode parameter `{pname}` of {callee.name} does " \
                                  "not go through self._remap_modes (external index used as tensor axis)"
                    if names is None:
                        srcs.append("?")
                    else:
                        srcs.extend(names)
                if bad is None and "?" not in srcs:
                    # order: the scalar own parameters that appear must appear in declaration order and,
                    # when the callee takes as many scalar modes as the wrapper has, all of them
                    order_ok = [s for s in srcs if s in own] == [p for p in own if p in srcs]
                    if not order_ok:
                        bad = f"mode parameters forwarded out of order to {callee.name}: {srcs} (declared {own})"
                    elif len(cmodes) == len(own) and len(set(srcs)) < len(own) and len(got) == len(own):
                        bad = f"mode parameters {own} collapse to {srcs} in the call of {callee.name}"
                if "?" in srcs and bad is None:
                    ctx.na(rule, site, f"argument of {callee.name} not understood: {[ast.unparse(a) for _, a in got]}")
                    continue
                ctx.ob(rule, site, bad is None, bad or "", role=role, line=call.lineno)


def _mode_names(f, e, mk) -> Optional[List[str]]:
    """ordered own mode-parameter names an index-like expression is built from"""
    e0 = e
    if isinstance(e, ast.Call) and dotted(e.func) == "self._remap_modes" and e.args:
        e = e.args[0]
    if isinstance(e, ast.Name):
        if e.id in mk.of(f):
            return [e.id]
        if mk.modeish(f, e0):
            d = derives(f.node, e)
            return sorted(d.params & mk.of(f))
        return None
    if isinstance(e, (ast.List, ast.Tuple)):
        out = []
        for x in e.elts:
            r = _mode_names(f, x, mk)
            if r is None:
                return None
            out += r
        return out
    if mk.modeish(f, e0):
        d = derives(f.node, e)
        return sorted(d.params & mk.of(f))
    return None


def _through_remap(f, e) -> bool:
    if isinstance(e, ast.Call) and dotted(e.func) == "self._remap_modes":
        return True
    if isinstance(e, ast.Name):
        rd = rd_of(f.node)
        ids = rd.cfg.node_of_expr(e)
        at = ids[0] if ids else rd.cfg.entry
        ds = rd.reaching(e.id, at)
        strong = [d for d in ds if not d.weak]
        if not strong:
            return False
        for d in strong:
            if d.kind == "param":
                return False
            if d.value is None:
                return False
            v = d.value
            if isinstance(v, (ast.List, ast.Tuple)):
                if not all(_through_remap(f, x) for x in v.elts):
                    return False
            elif not _through_remap(f, v):
                return False
        return True
    if isinstance(e, (ast.List, ast.Tuple)):
        return all(_through_remap(f, x) for x in e.elts)
    return False


# ------------------------------------------------------------------------------------------
def arg_order(ctx, rule, callers: List[FuncInfo], receiver_pred, resolve):
    """same-name contradiction: an argument that is a plain (possibly negated) parameter of the caller
    and whose name is also a parameter name of the callee must be passed at that parameter's position"""
    for f in callers:
        own = set(f.params)
        # locals count too: `r, phi = par_evaluate(self.p); backend.squeeze(phi, r, ...)`
        own |= {t.id for n in walk_no_nested(f.node) if isinstance(n, (ast.Assign,)) for tt in n.targets
                for t in ast.walk(tt) if isinstance(t, ast.Name)}
        for n in walk_no_nested(f.node):
            if not (isinstance(n, ast.Call) and receiver_pred(n)):
                continue
            callee = resolve(f, n)
            if callee is None:
                continue
            cp = callee.pos_params
            if callee.cls is not None and not callee.is_static and cp and cp[0] in ("self", "cls"):
                cp = cp[1:]
            bad = None
            checked = 0
            for i, a in enumerate(n.args):
                if isinstance(a, ast.Starred):
                    break
                b = _strip(a)
                if isinstance(b, ast.Name) and b.id in own and b.id in cp and i < len(cp):
                    checked += 1
                    if cp[i] != b.id and cp[i] in own:
                        bad = f"argument `{b.id}` is passed at the position of parameter `{cp[i]}` of " \
                              f"{callee.qualname}({', '.join(cp)})"
            if checked:
                ctx.ob(rule, f.site, bad is None, bad or "", role=f"call:{callee.name}", line=n.lineno)


def backend_arg_order(ctx, rule):
    ctx.explain(f"{rule}: in backend wrappers and ops._apply methods, a parameter passed under its own name "
                "lands on the callee parameter of the same name (no transposed argument pairs).")
    types: dict = {}
    for rel, cn in BACKENDS:
        cls = ctx.tree.cls(rel, cn)
        arg_order(ctx, rule, [f for _, f in sorted(cls.methods.items())],
                  lambda c: isinstance(c.func, ast.Attribute) and dotted(c.func.value) == "self.circuit",
                  lambda f, c: resolve_call(ctx.tree, f, c, types))
    # circuit-internal delegation (self.loss(T, k) etc.)
    for rel, cn in [("backends/gaussianbackend/gaussiancircuit.py", "GaussianModes"), (BOS, "BosonicModes"),
                    (FOCKC, "Circuit")]:
        cls = ctx.tree.cls(rel, cn)
        arg_order(ctx, rule, [f for _, f in sorted(cls.methods.items())],
                  lambda c: isinstance(c.func, ast.Attribute) and dotted(c.func.value) == "self",
                  lambda f, c: resolve_call(ctx.tree, f, c, types))


# ------------------------------------------------------------------------------------------
def _is_zero(e) -> bool:
    return isinstance(e, ast.Constant) and isinstance(e.value, (int, float)) and not isinstance(e.value, bool) \
        and e.value == 0


def _resets(ctx, callee: FuncInfo, call: ast.Call, seen=()) -> bool:
    """does this circuit call put its target mode into vacuum first (loss / thermal_loss with T = 0,
    or a method whose first effect is such a call, or a covariance setter that clears the cross blocks)?"""
    name = callee.name
    cp = callee.pos_params[1:]
    if name in ("loss", "thermal_loss") and cp:
        # transmissivity is the first parameter
        a = call.args[0] if call.args else next((k.value for k in call.keywords if k.arg == cp[0]), None)
        return a is not None and _is_zero(a)
    if name in seen:
        return False
    # a method whose first effectful self-call is a reset of the same parameter
    first = _first_effect_call(callee)
    if first is not None:
        g = callee.cls.lookup(first.func.attr) if callee.cls else None
        if g is not None:
            return _resets(ctx, g, first, seen + (name,))
    if name in ("fromscovmat", "from_covmat"):
        return covariance_setter_clears(ctx, callee)
    return False


def _first_effect_call(f: FuncInfo) -> Optional[ast.Call]:
    """the self.<m>(...) call that is the first statement with an effect in f (straight-line prefix)"""
    from ..loader import strip_docstring
    for st in strip_docstring(f.node.body):
        if isinstance(st, ast.Expr) and isinstance(st.value, ast.Call) and isinstance(st.value.func, ast.Attribute) \
                and dotted(st.value.func.value) == "self":
            return st.value
        if isinstance(st, ast.If) and all(isinstance(x, ast.Raise) for x in st.body) and not st.orelse:
            continue  # raising guard
        if isinstance(st, (ast.Assign, ast.AnnAssign)) and all(
                isinstance(t, ast.Name) or isinstance(t, ast.Tuple) and all(isinstance(e, ast.Name) for e in t.elts)
                for t in (st.targets if isinstance(st, ast.Assign) else [st.target])):
            continue  # binding of a local: no effect on the simulator
        if isinstance(st, (ast.Pass, ast.Assert)) or isinstance(st, ast.Expr) and isinstance(st.value, ast.Constant):
            continue
        return None
    return None


def covariance_setter_clears(ctx, f: FuncInfo) -> bool:
    """fromscovmat: resets the listed modes with loss(0, mode) unless the whole register is replaced;
    from_covmat: zeroes rows and columns of the listed modes before writing the block"""
    mk = mode_kinds(ctx.tree)
    env = IndexEnv(f)
    cfg = env.rd.cfg
    for n in walk_no_nested(f.node):
        if isinstance(n, ast.Call) and isinstance(n.func, ast.Attribute) and dotted(n.func.value) == "self" \
                and n.func.attr == "loss" and n.args and _is_zero(n.args[0]) and len(n.args) > 1:
            if mk.modeish(f, n.args[1]) or (derives(f.node, n.args[1]).params & mk.of(f)):
                return True
    zero_rows = zero_cols = False
    for n in walk_no_nested(f.node):
        if isinstance(n, ast.Assign) and _is_zero(n.value):
            for t in n.targets:
                if isinstance(t, ast.Subscript) and dotted(t.value) == "self.covs" and isinstance(t.slice, ast.Tuple):
                    el = t.slice.elts
                    if len(el) == 3:
                        def full(s):
                            return isinstance(s, ast.Slice) and s.lower is None and s.upper is None
                        def modeidx(s):
                            if not isinstance(s, ast.Name):
                                return False
                            d = derives(f.node, s)
                            return bool(d.params & mk.of(f))
                        if full(el[0]) and modeidx(el[1]) and full(el[2]):
                            zero_rows = True
                        if full(el[0]) and full(el[1]) and modeidx(el[2]):
                            zero_cols = True
    return zero_rows and zero_cols


def prep_reset(ctx, rule):
    """in the phase-space backends every prepare_*_state method resets its target before any other
    effect on the simulator"""
    ctx.explain(f"{rule}: first circuit effect of every prepare_*_state method of the Gaussian and bosonic backends "
                "is a reset of the target (loss/thermal_loss with T=0, a method that starts with one, or a "
                "covariance setter that clears the cross blocks).")
    types: dict = {}
    for rel, cn in BACKENDS:
        if cn == "FockBackend":
            continue
        cls = ctx.tree.cls(rel, cn)
        for name, f in sorted(cls.methods.items()):
            if not (name.startswith("prepare_") and name.endswith("_state")):
                continue
            calls = _circuit_calls(f)
            if not calls:
                continue
            cfg = cfg_of(f.node)
            # the call whose CFG node dominates all the other circuit calls
            nodes = [(c, cfg.node_of_expr(c)) for c in calls]
            nodes = [(c, ids[0]) for c, ids in nodes if ids]
            first = None
            for c, i in nodes:
                if all(i == j or cfg.dominates(i, j) for _, j in nodes):
                    first = c
                    break
            if first is None:
                ctx.ob(rule, f.site, False, "no circuit call dominates the others - cannot identify the first effect",
                       role="first-effect", line=f.node.lineno)
                continue
            callee = resolve_call(ctx.tree, f, first, types)
            ok = callee is not None and _resets(ctx, callee, first)
            ctx.ob(rule, f.site, ok,
                   "" if ok else f"first effect `{ast.unparse(first)[:70]}` does not reset the target mode: the "
                                 "'preparation' acts on the previous state and stays correlated with the rest",
                   role="first-effect", line=first.lineno)


# ------------------------------------------------------------------------------------------
EXPANDERS = {"symp.expand": 1, "symp.expand_vector": 1, "self.expandXY": 0, "self.expandS": 0}
COND_UPDATE = ("reassemble_multi", "reassemble_vector_multi")


def bosonic_footprint(ctx, rule):
    """every gate / channel method of BosonicModes builds its full-system matrices by expanding over its
    own mode parameter(s), in order, and writes means / covs only with those"""
    ctx.explain(f"{rule}: in BosonicModes, full-register matrices of a mode-targeted method come from "
                "symp.expand/expand_vector/expandXY over exactly the method's mode parameters in declaration order; "
                "direct stores into means/covs derive from such an expansion (or are index-confined to the modes); "
                "expandXY clears the noise outside the targets.")
    cls = ctx.tree.cls(BOS, "BosonicModes")
    mk = mode_kinds(ctx.tree)
    for name, f in sorted(cls.methods.items()):
        tp = mk.of(f)
        if not tp:
            continue
        own = [p for p in f.pos_params if p in tp]
        # (1) expansion calls
        for n in walk_no_nested(f.node):
            if isinstance(n, ast.Call) and dotted(n.func) in EXPANDERS:
                pos = EXPANDERS[dotted(n.func)]
                if len(n.args) <= pos:
                    continue
                a = n.args[pos]
                names = _mode_names(f, a, mk)
                if names is None:
                    ok, msg = False, f"expansion target `{ast.unparse(a)}` is not built from the mode parameter(s) {own}"
                else:
                    ok = names == [p for p in own if p in names] and set(names) == set(own)
                    msg = "" if ok else f"expansion over {names} but the method acts on {own} (in this order)"
                ctx.ob(rule, f.site, ok, msg, role=f"expand:{dotted(n.func)}", line=n.lineno)
        # (2) direct stores
        rd = rd_of(f.node)
        for nd in rd.cfg.nodes:
            st = nd.ast
            if nd.kind != "stmt" or not isinstance(st, (ast.Assign, ast.AugAssign)):
                continue
            tgts = st.targets if isinstance(st, ast.Assign) else [st.target]
            for t in tgts:
                root = t
                idx = []
                while isinstance(root, ast.Subscript):
                    idx.append(root.slice)
                    root = root.value
                k = dotted(root)
                if k not in ("self.means", "self.covs"):
                    continue
                d = derives(f.node, st.value, nd.id)
                if any(c.split(".")[-1] in COND_UPDATE for c in d.calls):
                    ctx.note(f"{rule}: {f.qualname} line {st.lineno}: conditional (measurement) update, exempt")
                    continue
                if any(c in ("np.delete",) for c in d.calls) and name == "mb_squeeze_single_shot":
                    ctx.note(f"{rule}: {f.qualname} line {st.lineno}: ancilla removal, exempt")
                    continue
                if idx:
                    # subscript store: some index must derive from the mode parameters
                    ok = False
                    for ix in idx:
                        for e in (ix.elts if isinstance(ix, ast.Tuple) else [ix]):
                            if isinstance(e, ast.Slice):
                                continue
                            dd = derives(f.node, e, nd.id)
                            if dd.params & tp:
                                ok = True
                    msg = "" if ok else f"store `{ast.unparse(t)}` is not indexed by the target mode(s)"
                elif isinstance(st, ast.Assign) and isinstance(st.value, ast.Subscript) and \
                        dotted(_sub_root(st.value)) == k:
                    # self.means = self.means[mask] : peak filtering, keeps every mode
                    ctx.note(f"{rule}: {f.qualname} line {st.lineno}: peak filtering, exempt")
                    continue
                else:
                    exp = [c for c in d.call_nodes if dotted(c.func) in EXPANDERS]
                    ok = bool(exp)
                    msg = "" if ok else (f"`{ast.unparse(st)[:70]}` updates the whole array with a matrix that does "
                                         "not come from an expansion over the target mode(s)")
                ctx.ob(rule, f.site, ok, msg, role=f"store:{k[5:]}", line=st.lineno)
        # (3) channel application: self.apply_channel(X2, Y2) with X2, Y2 from expandXY
        for n in walk_no_nested(f.node):
            if isinstance(n, ast.Call) and dotted(n.func) == "self.apply_channel":
                ok = True
                for a in n.args:
                    d = derives(f.node, a)
                    if not any(dotted(c.func) in ("self.expandXY", "self.expandS", "symp.expand") for c in d.call_nodes):
                        ok = False
                ctx.ob(rule, f.site, ok, "" if ok else "apply_channel receives a matrix that was not expanded over "
                                                        "the target mode", role="apply_channel", line=n.lineno)
    # (4) expandXY clears the noise matrix outside the targets
    f = ctx.tree.func(BOS, "BosonicModes.expandXY")
    ok, why = _expandxy_clears(f)
    ctx.ob(rule, f.site, ok, why, role="clear-offtarget-noise", line=f.node.lineno)


def _sub_root(e):
    while isinstance(e, ast.Subscript):
        e = e.value
    return e


def _expandxy_clears(f: FuncInfo):
    """the returned noise matrix is stored to with 0 on the diagonal positions i and i + nlen, for i over all nlen,
    on paths where `i in modes` is false"""
    from ..dataflow import return_values, expand_locals
    from .common_guard import path_facts
    rets = return_values(f.node)
    if not rets:
        return False, "expandXY returns nothing"
    mparam = f.pos_params[1]
    cfg = cfg_of(f.node)
    for _, v in rets:
        if not (isinstance(v, ast.Tuple) and len(v.elts) == 2 and isinstance(v.elts[1], ast.Name)):
            return False, "return value is not a pair (X, Y) of names"
        y = v.elts[1].id
        found = {0: False, 1: False}
        for loop in [n for n in walk_no_nested(f.node) if isinstance(n, ast.For)]:
            it = expand_locals(f.node, loop.iter)
            if not (isinstance(it, ast.Call) and dotted(it.func) == "range" and len(it.args) == 1
                    and dotted(it.args[0]) == "self.nlen" and isinstance(loop.target, ast.Name)):
                continue
            i = loop.target.id
            for a in ast.walk(loop):
                if not (isinstance(a, ast.Assign) and _is_zero(a.value)):
                    continue
                ids = cfg.node_of_expr(a)
                if not ids:
                    continue
                off = any(not truth and isinstance(t, ast.Compare) and isinstance(t.ops[0], ast.In)
                          and dotted(t.left) == i and dotted(t.comparators[0]) == mparam
                          for t, truth in path_facts(cfg, ids[0]))
                if not off:
                    continue
                for tg in a.targets:
                    if isinstance(tg, ast.Subscript) and dotted(tg.value) == y:
                        sl = tg.slice.elts if isinstance(tg.slice, ast.Tuple) else None
                        if sl is None and isinstance(tg.value, ast.Subscript):
                            continue
                        if sl is None or len(sl) != 2:
                            continue
                        e0, e1 = (ast.unparse(expand_locals(f.node, x)).replace(" ", "") for x in sl)
                        if e0 == e1 == i:
                            found[0] = True
                        if e0 == e1 and e0 in (f"{i}+self.nlen", f"self.nlen+{i}"):
                            found[1] = True
        if not (found[0] and found[1]):
            return False, ("the noise matrix returned by expandXY is not cleared on the diagonal positions i and "
                           "i + nlen of every mode outside `modes`: symp.expand pads with the identity, so every "
                           "channel would add noise to all spectator modes")
    return True, ""


def polar_pair(ctx, rule, rels):
    """a complex amplitude handed to a displacement in polar form is (|z|, arg z) of ONE z"""
    ctx.explain(f"{rule}: where a displacement (Dgate / displacement matrix / coherent preparation) receives `np.abs(z)` as its "
                "modulus, the phase argument that follows is `np.angle(z)` of the same z - a constant phase silently maps "
                "every z with a non-zero argument (e.g. a negative homodyne outcome) to |z|.")
    n = 0
    for rel in rels:
        for f in ctx.tree.module(rel).functions.values():
            for c in walk_no_nested(f.node):
                if not isinstance(c, ast.Call):
                    continue
                cn = (dotted(c.func) or "").split(".")[-1]
                if not (cn in ("Dgate", "displacement", "Coherent", "DisplacedSqueezed", "displace", "displacement_kernel",
                               "Squeezed", "Sgate", "squeezing", "squeeze")
                        or "coherent" in cn or "squeezed" in cn):
                    continue
                from ..dataflow import expand_locals
                for i, a0 in enumerate(c.args[:-1]):
                    a = expand_locals(f.node, a0)
                    # |z| possibly scaled by a constant: abs(z), abs(z) / 2, 0.5 * abs(z)
                    core = a
                    while isinstance(core, ast.BinOp) and isinstance(core.op, (ast.Mult, ast.Div)):
                        core = core.left if not isinstance(core.left, ast.Constant) else core.right
                    if isinstance(core, ast.Call) and dotted(core.func) in ("np.abs", "abs", "np.absolute") and len(core.args) == 1:
                        a = core
                        z = ast.unparse(a.args[0]).replace(" ", "")
                        nxt = expand_locals(f.node, c.args[i + 1])
                        n += 1
                        # the phase is the argument of the same z - or at least computed (a sign test, an arctan): never a literal
                        quot = []
                        ok = isinstance(nxt, ast.Call) and dotted(nxt.func) in ("np.angle", "cmath.phase", "np.arctan2") and \
                            nxt.args and z in ast.unparse(nxt).replace(" ", "")
                        if cn in ("Squeezed", "Sgate", "squeezing", "squeeze") or "squeezed" in cn:
                            ok = ok or not isinstance(nxt, ast.Constant)
                            # ... and never the one-argument arctan of a quotient: tan has period pi, so every phase outside
                            # (-pi/2, pi/2] comes back in the wrong quadrant (arctan2 of numerator and denominator keeps it)
                            quot = [q for q in ast.walk(nxt) if isinstance(q, ast.Call) and dotted(q.func) in ("np.arctan", "math.atan")
                                    and len(q.args) == 1 and isinstance(q.args[0], ast.BinOp) and isinstance(q.args[0].op, ast.Div)]
                            if quot:
                                ok = False
                        why = (f"phase `{ast.unparse(quot[0])[:60]}` is the one-argument arctan of a quotient - the quadrant of the "
                               "phase is lost (use arctan2 of numerator and denominator)") if quot else \
                            f"modulus of `{z}` but phase `{ast.unparse(nxt)[:20]}` - the argument / sign of `{z[:40]}` is lost"
                        ctx.ob(rule, f.site, ok, "" if ok else f"`{ast.unparse(c)[:60]}`: {why}", role=f"polar:{cn}", line=c.lineno)
                        break
    return n


def _half_block(sub):
    """(matrix text, row half, column half, N text) of `M[:N, :N]`-style block subscripts; halves are 0 (first) / 1 (second)"""
    if not isinstance(sub, ast.Subscript) or not isinstance(sub.slice, ast.Tuple) or len(sub.slice.elts) != 2:
        return None
    halves, ns = [], []
    for sl in sub.slice.elts:
        if not isinstance(sl, ast.Slice) or sl.step is not None:
            return None
        if sl.lower is None and sl.upper is not None:
            halves.append(0); ns.append(ast.unparse(sl.upper))
        elif sl.upper is None and sl.lower is not None:
            halves.append(1); ns.append(ast.unparse(sl.lower))
        else:
            return None
    if ns[0] != ns[1]:
        return None
    return ast.unparse(sub.value), halves[0], halves[1], ns[0]


def unitary_from_symplectic(ctx, rule, rels):
    """U = X + iY for the orthogonal symplectic [[X, -Y], [Y, X]] (xxpp ordering)"""
    ctx.explain(f"{rule}: where a unitary is read off an orthogonal symplectic matrix S = [[X, -Y], [Y, X]] as `S[:n, :n] +/- 1j * <block of S>`, "
                "the sign agrees with the block: `+ 1j * S[n:, :n]` (lower left, Y) or `- 1j * S[:n, n:]` (upper right, -Y). "
                "The other sign is the complex conjugate unitary: a different interferometer with the same moduli.")
    from ..dataflow import expand_locals
    n = 0
    for rel in rels:
        for f in ctx.tree.module(rel).functions.values():
            k = 0
            for b in walk_no_nested(f.node):
                if not isinstance(b, ast.BinOp) or not isinstance(b.op, (ast.Add, ast.Sub)):
                    continue
                e = expand_locals(f.node, b)
                if not isinstance(e, ast.BinOp) or not isinstance(e.op, (ast.Add, ast.Sub)):
                    continue
                re_, im = e.left, e.right
                # the imaginary part: 1j * B or B * 1j
                if not (isinstance(im, ast.BinOp) and isinstance(im.op, ast.Mult)):
                    continue
                sides = [im.left, im.right]
                j = [s for s in sides if isinstance(s, ast.Constant) and isinstance(s.value, complex) and s.value == 1j]
                blk = [s for s in sides if not (isinstance(s, ast.Constant) and isinstance(s.value, complex))]
                if len(j) != 1 or len(blk) != 1:
                    continue
                A, B = _half_block(re_), _half_block(blk[0])
                if not A or not B or A[0] != B[0] or A[3] != B[3] or (A[1], A[2]) != (0, 0):
                    continue
                if (B[1], B[2]) not in ((1, 0), (0, 1)):
                    continue
                n += 1
                k += 1
                plus = isinstance(e.op, ast.Add)
                ok = plus == ((B[1], B[2]) == (1, 0))
                ctx.ob(rule, f.site, ok, "" if ok else f"`{ast.unparse(e)[:70]}`: the {'lower-left' if B[1] else 'upper-right'} block of an "
                       f"orthogonal symplectic is {'Y' if B[1] else '-Y'}; with `{'+' if plus else '-'}` this is conj(U), not U",
                       role=f"block-sign:{k}", line=b.lineno)
    return n
