"""order taint (E3): a list obtained from iterating a set has no defined order until it is sorted;
positions in it must not be used as indices or paired with an ordered sequence."""
from __future__ import annotations

import ast
from typing import List, Optional

from ..dataflow import rd_of
from ..loader import FuncInfo, dotted, walk_no_nested

SET_METHODS = {"union", "intersection", "difference", "symmetric_difference"}


def _is_set_expr(f: FuncInfo, e, at, rd, depth=0) -> bool:
    if depth > 5:
        return False
    if isinstance(e, (ast.Set, ast.SetComp)):
        return True
    if isinstance(e, ast.Call):
        cn = dotted(e.func) or ""
        if cn in ("set", "frozenset"):
            return True
        if isinstance(e.func, ast.Attribute) and e.func.attr in SET_METHODS:
            return _is_set_expr(f, e.func.value, at, rd, depth + 1)
        return False
    if isinstance(e, ast.BinOp) and isinstance(e.op, (ast.BitOr, ast.BitAnd, ast.Sub, ast.BitXor)):
        return _is_set_expr(f, e.left, at, rd, depth + 1) or _is_set_expr(f, e.right, at, rd, depth + 1)
    if isinstance(e, ast.Name):
        ds = [d for d in rd.reaching(e.id, at) if not d.weak]
        return bool(ds) and all(d.kind in ("assign", "aug") and d.value is not None and
                                _is_set_expr(f, d.value, d.node, rd, depth + 1) for d in ds)
    if isinstance(e, ast.Attribute):
        k = dotted(e)
        if k and k.startswith("self.") and f.cls is not None:
            vals = f.cls.instance_attrs().get(k[5:], [])
            return bool(vals) and all(isinstance(v, (ast.Set, ast.SetComp)) or
                                      (isinstance(v, ast.Call) and dotted(v.func) == "set") for _, v in vals)
    return False


def _unordered_value(f, v, at, rd) -> bool:
    """expression whose element order is the iteration order of a set"""
    if isinstance(v, ast.Call):
        cn = dotted(v.func) or ""
        if cn in ("list", "tuple", "np.array", "np.asarray") and v.args:
            return _is_set_expr(f, v.args[0], at, rd)
        return False
    if isinstance(v, ast.ListComp) and len(v.generators) >= 1:
        return _is_set_expr(f, v.generators[0].iter, at, rd)
    return False


def set_order(ctx, rule, funcs: List[FuncInfo], exceptions=None):
    """obligation per unordered list: every use is order-insensitive (membership, len, iteration into a set / sum,
    sorted) - never a positional subscript, enumerate, zip, range(len()), or a return / attribute store"""
    exceptions = exceptions or {}
    n = 0
    for f in funcs:
        rd = rd_of(f.node)
        cfg = rd.cfg
        # direct returns of an unordered expression
        for nd in cfg.nodes:
            st = nd.ast
            if nd.kind == "stmt" and isinstance(st, ast.Return) and st.value is not None and \
                    _unordered_value(f, st.value, nd.id, rd):
                n += 1
                key = f"{f.qualname}:return"
                if key in exceptions:
                    ctx.note(f"{rule}: {key} exempt: {exceptions[key]}")
                    continue
                ctx.ob(rule, f.site, False, f"`{ast.unparse(st)[:60]}` returns a list in set-iteration (hash) order",
                       role="unordered:return", line=st.lineno)
            if nd.kind == "stmt" and isinstance(st, ast.Return) and isinstance(st.value, ast.ListComp) and \
                    isinstance(st.value.elt, (ast.Call, ast.ListComp)) and _unordered_value(f, st.value.elt, nd.id, rd):
                n += 1
                ctx.ob(rule, f.site, False, f"`{ast.unparse(st)[:60]}` returns lists in set-iteration (hash) order",
                       role="unordered:return-elements", line=st.lineno)
        for ds in list(rd.defs_at.values()):
            for d in ds:
                if d.kind != "assign" or d.value is None or d.index is not None:
                    continue
                v = d.value
                elem = False
                if not _unordered_value(f, v, d.node, rd):
                    # list of unordered lists: [list(set(..)) for s in samples]
                    if isinstance(v, ast.ListComp) and isinstance(v.elt, ast.Call) and _unordered_value(f, v.elt, d.node, rd):
                        elem = True
                    else:
                        continue
                n += 1
                key = f"{f.qualname}:{d.var}"
                if key in exceptions:
                    ctx.note(f"{rule}: {key} exempt: {exceptions[key]}")
                    continue
                bad = None
                for nd in cfg.nodes:
                    st = nd.ast
                    if st is None or d not in rd.reaching(d.var, nd.id):
                        continue
                    # sanitised: x.sort() / x = sorted(x) kills or orders the list
                    for sub in walk_no_nested(st):
                        if bad is not None:
                            break
                        if isinstance(sub, ast.Subscript) and dotted(sub.value) == d.var and isinstance(sub.ctx, ast.Load):
                            if elem:
                                continue
                            bad = (sub, "positional subscript")
                        elif isinstance(sub, ast.Call):
                            cn = dotted(sub.func) or ""
                            args = [dotted(a) for a in sub.args]
                            if cn in ("enumerate", "zip") and d.var in args and not elem:
                                bad = (sub, f"{cn}() pairs hash-order positions with other data")
                        elif isinstance(sub, ast.Return) and sub.value is not None and dotted(sub.value) == d.var:
                            bad = (sub, "returned to the caller in hash order")
                        elif isinstance(sub, ast.Return) and sub.value is not None and elem and d.var in \
                                {x.id for x in ast.walk(sub.value) if isinstance(x, ast.Name)} and not \
                                any(isinstance(c, ast.Call) and dotted(c.func) == "sorted" for c in ast.walk(sub.value)):
                            bad = (sub, "elements returned to the caller in hash order")
                    if bad:
                        break
                # a later .sort() on every path before the first order-sensitive use sanitises
                if bad is not None:
                    sorts = [nd.id for nd in cfg.nodes if nd.ast is not None and any(
                        isinstance(c, ast.Call) and isinstance(c.func, ast.Attribute) and c.func.attr == "sort"
                        and dotted(c.func.value) == d.var for c in walk_no_nested(nd.ast))]
                    bid = cfg.node_of_expr(bad[0])
                    if sorts and bid and all(any(cfg.dominates(s, b) for s in sorts) for b in bid):
                        bad = None
                ctx.ob(rule, f.site, bad is None, "" if bad is None else
                       f"`{d.var} = {ast.unparse(v)[:50]}` has set-iteration (hash) order, then "
                       f"`{ast.unparse(bad[0])[:40]}`: {bad[1]} (wrong as soon as hash order != numeric order, e.g. {{1, 8}})",
                       role=f"unordered:{d.var}", line=d.stmt.lineno)
    return n
