"""C15 - independence of the hbar convention: hbar-power type system (E6) and alias mutation (E4)."""
from . import common_alias as A
from . import common_hbar as Hb


def rules(ctx):
    Hb.ops_frontend(ctx, "C15.dim-frontend")
    Hb.state_objects(ctx, "C15.dim-states")
    Hb.bosonic_circuit(ctx, "C15.dim-bosonic")
    Hb.thewalrus_kw(ctx, "C15.dim-apps", "apps/train/param.py", {"__returns__": {"A_to_cov": Hb.O, "_Omat": Hb.Z}})
    Hb.thewalrus_kw(ctx, "C15.dim-apps", "apps/qchem/utils.py", {"marginals": {"mu": Hb.H, "V": Hb.O}})
    Hb.thewalrus_kw(ctx, "C15.dim-apps", "compilers/xcov.py", {"Xcov.compile": {"!S": Hb.Z}})
    A.alias_mutation(ctx, "C15.alias", "backends/states.py", ("BaseGaussianState", "BaseBosonicState"))
    ctx.floor("C15.dim-frontend", 40)
    ctx.floor("C15.dim-states", 35)
    ctx.floor("C15.dim-bosonic", 14)
    ctx.floor("C15.dim-apps", 5)
    ctx.floor("C15.alias", 6)
    hbar_source(ctx)


def hbar_source(ctx, rule="C15.hbar-source"):
    """WHEN the global convention is read: state objects answer in the hbar they were created with, operations convert at
    application time"""
    import ast
    from ..loader import dotted, walk_no_nested
    ctx.explain(f"{rule}: sf.hbar is a mutable global. (a) In backends/states.py only BaseState.__init__ reads it (the state stores it "
                "as self._hbar; every formula uses the stored value - a state made at hbar=1 must not change its answers when sf.hbar is "
                "set to 2 afterwards). (b) In ops.py no constructor reads it or stores a value derived from it in the operation "
                "(operations, e.g. the import-time singletons MeasureX / MeasureP, are built before the user sets hbar); exempt: "
                "Gaussian.__init__, which converts the covariance the user supplies in the convention of that moment.")
    def reads(f):
        return [n for n in ast.walk(f.node) if isinstance(n, ast.Attribute) and dotted(n) in ("sf.hbar", "strawberryfields.hbar")]
    n = 0
    m = ctx.tree.module("backends/states.py")
    for f in m.functions.values():
        n += 1
        r = reads(f) if f.qualname != "BaseState.__init__" else []
        ctx.ob(rule, f.site, not r, "" if not r else f"{f.qualname} reads the global sf.hbar instead of the value the state was created "
               "with (self._hbar)", role="state-uses-stored-hbar", line=(r[0].lineno if r else f.node.lineno))
    # module level of states.py
    top = [n for st in m.tree.body if not isinstance(st, (ast.FunctionDef, ast.ClassDef)) for n in ast.walk(st)
           if isinstance(n, ast.Attribute) and dotted(n) in ("sf.hbar", "strawberryfields.hbar")]
    ctx.ob(rule, "backends/states.py::<module>", not top, "" if not top else "module-level code of states.py reads sf.hbar at import time",
           role="state-module-level", line=(top[0].lineno if top else 1))
    o = ctx.tree.module("ops.py")
    for f in o.functions.values():
        if f.name not in ("__init__", "__new__") or f.qualname == "Gaussian.__init__":
            continue
        n += 1
        r = reads(f)
        ctx.ob(rule, f.site, not r, "" if not r else f"{f.qualname} reads sf.hbar when the operation is CONSTRUCTED: the conversion factor "
               "is frozen before the user sets hbar (import-time singletons keep hbar = 2 for ever)", role="op-ctor-no-hbar",
               line=(r[0].lineno if r else f.node.lineno))
    ctx.floor(rule, 60)
