"""C15 - independence of the hbar convention: hbar-power type system (E6) and alias mutation (E4)."""
from . import common_alias as A
from . import common_hbar as Hb


def rules(ctx):
    Hb.ops_frontend(ctx, "C15.dim-frontend")
    Hb.state_objects(ctx, "C15.dim-states")
    Hb.bosonic_circuit(ctx, "C15.dim-bosonic")
    Hb.thewalrus_kw(ctx, "C15.dim-apps", "apps/train/param.py", {"__returns__": {"A_to_cov": Hb.O}})
    Hb.thewalrus_kw(ctx, "C15.dim-apps", "compilers/xcov.py", {"Xcov.compile": {"!S": Hb.Z}})
    A.alias_mutation(ctx, "C15.alias", "backends/states.py", ("BaseGaussianState", "BaseBosonicState"))
    ctx.floor("C15.dim-frontend", 40)
    ctx.floor("C15.dim-states", 35)
    ctx.floor("C15.dim-bosonic", 14)
    ctx.floor("C15.dim-apps", 5)
    ctx.floor("C15.alias", 6)
