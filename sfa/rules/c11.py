"""C11 - Gaussian-merging compilers (structural clauses)."""
from __future__ import annotations

import ast

from ..cfg import cfg_of, T as TRUE, F as FALSE
from ..dataflow import derives, rd_of, resolve_local, return_values, expand_locals
from ..loader import dotted, walk_no_nested
from ..tables import CompilerTable, op_classes
from . import common_order as CO

GU = "compilers/gaussian_unitary.py"
PV = "compilers/passive.py"
GM = "compilers/gaussian_merge.py"


def order(ctx, rule="C11.set-order"):
    ctx.explain(f"{rule}: in the merging compilers no list in set-iteration (hash) order is subscripted, enumerated, "
                "zipped or returned before it is sorted (used_modes -> dict_indices must agree with ord_reg).")
    fs = [f for rel in (GU, PV, GM, "compilers/xunitary.py", "compilers/xcov.py", "compilers/xstrict.py")
          for f in ctx.tree.module(rel).functions.values()]
    CO.set_order(ctx, rule, fs)
    # the index map must be built from a sorted sequence: dict_indices = {used_modes[i]: i ...}
    for rel, qn in ((GU, "GaussianUnitary.compile"), (PV, "Passive.compile")):
        f = ctx.tree.func(rel, qn)
        rd = rd_of(f.node)
        found = False
        for ds in rd.defs_at.values():
            for d in ds:
                if d.var in _roles(f)[0] and d.kind == "assign":
                    found = True
                    dv = derives(f.node, d.value, d.node)
                    ok = dv.has_call("sorted") or dv.has_call(".sort") or dv.has_call("np.sort")
                    ctx.ob(rule, f.site, ok, "" if ok else "dict_indices maps modes to matrix rows by their position in an "
                           "unsorted collection, while the output command acts on registers sorted by index",
                           role="index-map-sorted", line=d.stmt.lineno)
        ctx.require(found, f"{qn} no longer builds a mode -> row dictionary")
        # output registers sorted by index
        cmds = [n for n in walk_no_nested(f.node) if isinstance(n, ast.Call) and dotted(n.func) == "Command"]
        for c in cmds:
            if len(c.args) < 2:
                continue
            dv = derives(f.node, c.args[1])
            ok = dv.has_call("sorted") and f.pos_params[2] in dv.params
            ctx.ob(rule, f.site, ok, "" if ok else "the output command does not act on the used registers sorted by index",
                   role=f"out-reg:{ast.unparse(c.args[0])[:20]}", line=c.lineno)
    ctx.floor(rule, 5)


def _roles(f):
    """name-independent roles of the locals of a merging compile(): IM = the mode -> row dictionaries (locals bound to a
    dict comprehension / dict(...) call), NM = the locals holding the class name of the current operation"""
    im, nm = set(), set()
    for n in walk_no_nested(f.node):
        if isinstance(n, ast.Assign) and len(n.targets) == 1 and isinstance(n.targets[0], ast.Name):
            v = n.value
            if isinstance(v, ast.DictComp) or isinstance(v, ast.Call) and dotted(v.func) == "dict":
                im.add(n.targets[0].id)
            if isinstance(v, ast.Attribute) and v.attr == "__name__" or \
                    isinstance(v, ast.Call) and dotted(v.func) == "type" and False:
                nm.add(n.targets[0].id)
    return im, nm


def _is_raw_mode(f, rd, x: ast.Name, at, im) -> bool:
    """does the name (read at CFG node `at`) hold lifetime mode indices (.ind of registers) that have not been mapped
    through the index map?"""
    for d in rd.reaching(x.id, at):
        v = d.value
        if v is None or d.weak:
            continue
        if d.kind in ("for", "comp"):
            # element of a list: look at the list
            for y in ast.walk(v):
                if isinstance(y, ast.Name) and y.id != x.id and _is_raw_mode(f, rd, y, d.node, im):
                    return True
            continue
        has_ind = any(isinstance(y, ast.Attribute) and y.attr == "ind" for y in ast.walk(v))
        mapped = any(isinstance(y, ast.Subscript) and dotted(y.value) in im for y in ast.walk(v))
        if has_ind and not mapped:
            return True
    return False


HELPERS = {"_apply_symp_one_mode_gate": [3], "_apply_symp_two_mode_gate": [3, 4], "_apply_one_mode_gate": [2],
           "_apply_two_mode_gate": [2, 3]}


def index_map(ctx, rule="C11.index-map"):
    ctx.explain(f"{rule}: every row / column / position argument that addresses the net symplectic, displacement or "
                "transfer matrix derives from dict_indices[...], never from a raw mode index, and two-mode helpers "
                "receive the indices of modes[0], modes[1] in that order.")
    for rel, qn in ((GU, "GaussianUnitary.compile"), (PV, "Passive.compile")):
        f = ctx.tree.func(rel, qn)
        IM, _nm = _roles(f)
        ctx.require(IM, f"{qn} no longer builds a mode -> row dictionary")
        rd = rd_of(f.node)
        for n in walk_no_nested(f.node):
            if isinstance(n, ast.Call) and dotted(n.func) in HELPERS:
                pos = HELPERS[dotted(n.func)]
                got = []
                for k, p in enumerate(pos):
                    if p >= len(n.args):
                        continue
                    a = n.args[p]
                    a = resolve_local(f.node, a)
                    ok = isinstance(a, ast.Subscript) and dotted(a.value) in IM
                    which = None
                    if ok and isinstance(a.slice, ast.Subscript) and isinstance(a.slice.value, ast.Name) and \
                            isinstance(a.slice.slice, ast.Constant):
                        which = a.slice.slice.value
                    got.append(which)
                    ctx.ob(rule, f.site, ok, "" if ok else f"argument `{ast.unparse(a)[:30]}` of {dotted(n.func)} is a raw "
                           "mode index, not its row in the net matrix (identity only on dense registers)",
                           role=f"{dotted(n.func)}:arg{p}", line=n.lineno)
                if len(pos) == 2 and None not in got and len(got) == 2:
                    ok = got == [0, 1]
                    ctx.ob(rule, f.site, ok, "" if ok else f"{dotted(n.func)} receives modes in order {got}: the two-mode "
                           "matrix acts with its modes transposed", role=f"{dotted(n.func)}:order", line=n.lineno)
            # subscripts of rnet / T with mode-derived index
            if isinstance(n, ast.Subscript) and isinstance(n.value, ast.Name) and n.value.id not in IM \
                    and not isinstance(n.slice, ast.Slice):
                ids = rd.cfg.node_of_expr(n)
                if not ids:
                    continue
                base_raw = _is_raw_mode(f, rd, n.value, ids[0], IM)
                if base_raw:
                    continue  # modes[0]: selecting from the list of mode indices
                names = [x for x in ast.walk(n.slice) if isinstance(x, ast.Name)]
                raw = [x for x in names if _is_raw_mode(f, rd, x, ids[0], IM)]
                if raw:
                    # every raw occurrence must sit inside a subscript of the index map
                    def wrapped(x):
                        p = getattr(x, "parent", None)
                        while p is not None and p is not n:
                            if isinstance(p, ast.Subscript) and dotted(p.value) in IM:
                                return True
                            p = getattr(p, "parent", None)
                        return False
                    ok = all(wrapped(x) for x in raw)
                    ctx.ob(rule, f.site, ok, "" if ok else f"`{ast.unparse(n)[:40]}` indexes the net matrix with a raw mode index",
                           role="subscript:net", line=n.lineno)
            # expand(S, [dict_indices[mode] for mode in modes], nmodes) / np.ix_(modes, modes) after remapping
            if isinstance(n, ast.Call) and dotted(n.func) == "expand" and len(n.args) >= 2:
                d = derives(f.node, n.args[1])
                ok = any(isinstance(e, ast.Subscript) and dotted(e.value) in IM for e in d.exprs)
                ctx.ob(rule, f.site, ok, "" if ok else "expand() receives raw mode indices", role="expand", line=n.lineno)
            if isinstance(n, ast.Call) and dotted(n.func) == "np.ix_":
                oks = []
                for a in n.args:
                    d = derives(f.node, a)
                    oks.append(any(isinstance(e, ast.Subscript) and dotted(e.value) in IM for e in d.exprs))
                ok = all(oks)
                ctx.ob(rule, f.site, ok, "" if ok else "np.ix_ addresses the transfer matrix with raw mode indices",
                       role="ix", line=n.lineno)
    # every matrix multiplied into the net transformation has been embedded through the index map (helper call, expand(..) over
    # mapped modes, or an identity filled through np.ix_ of mapped modes) - never the raw matrix of the operation
    for rel, qn in ((GU, "GaussianUnitary.compile"), (PV, "Passive.compile")):
        f = ctx.tree.func(rel, qn)
        IM, _nm = _roles(f)
        rd = rd_of(f.node)
        nets = set()
        for n in walk_no_nested(f.node):
            if isinstance(n, ast.Assign) and len(n.targets) == 1 and isinstance(n.targets[0], ast.Name) and \
                    isinstance(n.value, ast.Call) and dotted(n.value.func) in ("np.identity", "np.eye", "np.zeros"):
                nets.add(n.targets[0].id)
        # the net MATRIX (initialised as an identity) is only ever replaced by a product with the whole of it: no block of it is
        # assigned in place (an operation on some modes transforms whole ROWS of the net matrix, not the block of those modes)
        mats = {n.targets[0].id for n in walk_no_nested(f.node) if isinstance(n, ast.Assign) and len(n.targets) == 1 and
                isinstance(n.targets[0], ast.Name) and isinstance(n.value, ast.Call) and dotted(n.value.func) in ("np.identity", "np.eye")}
        first_loop = min([x.lineno for x in walk_no_nested(f.node) if isinstance(x, ast.For)] or [0])
        for st in walk_no_nested(f.node):
            tg = st.targets if isinstance(st, ast.Assign) else [st.target] if isinstance(st, ast.AugAssign) else []
            for t_ in tg:
                if isinstance(t_, ast.Subscript) and isinstance(t_.value, ast.Name) and t_.value.id in mats:
                    # (helper matrices such as U_expand are also identities: only a matrix that is multiplied into itself is a net)
                    is_net = any(isinstance(x, ast.Assign) and isinstance(x.targets[0], ast.Name) and x.targets[0].id == t_.value.id and
                                 isinstance(x.value, ast.BinOp) and isinstance(x.value.op, ast.MatMult) for x in walk_no_nested(f.node)) \
                        or any(isinstance(x, ast.Call) and dotted(x.func) in HELPERS and
                               any(isinstance(a, ast.Name) and a.id == t_.value.id for a in x.args) for x in walk_no_nested(f.node))
                    if is_net:
                        ctx.ob(rule, f.site, False, f"`{ast.unparse(st)[:60]}` assigns a block of the net matrix in place: the operation "
                               "must multiply whole rows (couplings of its modes to the other modes are left untransformed)",
                               role="no-block-store", line=st.lineno)
        for nd in rd.cfg.nodes:
            st = nd.ast
            if nd.kind != "stmt" or not isinstance(st, ast.Assign) or not isinstance(st.value, ast.BinOp) or \
                    not isinstance(st.value.op, ast.MatMult):
                continue
            tg = st.targets[0]
            if not (isinstance(tg, ast.Name) and tg.id in nets and isinstance(st.value.right, ast.Name) and st.value.right.id == tg.id):
                continue
            d = derives(f.node, st.value.left, nd.id)
            ok = d.has_call("expand") or any(isinstance(e, ast.Subscript) and dotted(e.value) in IM for e in d.exprs)
            ctx.ob(rule, f.site, ok, "" if ok else f"`{ast.unparse(st)[:50]}` multiplies the raw matrix of the operation into the net "
                   "transformation: its rows follow the order in which the operation lists its modes, not the rows of the net matrix",
                   role="embedded-product", line=st.lineno)
    ctx.floor(rule, 40)


def dagger(ctx, rule="C11.dagger"):
    ctx.explain(f"{rule}: a compiler that folds Gate-typed primitives into a matrix from op.p must consult op.dagger.")
    ops = op_classes(ctx.tree)
    ct = CompilerTable(ctx.tree)
    gate = ops["Gate"]
    for rel, qn, cn in ((GU, "GaussianUnitary.compile", "GaussianUnitary"), (PV, "Passive.compile", "Passive"),
                        ("compilers/xunitary.py", "Xunitary.compile", "Xunitary")):
        f = ctx.tree.func(rel, qn)
        reads_p = any(isinstance(n, ast.Attribute) and n.attr == "p" and isinstance(n.value, ast.Attribute) and
                      n.value.attr == "op" for n in walk_no_nested(f.node))
        reads_d = any(isinstance(n, ast.Attribute) and n.attr == "dagger" for n in walk_no_nested(f.node))
        gates = sorted(p for p in ct.primitives.get(cn, ()) if p in ops and gate in ops[p].mro())
        if not reads_p or not gates:
            continue
        ctx.ob(rule, f.site, reads_d, "" if reads_d else f"{cn}.compile reads op.p of the Gate primitives {gates} but never "
               "op.dagger: Sgate(r).H is compiled as Sgate(r)", role="reads-dagger", line=f.node.lineno)
    ctx.floor(rule, 3)


def dispatch(ctx, rule="C11.dispatch"):
    ctx.explain(f"{rule}: every primitive of a compiler that folds operations by class name has a branch in the name "
                "dispatch, or the chain ends in a raising else (no accepted operation is silently dropped).")
    ct = CompilerTable(ctx.tree)
    for rel, qn, cn in ((GU, "GaussianUnitary.compile", "GaussianUnitary"), (PV, "Passive.compile", "Passive")):
        f = ctx.tree.func(rel, qn)
        handled = set()
        NM = _roles(f)[1]
        def is_name(e):
            return dotted(e) in NM or isinstance(e, ast.Attribute) and e.attr == "__name__"
        for n in walk_no_nested(f.node):
            if isinstance(n, ast.Compare) and len(n.ops) == 1 and isinstance(n.ops[0], ast.Eq):
                for c_, o_ in ((n.comparators[0], n.left), (n.left, n.comparators[0])):
                    if isinstance(c_, ast.Constant) and is_name(o_):
                        handled.add(c_.value)
            if isinstance(n, ast.Compare) and is_name(n.left) and isinstance(n.ops[0], ast.In) and \
                    isinstance(n.comparators[0], (ast.Tuple, ast.List, ast.Set)):
                handled |= {e.value for e in n.comparators[0].elts if isinstance(e, ast.Constant)}
        # a raising else at the end of the dispatch chain?
        raising_else = any(isinstance(n, ast.Raise) for n in walk_no_nested(f.node))
        for p in sorted(ct.primitives[cn]):
            if p == "All":
                continue  # never reaches a circuit: All.__or__ appends its inner operation once per register
            ok = p in handled or raising_else
            ctx.ob(rule, f.site, ok, "" if ok else f"'{p}' is accepted as a primitive of {cn} but has no branch in the "
                   "dispatch: the command is silently dropped from the compiled program", role=f"primitive:{p}",
                   line=f.node.lineno)
    ctx.floor(rule, 18)


def unfiltered(ctx, rule="C11.dispatch"):
    ctx.explain(f"{rule}: (unfiltered) the merging compilers work on every command they are handed: the sequence they iterate / store "
                "is the `seq` argument itself, not a filtered copy (commands disappear only by being folded into a merged operation).")
    for rel, qn in ((GM, "GaussianMerge.compile"), (GU, "GaussianUnitary.compile"), (PV, "Passive.compile")):
        f = ctx.tree.func(rel, qn)
        seqp = f.pos_params[1]
        bad = None
        for n in walk_no_nested(f.node):
            if isinstance(n, (ast.ListComp, ast.GeneratorExp)) and any(g.ifs for g in n.generators) and \
                    any(seqp in derives(f.node, g.iter).params for g in n.generators):
                elt_is_item = isinstance(n.elt, ast.Name) and any(isinstance(g.target, ast.Name) and g.target.id == n.elt.id
                                                                   for g in n.generators)
                if elt_is_item:
                    bad = n
            if isinstance(n, ast.Call) and dotted(n.func) == "filter" and any(seqp in derives(f.node, a).params for a in n.args):
                bad = n
        ctx.ob(rule, f.site, bad is None, "" if bad is None else f"`{ast.unparse(bad)[:60]}` drops commands of the input before "
               "compiling: whatever the filter calls an identity is removed from the program", role="unfiltered-input",
               line=(bad.lineno if bad is not None else f.node.lineno))


def nonempty(ctx, rule="C11.nonempty"):
    ctx.explain(f"{rule}: GaussianUnitary.compile may return an empty list (identity: no GaussianTransform, no Dgate); "
                "callers must not subscript its result unguarded.")
    g = ctx.tree.func(GU, "GaussianUnitary.compile")
    # may it return []?  return A + B with A possibly [] and B a filtered comprehension
    may_empty = False
    rd = rd_of(g.node)
    for r, rv in return_values(g.node):
        names = [x for x in ast.walk(rv) if isinstance(x, ast.Name)]
        flags = []
        for nm in names:
            ds = rd.reaching(nm.id, rd.cfg.find(r)[0])
            e = any(d.value is not None and (isinstance(d.value, ast.List) and not d.value.elts or
                                             isinstance(d.value, ast.ListComp) and any(gn.ifs for gn in d.value.generators))
                    for d in ds)
            flags.append(e)
        if flags and all(flags):
            may_empty = True
    ctx.note(f"{rule}: GaussianUnitary.compile may return an empty list: {may_empty}")
    n = 0
    for f in ctx.tree.all_functions():
        if not f.module.rel.startswith("compilers/"):
            continue
        rdf = rd_of(f.node)
        cfg = rdf.cfg
        for ds in list(rdf.defs_at.values()):
            for d in ds:
                v = d.value
                if d.kind != "assign" or not isinstance(v, ast.Call) or not isinstance(v.func, ast.Attribute) or \
                        v.func.attr != "compile" or not isinstance(v.func.value, ast.Call) or \
                        dotted(v.func.value.func) != "GaussianUnitary":
                    continue
                # subscripts of the result with a constant index
                subs = []
                for nd in cfg.nodes:
                    if nd.ast is None or d not in rdf.reaching(d.var, nd.id):
                        continue
                    for s_ in walk_no_nested(nd.ast):
                        if isinstance(s_, ast.Subscript) and dotted(s_.value) == d.var and isinstance(s_.slice, (ast.Constant, ast.UnaryOp)):
                            subs.append((s_, nd.id))
                if not subs:
                    continue
                n += 1
                bad = None
                for s_, nid in subs:
                    conds = cfg.branch_conditions(nid)
                    guarded = False
                    for h, lab in conds:
                        t = ast.unparse(cfg.node(h).ast)
                        if cfg.node(h).kind == "if" and d.var in {x.id for x in ast.walk(cfg.node(h).ast) if isinstance(x, ast.Name)} \
                                and ("[]" in t or "len(" in t or t == d.var or t == f"not {d.var}"):
                            guarded = True
                    if not guarded:
                        bad = s_
                        break
                ok = bad is None or not may_empty
                ctx.ob(rule, f.site, ok, "" if ok else f"`{ast.unparse(bad)[:40]}`: the result of GaussianUnitary().compile "
                       "is empty when the merged gates cancel; IndexError instead of a compiled program or CircuitError",
                       role="subscript:compile-result", line=bad.lineno if bad is not None else d.stmt.lineno)
    ctx.require(n >= 2, f"only {n} consumers of GaussianUnitary().compile found")
    ctx.floor(rule, 2)


def _flag_paths(stmts, state, events, on_call, on_test):
    """structured path enumeration of a statement list with constant propagation of boolean flag variables: yields
    (state, events, fell_through) for every path; inner loops are taken zero times and once; `on_test(test, state)` may decide a
    branch (True / False) or leave it open (None); `on_call(call)` says whether a call is an event"""
    if not stmts:
        yield state, events, True
        return
    st, rest = stmts[0], stmts[1:]

    def cont(outs):
        for s2, e2, fell in outs:
            if fell:
                yield from _flag_paths(rest, s2, e2, on_call, on_test)
            else:
                yield s2, e2, False

    if isinstance(st, (ast.Continue, ast.Break, ast.Return, ast.Raise)):
        ev = events + [c for c in ast.walk(st) if isinstance(c, ast.Call) and on_call(c)]
        yield state, ev, False
    elif isinstance(st, ast.If):
        ev = events + [c for c in ast.walk(st.test) if isinstance(c, ast.Call) and on_call(c)]
        v = on_test(st.test, state)
        outs = []
        if v is not False:
            outs += list(_flag_paths(st.body, dict(state, **{"@taken": state.get("@taken", ()) + ((st.test, True),)}), ev, on_call, on_test))
        if v is not True:
            outs += list(_flag_paths(st.orelse, dict(state, **{"@taken": state.get("@taken", ()) + ((st.test, False),)}), ev, on_call, on_test))
        yield from cont(outs)
    elif isinstance(st, (ast.For, ast.While)):
        outs = [(state, events, True)]
        for s2, e2, fell in _flag_paths(st.body, state, events, on_call, on_test):
            outs.append((s2, e2, True))       # continue / break / fall-through all leave the inner loop
        yield from cont(outs)
    elif isinstance(st, (ast.With, ast.Try)):
        yield from cont(list(_flag_paths(st.body, state, events, on_call, on_test)))
    else:
        s2 = state
        if isinstance(st, ast.Assign) and len(st.targets) == 1 and isinstance(st.targets[0], ast.Name):
            if isinstance(st.value, ast.Constant) and isinstance(st.value.value, bool):
                s2 = dict(state, **{st.targets[0].id: st.value.value})
            elif st.targets[0].id in state:
                s2 = {k: v for k, v in state.items() if k != st.targets[0].id}
        ev = events + [c for c in ast.walk(st) if isinstance(c, ast.Call) and on_call(c)]
        yield from cont([(s2, ev, True)])


def rewire(ctx, rule="C11.rewire"):
    ctx.explain(f"{rule}: gaussian_merge replaces a set of DAG nodes by the merged transform; every loop that re-attaches the "
                "successors of a replaced node must, on EVERY path through its body on which the successor is not classified as "
                "Gaussian (those are merged or re-attached elsewhere), add an edge into that successor - a successor left without "
                "an incoming edge floats to the front of the topological order, i.e. a non-Gaussian gate moves in front of "
                "the Gaussian block it followed. Paths are enumerated with constant propagation of boolean flags "
                "(`placed = False ... placed = True ... if not placed:`), inner loops taken zero times and once.")
    n = 0
    for f in ctx.tree.module(GM).functions.values():
        k = 0
        for loop in walk_no_nested(f.node):
            if not isinstance(loop, ast.For) or not isinstance(loop.target, ast.Name):
                continue
            it = expand_locals(f.node, loop.iter)
            src = ast.unparse(it)
            over_succ = (isinstance(it, ast.Name) and it.id == "successors") or ".successors(" in src
            if not over_succ:
                continue
            var = loop.target.id

            def names_var(a):
                a = resolve_local(f.node, a) if isinstance(a, ast.Name) and a.id != var else a
                return isinstance(a, ast.Name) and a.id == var

            def on_call(c):
                return isinstance(c.func, ast.Attribute) and c.func.attr == "add_edge" and len(c.args) >= 2 and names_var(c.args[1])

            if not any(isinstance(c, ast.Call) and on_call(c) for c in ast.walk(loop)):
                continue

            def on_test(t, state):
                neg = False
                while isinstance(t, ast.UnaryOp) and isinstance(t.op, ast.Not):
                    t, neg = t.operand, not neg
                if isinstance(t, ast.Name) and t.id in state:
                    return state[t.id] != neg
                return None

            def gaussian_side(test, taken):
                """the branch taken says the successor IS a Gaussian operation"""
                t = expand_locals(f.node, test)
                neg = False
                while isinstance(t, ast.UnaryOp) and isinstance(t.op, ast.Not):
                    t, neg = t.operand, not neg
                if isinstance(t, ast.Compare) and len(t.ops) == 1 and isinstance(t.ops[0], (ast.In, ast.NotIn)) and \
                        (dotted(t.comparators[0]) or "").endswith("gaussian_ops") and \
                        any(isinstance(x, ast.Name) and x.id == var for x in ast.walk(t.left)):
                    is_in = isinstance(t.ops[0], ast.In) != neg
                    return is_in == taken
                return False

            n += 1
            k += 1
            bad = None
            npaths = 0
            for state, events, _fell in _flag_paths(loop.body, {}, [], on_call, on_test):
                npaths += 1
                if any(gaussian_side(t, tk) for t, tk in state.get("@taken", ())):
                    continue
                if not events:
                    bad = state.get("@taken", ())
                    break
            ok = bad is None
            why = ""
            if not ok:
                why = " and ".join(("" if tk else "not ") + "(" + ast.unparse(t)[:50] + ")" for t, tk in bad) or "always"
            ctx.ob(rule, f.site, ok, "" if ok else f"loop over `{src[:40]}`: on the path [{why}] the successor `{var}` of a replaced "
                   "node gets no incoming edge from the merged block - it is no longer ordered after the gates it followed",
                   role=f"reattach:{k}", line=loop.lineno, detail={"paths": npaths})
    ctx.require(n >= 1, f"only {n} successor re-attachment loops found in gaussian_merge.py")
    ctx.floor(rule, 1)


REACHABILITY = ("ancestors", "descendants", "has_path", "transitive_closure", "all_simple_paths", "shortest_path", "dfs_preorder_nodes",
                "bfs_tree", "dfs_tree", "topological_generations")


def merge_convex(ctx, rule="C11.merge-set"):
    ctx.explain(f"{rule}: gaussian_merge grows the set of operations it merges TRANSITIVELY (successors, displacement chains, predecessors "
                "of members, predecessors of those ...). Whether such a set can be contracted - no operation outside it lies between two "
                "members - is a reachability question that one-step predecessor / successor tests cannot answer. Every path of "
                "get_valid_gaussian_merge_ops to a return that hands out candidates therefore passes through a call that reaches "
                "(through methods of the class) a reachability query on the DAG (networkx ancestors / descendants / has_path ...). "
                "*because* merging a non-convex set moves gates past the operation in between (a Gaussian gate jumps over a "
                "non-Gaussian one) or makes the rewired graph cyclic.")
    cls = ctx.tree.cls(GM, "GaussianMerge")
    f = cls.methods.get("get_valid_gaussian_merge_ops")
    ctx.require(f is not None, "anchor vanished: GaussianMerge.get_valid_gaussian_merge_ops")
    # methods that reach a reachability query
    direct = {}
    calls = {}
    for name, m in cls.methods.items():
        direct[name] = any(isinstance(c, ast.Call) and (dotted(c.func) or "").split(".")[-1] in REACHABILITY for c in walk_no_nested(m.node))
        calls[name] = {c.func.attr for c in walk_no_nested(m.node) if isinstance(c, ast.Call) and isinstance(c.func, ast.Attribute)
                       and dotted(c.func.value) == "self" and c.func.attr in cls.methods}
    reach = {n for n, d in direct.items() if d}
    changed = True
    while changed:
        changed = False
        for n_, cs in calls.items():
            if n_ not in reach and cs & reach:
                reach.add(n_)
                changed = True
    cfg = cfg_of(f.node)
    through = set()
    for nd in cfg.nodes:
        if nd.ast is None:
            continue
        for c in ast.walk(nd.ast):
            if isinstance(c, ast.Call):
                last = (dotted(c.func) or "").split(".")[-1]
                if last in REACHABILITY or (isinstance(c.func, ast.Attribute) and dotted(c.func.value) == "self" and last in reach):
                    through.add(nd.id)
    exits = []
    for r, v in return_values(f.node):
        if isinstance(v, ast.List) and not v.elts:
            continue
        exits += cfg.find(r)
    ctx.require(exits, "get_valid_gaussian_merge_ops returns no candidate list")
    ok = cfg.must_pass(cfg.entry, through, exits=exits, exc=False)
    ctx.ob(rule, f.site, ok, "" if ok else "the merge candidates are validated by one-step predecessor / successor tests only: a member reached "
           "through another arm can lie behind a non-merged operation that follows an earlier member (e.g. Sgate q1; BSgate (q0,q2); Vgate q2; "
           "BSgate (q0,q2); Rgate q0; BSgate (q1,q0) merges everything in front of the Vgate)", role="convex-set", line=f.node.lineno,
           detail={"methods_reaching_a_reachability_query": sorted(reach)})
    ctx.floor(rule, 1)


def rules(ctx):
    from . import c04
    c04.register_index(ctx, "C11.register-index")
    order(ctx)
    index_map(ctx)
    dagger(ctx)
    dispatch(ctx)
    unfiltered(ctx)
    nonempty(ctx)
    rewire(ctx)
    merge_convex(ctx)
    from . import common_backend as _B
    _B.polar_pair(ctx, "C11.polar", ("compilers/gaussian_unitary.py", "compilers/gaussian_merge.py"))
    ctx.floor("C11.polar", 1)
    from . import c02 as _c02
    _c02.zero_is_identity(ctx, "C11.generic-zero-test")
