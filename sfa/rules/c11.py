"""C11 - Gaussian-merging compilers (structural clauses)."""
from __future__ import annotations

import ast

from ..cfg import cfg_of, T as TRUE, F as FALSE
from ..dataflow import derives, rd_of
from ..loader import dotted, walk_no_nested
from ..tables import CompilerTable, op_classes
from . import common_order as CO

GU = "compilers/gaussian_unitary.py"
PV = "compilers/passive.py"
GM = "compilers/gaussian_merge.py"


def order(ctx, rule="C11.set-order"):
    ctx.explain(f"{rule}: in the merging compilers no list in set-iteration (hash) order is subscripted, enumerated, "
                "zipped or returned before it is sorted (used_modes -> dict_indices must agree with ord_reg).")
    fs = [f for rel in (GU, PV, GM, "compilers/xunitary.py", "compilers/xcov.py", "compilers/xstrict.py")
          for f in ctx.tree.module(rel).functions.values()]
    CO.set_order(ctx, rule, fs)
    # the index map must be built from a sorted sequence: dict_indices = {used_modes[i]: i ...}
    for rel, qn in ((GU, "GaussianUnitary.compile"), (PV, "Passive.compile")):
        f = ctx.tree.func(rel, qn)
        rd = rd_of(f.node)
        found = False
        for ds in rd.defs_at.values():
            for d in ds:
                if d.var == "dict_indices" and d.kind == "assign":
                    found = True
                    dv = derives(f.node, d.value, d.node)
                    ok = dv.has_call("sorted") or dv.has_call(".sort") or dv.has_call("np.sort")
                    ctx.ob(rule, f.site, ok, "" if ok else "dict_indices maps modes to matrix rows by their position in an "
                           "unsorted collection, while the output command acts on registers sorted by index",
                           role="index-map-sorted", line=d.stmt.lineno)
        ctx.require(found, f"{qn} no longer builds dict_indices")
        # output registers sorted by index
        cmds = [n for n in walk_no_nested(f.node) if isinstance(n, ast.Call) and dotted(n.func) == "Command"]
        for c in cmds:
            if len(c.args) < 2:
                continue
            dv = derives(f.node, c.args[1])
            ok = dv.has_call("sorted") and f.pos_params[2] in dv.params
            ctx.ob(rule, f.site, ok, "" if ok else "the output command does not act on the used registers sorted by index",
                   role=f"out-reg:{ast.unparse(c.args[0])[:20]}", line=c.lineno)
    ctx.floor(rule, 5)


HELPERS = {"_apply_symp_one_mode_gate": [3], "_apply_symp_two_mode_gate": [3, 4], "_apply_one_mode_gate": [2],
           "_apply_two_mode_gate": [2, 3]}


def index_map(ctx, rule="C11.index-map"):
    ctx.explain(f"{rule}: every row / column / position argument that addresses the net symplectic, displacement or "
                "transfer matrix derives from dict_indices[...], never from a raw mode index, and two-mode helpers "
                "receive the indices of modes[0], modes[1] in that order.")
    for rel, qn in ((GU, "GaussianUnitary.compile"), (PV, "Passive.compile")):
        f = ctx.tree.func(rel, qn)
        for n in walk_no_nested(f.node):
            if isinstance(n, ast.Call) and dotted(n.func) in HELPERS:
                pos = HELPERS[dotted(n.func)]
                got = []
                for k, p in enumerate(pos):
                    if p >= len(n.args):
                        continue
                    a = n.args[p]
                    ok = isinstance(a, ast.Subscript) and dotted(a.value) == "dict_indices"
                    which = None
                    if ok and isinstance(a.slice, ast.Subscript) and dotted(a.slice.value) == "modes" and \
                            isinstance(a.slice.slice, ast.Constant):
                        which = a.slice.slice.value
                    got.append(which)
                    ctx.ob(rule, f.site, ok, "" if ok else f"argument `{ast.unparse(a)[:30]}` of {dotted(n.func)} is a raw "
                           "mode index, not its row in the net matrix (identity only on dense registers)",
                           role=f"{dotted(n.func)}:arg{p}", line=n.lineno)
                if len(pos) == 2 and None not in got and len(got) == 2:
                    ok = got == [0, 1]
                    ctx.ob(rule, f.site, ok, "" if ok else f"{dotted(n.func)} receives modes in order {got}: the two-mode "
                           "matrix acts with its modes transposed", role=f"{dotted(n.func)}:order", line=n.lineno)
            # subscripts of rnet / T with mode-derived index
            if isinstance(n, ast.Subscript) and dotted(n.value) in ("rnet", "Snet", "T") and not isinstance(n.slice, ast.Slice):
                ix = n.slice
                names = {x.id for x in ast.walk(ix) if isinstance(x, ast.Name)}
                if "modes" in names or "mode" in names:
                    ok = "dict_indices" in names
                    ctx.ob(rule, f.site, ok, "" if ok else f"`{ast.unparse(n)[:40]}` indexes the net matrix with a raw mode index",
                           role=f"subscript:{dotted(n.value)}", line=n.lineno)
            # expand(S, [dict_indices[mode] for mode in modes], nmodes) / np.ix_(modes, modes) after remapping
            if isinstance(n, ast.Call) and dotted(n.func) == "expand" and len(n.args) >= 2:
                d = derives(f.node, n.args[1])
                ok = any(isinstance(e, ast.Subscript) and dotted(e.value) == "dict_indices" for e in d.exprs)
                ctx.ob(rule, f.site, ok, "" if ok else "expand() receives raw mode indices", role="expand", line=n.lineno)
            if isinstance(n, ast.Call) and dotted(n.func) == "np.ix_":
                oks = []
                for a in n.args:
                    d = derives(f.node, a)
                    oks.append(any(isinstance(e, ast.Subscript) and dotted(e.value) == "dict_indices" for e in d.exprs))
                ok = all(oks)
                ctx.ob(rule, f.site, ok, "" if ok else "np.ix_ addresses the transfer matrix with raw mode indices",
                       role="ix", line=n.lineno)
    ctx.floor(rule, 40)


def dagger(ctx, rule="C11.dagger"):
    ctx.explain(f"{rule}: a compiler that folds Gate-typed primitives into a matrix from op.p must consult op.dagger.")
    ops = op_classes(ctx.tree)
    ct = CompilerTable(ctx.tree)
    gate = ops["Gate"]
    for rel, qn, cn in ((GU, "GaussianUnitary.compile", "GaussianUnitary"), (PV, "Passive.compile", "Passive"),
                        ("compilers/xunitary.py", "Xunitary.compile", "Xunitary")):
        f = ctx.tree.func(rel, qn)
        reads_p = any(isinstance(n, ast.Attribute) and n.attr == "p" and isinstance(n.value, ast.Attribute) and
                      n.value.attr == "op" for n in walk_no_nested(f.node))
        reads_d = any(isinstance(n, ast.Attribute) and n.attr == "dagger" for n in walk_no_nested(f.node))
        gates = sorted(p for p in ct.primitives.get(cn, ()) if p in ops and gate in ops[p].mro())
        if not reads_p or not gates:
            continue
        ctx.ob(rule, f.site, reads_d, "" if reads_d else f"{cn}.compile reads op.p of the Gate primitives {gates} but never "
               "op.dagger: Sgate(r).H is compiled as Sgate(r)", role="reads-dagger", line=f.node.lineno)
    ctx.floor(rule, 3)


def dispatch(ctx, rule="C11.dispatch"):
    ctx.explain(f"{rule}: every primitive of a compiler that folds operations by class name has a branch in the name "
                "dispatch, or the chain ends in a raising else (no accepted operation is silently dropped).")
    ct = CompilerTable(ctx.tree)
    for rel, qn, cn in ((GU, "GaussianUnitary.compile", "GaussianUnitary"), (PV, "Passive.compile", "Passive")):
        f = ctx.tree.func(rel, qn)
        handled = set()
        for n in walk_no_nested(f.node):
            if isinstance(n, ast.Compare) and dotted(n.left) == "name" and isinstance(n.ops[0], ast.Eq) and \
                    isinstance(n.comparators[0], ast.Constant):
                handled.add(n.comparators[0].value)
            if isinstance(n, ast.Compare) and dotted(n.left) == "name" and isinstance(n.ops[0], ast.In) and \
                    isinstance(n.comparators[0], (ast.Tuple, ast.List, ast.Set)):
                handled |= {e.value for e in n.comparators[0].elts if isinstance(e, ast.Constant)}
        # a raising else at the end of the dispatch chain?
        raising_else = any(isinstance(n, ast.Raise) for n in walk_no_nested(f.node))
        for p in sorted(ct.primitives[cn]):
            if p == "All":
                continue  # never reaches a circuit: All.__or__ appends its inner operation once per register
            ok = p in handled or raising_else
            ctx.ob(rule, f.site, ok, "" if ok else f"'{p}' is accepted as a primitive of {cn} but has no branch in the "
                   "dispatch: the command is silently dropped from the compiled program", role=f"primitive:{p}",
                   line=f.node.lineno)
    ctx.floor(rule, 18)


def nonempty(ctx, rule="C11.nonempty"):
    ctx.explain(f"{rule}: GaussianUnitary.compile may return an empty list (identity: no GaussianTransform, no Dgate); "
                "callers must not subscript its result unguarded.")
    g = ctx.tree.func(GU, "GaussianUnitary.compile")
    # may it return []?  return A + B with A possibly [] and B a filtered comprehension
    may_empty = False
    rd = rd_of(g.node)
    for r in [n for n in walk_no_nested(g.node) if isinstance(n, ast.Return) and n.value is not None]:
        names = [x for x in ast.walk(r.value) if isinstance(x, ast.Name)]
        flags = []
        for nm in names:
            ds = rd.reaching(nm.id, rd.cfg.find(r)[0])
            e = any(d.value is not None and (isinstance(d.value, ast.List) and not d.value.elts or
                                             isinstance(d.value, ast.ListComp) and any(gn.ifs for gn in d.value.generators))
                    for d in ds)
            flags.append(e)
        if flags and all(flags):
            may_empty = True
    ctx.note(f"{rule}: GaussianUnitary.compile may return an empty list: {may_empty}")
    n = 0
    for f in ctx.tree.all_functions():
        if not f.module.rel.startswith("compilers/"):
            continue
        rdf = rd_of(f.node)
        cfg = rdf.cfg
        for ds in list(rdf.defs_at.values()):
            for d in ds:
                v = d.value
                if d.kind != "assign" or not isinstance(v, ast.Call) or not isinstance(v.func, ast.Attribute) or \
                        v.func.attr != "compile" or not isinstance(v.func.value, ast.Call) or \
                        dotted(v.func.value.func) != "GaussianUnitary":
                    continue
                # subscripts of the result with a constant index
                subs = []
                for nd in cfg.nodes:
                    if nd.ast is None or d not in rdf.reaching(d.var, nd.id):
                        continue
                    for s_ in walk_no_nested(nd.ast):
                        if isinstance(s_, ast.Subscript) and dotted(s_.value) == d.var and isinstance(s_.slice, (ast.Constant, ast.UnaryOp)):
                            subs.append((s_, nd.id))
                if not subs:
                    continue
                n += 1
                bad = None
                for s_, nid in subs:
                    conds = cfg.branch_conditions(nid)
                    guarded = False
                    for h, lab in conds:
                        t = ast.unparse(cfg.node(h).ast)
                        if cfg.node(h).kind == "if" and d.var in {x.id for x in ast.walk(cfg.node(h).ast) if isinstance(x, ast.Name)} \
                                and ("[]" in t or "len(" in t or t == d.var or t == f"not {d.var}"):
                            guarded = True
                    if not guarded:
                        bad = s_
                        break
                ok = bad is None or not may_empty
                ctx.ob(rule, f.site, ok, "" if ok else f"`{ast.unparse(bad)[:40]}`: the result of GaussianUnitary().compile "
                       "is empty when the merged gates cancel; IndexError instead of a compiled program or CircuitError",
                       role=f"subscript:{d.var}", line=bad.lineno if bad is not None else d.stmt.lineno)
    ctx.require(n >= 2, f"only {n} consumers of GaussianUnitary().compile found")
    ctx.floor(rule, 2)


def rules(ctx):
    from . import c04
    c04.register_index(ctx, "C11.register-index")
    order(ctx)
    index_map(ctx)
    dagger(ctx)
    dispatch(ctx)
    nonempty(ctx)
