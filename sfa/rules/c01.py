"""C01 - backends compute the same physics: structural clauses (axis layout of the Fock kernels, API agreement,
N/M update structure).  Numerical agreement between simulators is NOT decided."""
from __future__ import annotations

import ast
import itertools
from typing import List

from ..layout import (Flat, Machine, Mat, NotModelled, Obj, Raised, Tensor, Violation, Zeros, canonical, TRUNC)
from ..loader import AnalysisError, dotted, walk_no_nested
from ..modekind import mode_kinds
from ..tables import CompilerTable, op_classes
from . import common_backend as B
from . import common_gauss as G

FC = "backends/fockbackend/circuit.py"


class FockMachine(Machine):
    """Machine with the numeric kernels of the Fock circuit as obligation sites"""

    def __init__(self, tree, oracle, targets: List[int]):
        super().__init__(tree, oracle)
        self.targets = list(targets)
        self.applied = set()

    def want(self, kind):
        return tuple((kind, m) for m in self.targets)

    def kernel_hook(self, frame, f, o, args, kwargs):
        if f.name in ("_apply_two_mode_passive", "_apply_S2"):
            mat, state = args[0], args[1]
            if not isinstance(mat, Mat) or not isinstance(state, Tensor):
                raise NotModelled("kernel operands")
            kind = "B" if mat.conj_ else "K"
            got = state.labels[:2]
            ok = tuple(got) == self.want(kind)
            self.oblige(f"{f.name} contracts axes (0, 1)", ok,
                        "" if ok else f"axes 0,1 carry {got} but the {'conjugated ' if mat.conj_ else ''}matrix must act on "
                                      f"{self.want(kind)}")
            self.applied.add(kind)
            return Tensor(state.labels)
        return NotImplemented

    def contract(self, name, a, b):
        """np.dot / np.multiply sites of apply_gate_BLAS"""
        def act(mat, labels, side):
            # side 'rows': matrix acts from the left on ket axes; 'cols': dagger acts from the right on bra axes
            if side == "rows":
                ok = tuple(labels) == self.want("K") and not mat.conj_ and not mat.transposed
                why = f"matrix applied to axes {tuple(labels)}, expected {self.want('K')} with the unconjugated matrix"
                self.applied.add("K")
            else:
                ok = tuple(labels) == self.want("B") and mat.conj_ and (mat.transposed or mat.diag)
                why = f"matrix^dagger applied to axes {tuple(labels)}, expected {self.want('B')} with the conjugated, transposed matrix"
                self.applied.add("B")
            self.oblige(f"np.{name} on {side}", ok, "" if ok else why)
        if isinstance(a, Mat) and isinstance(b, Flat):
            act(a, b.rows, "rows")
            return Flat(b.rows, b.cols)
        if isinstance(a, Flat) and isinstance(b, Mat):
            if a.cols is None:
                raise NotModelled("vector times matrix")
            act(b, a.cols, "cols")
            return Flat(a.rows, a.cols)
        if isinstance(a, Mat) and isinstance(b, Tensor):
            if b.ndim not in (1, 2):
                raise NotModelled("matrix times tensor")
            act(a, b.labels[:1], "rows")
            return Tensor(b.labels)
        if isinstance(a, Tensor) and isinstance(b, Mat):
            if a.ndim != 2:
                raise NotModelled("tensor times matrix")
            act(b, a.labels[1:], "cols")
            return Tensor(a.labels)
        raise NotModelled(f"np.{name} operands {type(a).__name__}, {type(b).__name__}")


def _circuit_obj(ctx, n, pure, state=None):
    cls = ctx.tree.cls(FC, "Circuit")
    return Obj(__class__=cls, _pure=pure, _num_modes=n, _trunc=TRUNC, _hbar=2, _checks=False,
               _state=state if state is not None else Tensor(canonical(n, pure)))


def _run_cases(ctx, rule, site, fname, make_case, cases, line):
    """enumerate oracle paths for each case; one obligation per case"""
    f = ctx.tree.func(FC, f"Circuit.{fname}")
    n_na = 0
    for case in cases:
        label = case["label"]
        paths = [[]]
        done = 0
        problems = []
        na = None
        while paths:
            oracle = paths.pop()
            m = FockMachine(ctx.tree, oracle, case["targets"])
            try:
                res = make_case(m, f, case)
                done += 1
                if m.needed > len(oracle):
                    # an undecided boolean was met: explore both outcomes
                    paths.append(oracle + [False] * (m.needed - len(oracle) - 1) + [True])
                    # the run just made used False for it: keep its verdict
                for what, ok, detail in m.obligations:
                    if not ok:
                        problems.append(f"{what}: {detail}")
                ver = case["final"](m, res)
                if ver:
                    problems.append(ver)
            except Violation as e:
                problems.append(str(e))
            except Raised as e:
                if not case.get("may_raise"):
                    problems.append(f"raises {e.what}")
            except NotModelled as e:
                na = str(e)
                break
            if done > 64:
                na = "too many paths"
                break
        if na is not None:
            n_na += 1
            ctx.na(rule, site, f"{label}: {na}")
            continue
        ok = not problems
        ctx.ob(rule, site, ok, "" if ok else f"{label}: {problems[0]}", role=case["role"], line=line,
               detail={"case": label, "paths": done})
    return n_na


def layout(ctx, rule="C01.layout"):
    ctx.explain(f"{rule}: abstract interpretation of Circuit.apply_twomode_gate, apply_gate_BLAS, _apply_channel and "
                "prepare_multimode on axis labels (K m / B m) for every register size n <= N, both representations, every "
                "ordered choice of distinct target modes and every gate kind the dispatch accepts: each numeric kernel "
                "receives the axes of the target modes (bra axes together with the conjugated matrix) and the tensor "
                "returned has the canonical layout again.  Index arithmetic is folded by the analyser; a construct it "
                "does not model makes the case 'not analysed' and the run fails closed.")
    N = 6 if ctx.tier == "thorough" else 4
    fs = {qn: ctx.tree.func(FC, f"Circuit.{qn}") for qn in ("apply_twomode_gate", "apply_gate_BLAS", "_apply_channel",
                                                               "prepare_multimode")}
    total_na = 0

    # ---- apply_twomode_gate
    def run_two(m, f, case):
        o = _circuit_obj(ctx, case["n"], case["pure"])
        return m.call(f, [Mat(2), list(case["targets"])], {"gate": case["gate"]}, o)

    def final_two(case):
        def chk(m, res):
            if not isinstance(res, Tensor):
                return "no tensor returned"
            if res.labels != canonical(case["n"], case["pure"]):
                return f"returned layout {res} is not the canonical one"
            need = {"K"} if case["pure"] else {"K", "B"}
            if m.applied != need:
                return f"kernel applied on {sorted(m.applied)} axes, expected {sorted(need)}"
            return ""
        return chk

    cases = []
    for n in range(2, N + 1):
        for pure in (True, False):
            for gate in ("BSgate", "MZgate", "S2gate"):
                for t in itertools.permutations(range(n), 2):
                    c = {"n": n, "pure": pure, "gate": gate, "targets": t,
                         "label": f"n={n} pure={pure} gate={gate} modes={list(t)}",
                         "role": f"twomode:{'pure' if pure else 'mixed'}:{gate}:{_posclass(t)}"}
                    c["final"] = final_two(c)
                    cases.append(c)
    total_na += _run_cases(ctx, rule, fs["apply_twomode_gate"].site, "apply_twomode_gate", run_two, cases,
                           fs["apply_twomode_gate"].node.lineno)

    # ---- apply_gate_BLAS
    def run_blas(m, f, case):
        o = _circuit_obj(ctx, case["n"], case["pure"])
        return m.call(f, [Mat(len(case["targets"])), list(case["targets"])], {}, o)

    cases = []
    for n in range(1, N + 1):
        for pure in (True, False):
            for size in (1, 2):
                if size > n:
                    continue
                for t in itertools.permutations(range(n), size):
                    c = {"n": n, "pure": pure, "targets": t, "label": f"n={n} pure={pure} modes={list(t)}",
                         "role": f"blas:{'pure' if pure else 'mixed'}:size{size}:{_posclass(t)}"}
                    c["final"] = final_two(c)
                    cases.append(c)
    total_na += _run_cases(ctx, rule, fs["apply_gate_BLAS"].site, "apply_gate_BLAS", run_blas, cases,
                           fs["apply_gate_BLAS"].node.lineno)

    # ---- _apply_channel (Kraus operators on one mode; pure states are mixed first)
    def run_chan(m, f, case):
        o = _circuit_obj(ctx, case["n"], case["pure"])
        m.call(f, [[Mat(1), Mat(1)], list(case["targets"])], {}, o)
        return o

    def final_chan(case):
        def chk(m, o):
            st = o.attrs["_state"]
            if o.attrs["_pure"]:
                return "state still flagged pure after a channel"
            if not isinstance(st, Tensor) or st.labels != canonical(case["n"], False):
                return f"state layout after the channel is {st}"
            if m.applied != {"K", "B"}:
                return "Kraus operators not applied from both sides"
            return ""
        return chk

    cases = []
    for n in range(1, N + 1):
        for pure in (True, False):
            for t in itertools.permutations(range(n), 1):
                c = {"n": n, "pure": pure, "targets": t, "label": f"n={n} pure={pure} mode={t[0]}",
                     "role": f"channel:{'pure' if pure else 'mixed'}:{_posclass(t)}"}
                c["final"] = final_chan(c)
                cases.append(c)
    total_na += _run_cases(ctx, rule, fs["_apply_channel"].site, "_apply_channel", run_chan, cases,
                           fs["_apply_channel"].node.lineno)

    # ---- prepare_multimode
    def run_prep(m, f, case):
        o = _circuit_obj(ctx, case["n"], case["pure"])
        k = len(case["targets"])
        lab = [("PK", j) for j in range(k)] if case["prep_pure"] else [x for j in range(k) for x in (("PK", j), ("PB", j))]
        m.call(f, [Tensor(lab), list(case["targets"])], {}, o)
        return o

    def final_prep(case):
        def chk(m, o):
            st = o.attrs["_state"]
            n, t = case["n"], list(case["targets"])
            pure_after = o.attrs["_pure"]
            want = []
            for mm in range(n):
                if mm in t:
                    j = t.index(mm)
                    want += [("PK", j)] if pure_after else [("PK", j), ("PB", j)]
                else:
                    want += [("K", mm)] if pure_after else [("K", mm), ("B", mm)]
            if not isinstance(st, Tensor) or list(st.labels) != want:
                return f"state layout after the preparation is {st}, expected {Tensor(want)}"
            return ""
        return chk

    cases = []
    for n in range(1, N + 1):
        for pure in (True, False):
            for k in (1, 2):
                if k > n:
                    continue
                for t in itertools.permutations(range(n), k):
                    for prep_pure in (True, False):
                        c = {"n": n, "pure": pure, "targets": t, "prep_pure": prep_pure,
                             "label": f"n={n} pure={pure} prepared={'ket' if prep_pure else 'dm'} modes={list(t)}",
                             "role": f"prepare:{'pure' if pure else 'mixed'}:{'ket' if prep_pure else 'dm'}:k{k}:{_posclass(t)}"}
                        c["final"] = final_prep(c)
                        cases.append(c)
    total_na += _run_cases(ctx, rule, fs["prepare_multimode"].site, "prepare_multimode", run_prep, cases,
                           fs["prepare_multimode"].node.lineno)
    # ---- dealloc (Del): the remaining modes keep their reduced state, in the canonical mixed layout
    f_de = ctx.tree.func(FC, "Circuit.dealloc")

    def run_de(m, f, case):
        o = _circuit_obj(ctx, case["n"], case["pure"])
        m.call(f, [list(case["targets"])], {}, o)
        return o

    def final_de(case):
        def chk(m, o):
            st = o.attrs["_state"]
            kept = [mm for mm in range(case["n"]) if mm not in case["targets"]]
            pure_after = o.attrs["_pure"]
            want = [x for mm in kept for x in ((("K", mm),) if pure_after else (("K", mm), ("B", mm)))]
            if pure_after:
                return "a register with a mode traced out is flagged pure"
            if not isinstance(st, Tensor) or list(st.labels) != want:
                return f"state layout after deleting {list(case['targets'])} is {st}, expected {Tensor(want)}"
            if o.attrs.get("_num_modes") != len(kept):
                return f"_num_modes is {o.attrs.get('_num_modes')} for {len(kept)} remaining modes"
            return ""
        return chk

    cases = []
    for n in range(2, min(N, 5) + 1):
        for pure in (True, False):
            for k in (1, 2):
                if k >= n:
                    continue
                for t in itertools.permutations(range(n), k):
                    c = {"n": n, "pure": pure, "targets": t, "label": f"n={n} pure={pure} deleted={list(t)}",
                         "role": f"dealloc:{'pure' if pure else 'mixed'}:k{k}:{_posclass(t)}"}
                    c["final"] = final_de(c)
                    cases.append(c)
    total_na += _run_cases(ctx, rule, f_de.site, "dealloc", run_de, cases, f_de.node.lineno)
    if total_na:
        raise AnalysisError(f"{rule}: {total_na} case(s) could not be interpreted (construct not modelled): "
                            f"{ctx.not_analysed[-1]['why']}")
    ctx.floor(rule, 300)


def _posclass(t):
    """position class of an ordered target tuple: which targets are mode 0 / mode 1 / other, ascending or not"""
    def c(x):
        return "0" if x == 0 else "1" if x == 1 else "x"
    asc = "asc" if list(t) == sorted(t) else "desc"
    return "".join(c(x) for x in t) + ":" + asc


def api(ctx, rule="C01.api"):
    ctx.explain(f"{rule}: every backend.<m>(...) call in ops.py::*._apply resolves, for each simulator backend whose "
                "compiler lists the operation as a primitive, to a method that is not a raising stub, with the positional "
                "parameter names of the declaration in backends/base.py in the same order; parameters passed under "
                "their own name land on the parameter of that name (backend wrappers, circuits, ops._apply).")
    ops = op_classes(ctx.tree)
    ct = CompilerTable(ctx.tree)
    base = ctx.tree.module("backends/base.py")
    decls = {}
    for c in base.classes.values():
        for name, m in c.methods.items():
            decls.setdefault(name, m)
    backends = {"Fock": ctx.tree.cls("backends/fockbackend/backend.py", "FockBackend"),
                "Gaussian": ctx.tree.cls("backends/gaussianbackend/backend.py", "GaussianBackend"),
                "Bosonic": ctx.tree.cls("backends/bosonicbackend/backend.py", "BosonicBackend")}
    n = 0
    for name, c in sorted(ops.items()):
        f = c.methods.get("_apply")
        if f is None:
            continue
        for call in [x for x in walk_no_nested(f.node) if isinstance(x, ast.Call) and (dotted(x.func) or "").startswith("backend.")]:
            meth = dotted(call.func).split(".", 1)[1]
            for comp, bcls in backends.items():
                if name not in ct.primitives.get(comp, ()):
                    continue
                impl = bcls.lookup(meth)
                if impl is None:
                    ctx.note(f"{rule}: {comp} backend has no method {meth} although {name} is a primitive of its compiler "
                             "(fails loudly with AttributeError)")
                    continue
                n += 1
                body = [s for s in impl.node.body if not (isinstance(s, ast.Expr) and isinstance(s.value, ast.Constant))]
                stub = len(body) == 1 and isinstance(body[0], ast.Raise)
                decl = decls.get(meth)
                same = decl is None or impl.pos_params[: len(decl.pos_params)] == decl.pos_params or \
                    [p for p in impl.pos_params if p in decl.pos_params] == [p for p in decl.pos_params if p in impl.pos_params]
                ok = not stub and same
                if stub and impl.module.rel == "backends/base.py":
                    ctx.note(f"{rule}: {comp}.{meth} is the NotApplicable/NotImplemented stub of the base class (loud)")
                    continue
                ctx.ob(rule, impl.site, ok, "" if ok else (f"{comp}.{meth} is a raising stub although {name} is a primitive"
                       if stub else f"{comp}.{meth}{tuple(impl.pos_params[1:])} does not keep the parameter order of the "
                       f"declaration {tuple(decl.pos_params[1:])}"), role=f"impl:{name}:{meth}", line=impl.node.lineno)
    ctx.require(n >= 40, f"only {n} (operation, backend) implementations resolved")
    B.backend_arg_order(ctx, rule)
    # ops._apply -> backend: same-name rule against the declarations of base.py
    callers = [c.methods["_apply"] for c in ops.values() if "_apply" in c.methods]
    B.arg_order(ctx, rule, callers, lambda c: (dotted(c.func) or "").startswith("backend."),
                lambda f, c: decls.get(dotted(c.func).split(".", 1)[1]))
    ctx.floor(rule, 120)


def rules(ctx):
    from . import c02
    c02.dagger_products(ctx, "C01.decomp-products")
    layout(ctx)
    api(ctx)
    G.dead_stores(ctx, "C01.gauss-deadstore")
    G.coverage(ctx, "C01.gauss-coverage")
    G.mirror(ctx, "C01.gauss-mirror")
    ctx.floor("C01.gauss-deadstore", 40)
    ctx.floor("C01.gauss-coverage", 14)
    ctx.floor("C01.gauss-mirror", 14)
    from . import common_backend as _B
    _B.polar_pair(ctx, "C01.polar", ("backends/fockbackend/circuit.py", "compilers/gaussian_unitary.py", "ops.py"))
    ctx.floor("C01.polar", 1)
    # a preparation is 'the same physics' on every simulator only if it forgets the previous state of its target everywhere,
    # and a photon-number measurement only if every simulator pairs each mode with its own outcome (shared with C05 / C06)
    _B.prep_reset(ctx, "C01.prep-reset")
    from . import c06 as _c06
    _c06.fock_outcome(ctx, "C01.fock-outcome")
    # 'the same physics on every simulator' fails with ANY defect of one simulator: the structural clauses of C05 (targets only),
    # C06 (measurement update, units), C07 (physical states) and C08 (register shape) that live in the backend files are part of C01
    from . import c06 as _c6, c07 as _c7, c08 as _c8, common_gauss as _G
    ctx.shared(_G.footprint, "C01.gauss-footprint")
    ctx.shared(_B.bosonic_footprint, "C01.bosonic-footprint")
    ctx.shared(_B.mode_routing, "C01.mode-routing")
    ctx.shared(_c6.gain, "C01.cond-update")
    ctx.shared(_c6.amplitude_units)
    ctx.shared(_c6.units)
    ctx.shared(_c7.weights_normalised)
    ctx.shared(_c7.kraus_complete)
    ctx.shared(_c7.hermitian_outer)
    ctx.shared(_c8.register_shape, "C01.register-shape")
    ctx.shared(_c8.remap_guard)
    ctx.shared(_c8.remap_snapshot)
