"""C16 - observables consistent (structural clauses: the modes argument selects the data; units; aliasing; labels)."""
from __future__ import annotations

import ast

from ..cfg import cfg_of
from ..dataflow import derives, rd_of
from ..loader import dotted, walk_no_nested, strip_docstring
from . import c08
from . import common_alias as A
from . import common_hbar as Hb

ST = "backends/states.py"
NONSEL = {"len", "set", "isinstance", "print", "format", "str", "repr", "ValueError", "TypeError", "NotImplementedError",
          "sorted_check", "type", "bool"}


def _selecting(f, pname) -> (bool, str):
    """does parameter `pname` (or a value computed from it) reach a subscript index or a data-selecting call?"""
    tainted = {pname}
    changed = True
    body_nodes = list(walk_no_nested(f.node))
    def mentions(e, names, skip_nonsel=True):
        for x in ast.walk(e):
            if isinstance(x, ast.Name) and x.id in names and isinstance(x.ctx, ast.Load):
                # inside a non-selecting call?
                p = getattr(x, "parent", None)
                inside = False
                while p is not None and p is not e:
                    if isinstance(p, ast.Call) and (dotted(p.func) or "").split(".")[-1] in NONSEL:
                        inside = True
                    p = getattr(p, "parent", None)
                if isinstance(getattr(x, "parent", None), ast.Call) and \
                        (dotted(x.parent.func) or "").split(".")[-1] in NONSEL:
                    inside = True
                if not (inside and skip_nonsel):
                    return True
        return False
    while changed:
        changed = False
        for n in body_nodes:
            if isinstance(n, ast.Assign) and mentions(n.value, tainted):
                for t in n.targets:
                    for x in ast.walk(t):
                        if isinstance(x, ast.Name) and x.id not in tainted:
                            tainted.add(x.id)
                            changed = True
            if isinstance(n, (ast.For, ast.comprehension)) and mentions(n.iter, tainted):
                for x in ast.walk(n.target):
                    if isinstance(x, ast.Name) and x.id not in tainted:
                        tainted.add(x.id)
                        changed = True
    for n in body_nodes:
        # control selection: `if m in modes: <build the index expression>`
        if isinstance(n, ast.If) and any(isinstance(c, ast.Compare) and isinstance(c.ops[0], (ast.In, ast.NotIn)) and
                                         mentions(c.comparators[0], tainted) for c in ast.walk(n.test)) and \
                any(isinstance(x, (ast.Assign, ast.AugAssign, ast.Call)) for b in n.body for x in ast.walk(b)) and \
                not all(isinstance(b, ast.Raise) for b in n.body):
            return True, "membership test controls the construction of the index expression"
        if isinstance(n, ast.Subscript) and mentions(n.slice, tainted):
            return True, f"subscript `{ast.unparse(n)[:40]}`"
        if isinstance(n, ast.Call):
            cn = dotted(n.func) or ""
            last = cn.split(".")[-1]
            if last in NONSEL or last in ("range", "enumerate", "zip", "list", "tuple", "array", "asarray", "concatenate",
                                          "append", "sort", "sorted", "argsort", "arange"):
                continue
            args = list(n.args) + [k.value for k in n.keywords]
            if any(mentions(a, tainted) for a in args):
                return True, f"call `{cn}`"
    return False, ""


def param_flow(ctx, rule="C16.param-flow"):
    ctx.explain(f"{rule}: in every state-class method with a mode / modes parameter the parameter (or a value computed "
                "from it) selects the data - it reaches a subscript index or an argument of a data-selecting call - "
                "and is not merely counted or validated.")
    m = ctx.tree.module(ST)
    n = 0
    for qn, f in sorted(m.functions.items()):
        if f.cls is None:
            continue
        body = strip_docstring(f.node.body)
        if len(body) <= 2 and any(isinstance(s, ast.Raise) for s in body):
            continue  # abstract / not implemented
        for p in f.params:
            if p not in ("mode", "modes"):
                continue
            n += 1
            ok, how = _selecting(f, p)
            ctx.ob(rule, f.site, ok, "" if ok else f"`{p}` is only counted / validated: the method answers for the whole "
                   "state whatever modes are requested", role=f"selects:{p}", line=f.node.lineno, detail=how)
    ctx.floor(rule, 25)


def sibling_counts(ctx, rule="C16.sibling"):
    ctx.explain(f"{rule}: the Gaussian and the bosonic parity_expectation normalise with (hbar/2) ** (number of REQUESTED "
                "modes): the exponent is len(<modes parameter>) in both siblings (the data was reduced to those modes).")
    for cn in ("BaseGaussianState", "BaseBosonicState"):
        f = ctx.tree.func(ST, f"{cn}.parity_expectation")
        mp = f.pos_params[1]
        pows = [n for n in walk_no_nested(f.node) if isinstance(n, ast.BinOp) and isinstance(n.op, ast.Pow) and
                "hbar" in ast.unparse(n.left)]
        ctx.require(pows, f"{cn}.parity_expectation has no (hbar/2) ** n factor")
        for pw in pows:
            e = ast.unparse(pw.right).replace(" ", "")
            ok = e == f"len({mp})"
            ctx.ob(rule, f.site, ok, "" if ok else f"exponent `{e}` is not the number of requested modes len({mp}): wrong for "
                   "every hbar != 2 as soon as a strict subset of the modes is asked for", role="exponent", line=pw.lineno)
    ctx.floor(rule, 2)


def per_mode_order(ctx, rule="C16.labels"):
    """observables that return one entry per requested mode answer in the order of the request"""
    from .common_guard import raise_facts
    ctx.explain(f"{rule}: (per-mode results) `displacement(modes)` of every state class returns one entry per requested mode IN THE ORDER "
                "OF THE REQUEST: the index array it selects with is not a sorted function of `modes` - unless a raising guard "
                "`modes != sorted(modes)` dominates it (then the request is ascending anyway).")
    for cn in ("BaseGaussianState", "BaseBosonicState", "BaseFockState"):
        cls = ctx.tree.cls(ST, cn)
        f = cls.methods.get("displacement")
        if f is None or "modes" not in f.params:
            continue
        cfg = cfg_of(f.node)
        guarded = [n for n, exc, fs in raise_facts(f) if any("sorted(" in ast.unparse(a) for a, v in fs)]
        bad = None
        for c in walk_no_nested(f.node):
            if isinstance(c, ast.Call) and (dotted(c.func) or "").split(".")[-1] in ("sort", "sorted", "argsort", "unique") and c.args:
                ids = cfg.node_of_expr(c)
                d = derives(f.node, c.args[0], ids[0] if ids else None)
                if "modes" in d.params or any(dd.var == "modes" for dd in d.defs):
                    if not (ids and any(cfg.dominates(g.id, ids[0]) for g in guarded)):
                        bad = c
        ctx.ob(rule, f.site, bad is None, "" if bad is None else f"`{ast.unparse(bad)[:60]}`: {cn}.displacement([1, 0]) answers in ascending "
               "mode order, not in the order of the request", role="per-mode-order", line=(bad.lineno if bad is not None else f.node.lineno))


def reduced_purity(ctx, rule="C16.param-flow"):
    from .common_guard import path_facts
    ctx.explain(f"{rule}: (purity of a reduced state) where a Gaussian state class turns the reduced (mu, cov) of SOME modes into a state "
                "vector (thewalrus state_vector - valid for pure states only) the branch is conditional on the reduced state being pure: "
                "a path fact that looks at `modes` (all modes kept) or at the reduced covariance - the purity of the whole state says "
                "nothing about one arm of an entangled pair.")
    cls = ctx.tree.cls(ST, "BaseGaussianState")
    n = 0
    for name, f in sorted(cls.methods.items()):
        if "modes" not in f.params:
            continue
        cfg = cfg_of(f.node)
        for c in walk_no_nested(f.node):
            if isinstance(c, ast.Call) and (dotted(c.func) or "").split(".")[-1] in ("state_vector", "pure_state_amplitude") and c.args:
                ids = cfg.node_of_expr(c)
                d = derives(f.node, c.args[1] if len(c.args) > 1 else c.args[0], ids[0] if ids else None)
                if not d.has_call("self.reduced_gaussian"):
                    continue
                n += 1
                ok = False
                # facts that distinguish this branch from the general one (the density_matrix call), not the input guards shared by both
                alt = [x for x in walk_no_nested(f.node) if isinstance(x, ast.Call) and (dotted(x.func) or "").split(".")[-1] == "density_matrix"]
                common = set()
                for x in alt:
                    xi = cfg.node_of_expr(x)
                    if xi:
                        common |= {(ast.unparse(a_), v_) for a_, v_ in path_facts(cfg, xi[0])}
                for a, v in (path_facts(cfg, ids[0]) if ids else []):
                    if (ast.unparse(a), v) in common:
                        continue
                    da = derives(f.node, a, ids[0])
                    if "modes" in da.params or any(dd.var == "modes" for dd in da.defs) or da.has_call("self.reduced_gaussian"):
                        ok = True
                ctx.ob(rule, f.site, ok, "" if ok else f"`{ast.unparse(c)[:40]}` is reached on the purity of the WHOLE state: the reduced state "
                       "of one arm of a two-mode squeezed vacuum is returned as |0><0|", role="reduced-purity", line=c.lineno)
    return n


def quadrature_convention(ctx, rule="C16.param-flow"):
    ctx.explain(f"{rule}: (quadrature ordering) BaseBosonicState stores its means / covariances interleaved (x1, p1, x2, p2, ...: quadratures "
                "of mode m at 2m, 2m + 1); no method of the class offsets a mode index by the number of modes (m + N is the xxpp layout of "
                "the Gaussian class).")
    cls = ctx.tree.cls(ST, "BaseBosonicState")
    n = 0
    for name, f in sorted(cls.methods.items()):
        mp = [p for p in f.params if p in ("modes", "mode")]
        if not mp:
            continue
        n += 1
        bad = None
        for x in walk_no_nested(f.node):
            if isinstance(x, ast.BinOp) and isinstance(x.op, ast.Add):
                for a, b in ((x.left, x.right), (x.right, x.left)):
                    if dotted(b) in ("self._modes", "self.num_modes") or isinstance(b, ast.Call) and dotted(b.func) == "len" and b.args and \
                            dotted(b.args[0]) in ("self._modes",):
                        da = derives(f.node, a)
                        if set(mp) & da.params or any(dd.var in mp for dd in da.defs):
                            bad = x
        ctx.ob(rule, f.site, bad is None, "" if bad is None else f"`{ast.unparse(bad)[:50]}` addresses the p quadrature of a mode at m + N: "
               "in the interleaved layout of this class that is the quadrature of another mode", role="interleaved-quadratures",
               line=(bad.lineno if bad is not None else f.node.lineno))
    return n


def walrus_ordering(ctx, rule="C16.param-flow"):
    ctx.explain(f"{rule}: (library ordering) thewalrus takes means / covariances in xxpp ordering; BaseBosonicState stores them interleaved "
                "(xpxp): every thewalrus.quantum call of the class that receives the state's (or a reduced state's) means / covariances "
                "receives them through xpxp_to_xxpp. (For one mode the two orderings coincide - which is all the tests use.)")
    cls = ctx.tree.cls(ST, "BaseBosonicState")
    n = 0
    for name, f in sorted(cls.methods.items()):
        cfg = cfg_of(f.node)
        for c in walk_no_nested(f.node):
            if isinstance(c, ast.Call) and (dotted(c.func) or "").startswith("twq.") and c.args:
                ids = cfg.node_of_expr(c)
                for k, a in enumerate(c.args[:2]):
                    d = derives(f.node, a, ids[0] if ids else None)
                    src = {"self._mus", "self._covs"} & d.attrs or d.has_call("self.reduced_bosonic")
                    if not src:
                        continue
                    n += 1
                    ok = d.has_call("xpxp_to_xxpp")
                    ctx.ob(rule, f.site, ok, "" if ok else f"`{ast.unparse(a)[:30]}` reaches {dotted(c.func)} in the interleaved (xpxp) ordering of "
                           "the class: for two or more modes the library reads the quadratures of the wrong modes", role=f"walrus-ordering:arg{k}",
                           line=c.lineno)
    return n


def marginal_grid(ctx, rule="C16.param-flow"):
    ctx.explain(f"{rule}: (marginal grids) BaseState.x_quad_values integrates the Wigner function OVER p and p_quad_values OVER x: the sample "
                "points handed to the quadrature routine (simpson / trapezoid: `x=` or the second argument) derive from the grid of the "
                "variable that is integrated out - the third parameter (pvec) in x_quad_values, the second (xvec) in p_quad_values. With the "
                "other grid the integral has the wrong measure whenever the two grids differ.")
    cls = ctx.tree.cls(ST, "BaseState")
    n = 0
    for name, own, other in (("x_quad_values", 3, 2), ("p_quad_values", 2, 3)):
        f = cls.methods.get(name)
        ctx.require(f is not None and len(f.params) >= 4, f"anchor vanished: BaseState.{name}(self, mode, xvec, pvec)")
        want, wrong = f.params[own], f.params[other]
        cfg = cfg_of(f.node)
        for c in walk_no_nested(f.node):
            if not isinstance(c, ast.Call) or (dotted(c.func) or "").split(".")[-1] not in ("simpson", "simps", "trapz", "trapezoid"):
                continue
            pts = [k.value for k in c.keywords if k.arg == "x"] or (c.args[1:2])
            if not pts:
                continue
            ids = cfg.node_of_expr(c)
            d = derives(f.node, pts[0], ids[0] if ids else None)
            n += 1
            ok = want in d.params and wrong not in d.params
            ctx.ob(rule, f.site, ok, "" if ok else f"`{ast.unparse(c)[:60]}`: the sample points derive from `{wrong if wrong in d.params else '?'}`, "
                   f"but {name} integrates over `{want}`", role="marginal-grid", line=c.lineno)
    ctx.require(n >= 2, f"only {n} quadrature calls found in BaseState.x_quad_values / p_quad_values")


def outer_rank(ctx, rule="C16.layout"):
    from .common_guard import path_facts, rel
    ctx.explain(f"{rule}: (rank of an outer product) a density matrix over k modes has one (row, column) pair of axes per mode - the layout of "
                "thewalrus' density_matrix, of the Fock classes and of the bosonic class. `np.outer` FLATTENS its arguments: where a state "
                "class returns np.outer(psi, conj psi) of a state vector that may span several modes (thewalrus state_vector), the result is "
                "reshaped to the per-mode axes and the axes are interleaved (reshape + transpose / einsum) before it is returned, unless the "
                "path is restricted to a single mode. Otherwise the same method returns a (c^k, c^k) matrix for pure states and a "
                "(c, c, ..., c) tensor for mixed ones.")
    n = 0
    for cn in ("BaseGaussianState", "BaseBosonicState", "BaseFockState"):
        cls = ctx.tree.cls(ST, cn)
        for name, f in sorted(cls.methods.items()):
            cfg = None
            for r in walk_no_nested(f.node):
                if not isinstance(r, ast.Return) or r.value is None:
                    continue
                d = derives(f.node, r.value)
                outer = [c for c in d.call_nodes if (dotted(c.func) or "").split(".")[-1] == "outer"]
                if not outer or not d.has_call("twq.state_vector", "state_vector"):
                    continue
                n += 1
                cfg = cfg or cfg_of(f.node)
                names = {(dotted(c.func) or "").split(".")[-1] for c in d.call_nodes}
                shaped = ("einsum" in names) or ("reshape" in names and names & {"transpose", "moveaxis", "swapaxes"})
                single = False
                ids = cfg.find(r)
                for a, v in (path_facts(cfg, ids[0]) if ids else []):
                    r_ = rel(a, v)
                    if r_ is not None and r_[0] == "==" and any(isinstance(x, ast.Constant) and x.value == 1 for x in (r_[1], r_[2])) and \
                            any("len(" in ast.unparse(x) for x in (r_[1], r_[2])):
                        single = True
                ok = bool(shaped) or single
                ctx.ob(rule, f.site, ok, "" if ok else f"`{ast.unparse(outer[0])[:50]}` is returned as it is: a (c^k, c^k) matrix for k modes, while the "
                       "other return of the method has one pair of axes per mode", role="outer-rank", line=r.lineno)
    if n == 0:
        # not an anchor: a rewrite without np.outer has nothing to check here (the positive example is the self-test variant)
        ctx.note(f"{rule}: no state method returns an outer product of a thewalrus state vector")


def rules(ctx):
    walrus_ordering(ctx)
    quadrature_convention(ctx)
    per_mode_order(ctx)
    reduced_purity(ctx)
    layout(ctx)
    sibling_counts(ctx)
    param_flow(ctx)
    marginal_grid(ctx)
    outer_rank(ctx)
    A.alias_mutation(ctx, "C16.alias", ST, ("BaseGaussianState", "BaseBosonicState", "BaseFockState"))
    ctx.floor("C16.alias", 6)
    Hb.state_objects(ctx, "C16.dim")
    ctx.floor("C16.dim", 35)
    c08.state_index(ctx)
    # re-label the shared rule
    for o in ctx.obls:
        if o.rule == "C08.state-index":
            o.rule = "C16.labels"
            o.key = o.key.replace("C08.state-index", "C16.labels")
    ctx.floors.pop("C08.state-index", None)
    ctx.floor("C16.labels", 5)


# ------------------------------------------------------------------------------------------------
def layout(ctx, rule="C16.layout"):
    """Fock representation: the einsum subscripts these functions BUILD are folded for every register size n <= 4 and
    every mode subset / order, and interpreted on axis labels."""
    import itertools
    from ..layout import Machine, NotModelled, Obj, Raised, Tensor, Violation, canonical, TRUNC
    from ..loader import AnalysisError
    ctx.explain(f"{rule}: abstract interpretation (axis labels K m / B m, index strings folded by the analyser) of "
                "BaseFockState.dm / reduced_dm / trace / all_fock_probs and FockBackend.state for every n <= 4, pure and "
                "mixed data, every subset and order of requested modes: traces pair the ket and bra axis of one mode, the "
                "axes kept are exactly those of the requested modes in the requested order (or the call raises), and the "
                "label attached to position j names the mode whose axes sit at position j; the modes requested from FockBackend.state are "
                "lifetime mode indices (a deleted mode shifts the positions of the later ones).")
    fs = ctx.tree.cls(ST, "BaseFockState")
    fb = ctx.tree.cls("backends/fockbackend/backend.py", "FockBackend")
    circ = ctx.tree.cls("backends/fockbackend/circuit.py", "Circuit")
    na = 0

    def state_obj(n, pure):
        return Obj(__class__=fs, _modes=n, _pure=pure, _cutoff=TRUNC, _data=Tensor(canonical(n, pure)), _hbar=2)

    def interleaved(modes):
        return tuple(x for mm in modes for x in (("K", mm), ("B", mm)))

    def run(label, role, site, line, fn, check, may_raise=False):
        nonlocal na
        m = Machine(ctx.tree, [])
        m.contract = lambda *a: (_ for _ in ()).throw(NotModelled("numeric contraction"))
        problems = []
        try:
            res = fn(m)
            problems += [f"{w}: {d}" for w, ok, d in m.obligations if not ok]
            v = check(res)
            if v:
                problems.append(v)
        except Violation as e:
            problems.append(str(e))
        except Raised as e:
            if not may_raise:
                problems.append(f"raises {e.what}")
        except NotModelled as e:
            na += 1
            ctx.na(rule, site, f"{label}: {e}")
            return
        ok = not problems
        ctx.ob(rule, site, ok, "" if ok else f"{label}: {problems[0]}", role=role, line=line, detail=label)

    N = 5 if ctx.tier == "thorough" else 4
    # ---- dm() and trace() and all_fock_probs()
    f_dm = fs.lookup("dm")
    for n in range(1, N + 1):
        run(f"dm n={n} pure", "dm:pure", f_dm.site, f_dm.node.lineno,
            lambda m, n=n: m.call(f_dm, [], {}, state_obj(n, True)),
            lambda r, n=n: "" if isinstance(r, Tensor) and r.labels == canonical(n, False) else f"dm() layout {r}")
        f_tr = fs.lookup("trace")
        run(f"trace n={n} mixed", "trace:mixed", f_tr.site, f_tr.node.lineno,
            lambda m, n=n: _drop_real(m.call(f_tr, [], {}, state_obj(n, False))),
            lambda r: "" if isinstance(r, Tensor) and r.labels == () else f"trace leaves axes {r}")
    # ---- reduced_dm
    f_red = fs.lookup("reduced_dm")
    for n in range(1, N + 1):
        for pure in (True, False):
            for k in range(1, n + 1):
                for modes in itertools.permutations(range(n), k):
                    asc = list(modes) == sorted(modes)
                    run(f"reduced_dm n={n} pure={pure} modes={list(modes)}",
                        f"reduced_dm:{'pure' if pure else 'mixed'}:{'asc' if asc else 'desc'}:k{k}",
                        f_red.site, f_red.node.lineno,
                        lambda m, n=n, pure=pure, modes=modes: m.call(f_red, [list(modes)], {}, state_obj(n, pure)),
                        lambda r, modes=modes: "" if isinstance(r, Tensor) and r.labels == interleaved(modes)
                        else f"returns axes {r} for the request {list(modes)} (a different mode order than asked for)",
                        may_raise=not asc)
    # ---- FockBackend.state
    f_st = fb.lookup("state")
    for n in range(1, N + 1):
        for pure in (True, False):
            for deleted in ([], [0]) if n < N else ([],):
                # the circuit holds n modes; external indices skip the deleted ones
                ext = [i for i in range(n + len(deleted)) if i not in deleted]
                mp = []
                c = 0
                for i in range(n + len(deleted)):
                    if i in deleted:
                        mp.append(None)
                    else:
                        mp.append(c)
                        c += 1
                # requests are LIFETIME mode indices (as for every other backend method and backend): ext lists the live ones
                subsets = [None] + [list(p) for k in range(1, min(n, 3) + 1) for p in itertools.permutations(ext, k)]
                for modes in subsets:
                    def fn(m, n=n, pure=pure, modes=modes, mp=mp):
                        cobj = Obj(__class__=circ, _state=Tensor(canonical(n, pure)), _pure=pure, _trunc=TRUNC, _num_modes=n)
                        b = Obj(__class__=fb, circuit=cobj, _modemap=Obj(__class__=ctx.tree.cls("backends/base.py", "ModeMap"),
                                                                        _map=list(mp), _init=len(mp)))
                        return m.call(f_st, [], {"modes": modes}, b)

                    def check(r, n=n, pure=pure, modes=modes, ext=ext):
                        if not isinstance(r, Obj) or "__args__" not in r.attrs:
                            return "no state object constructed"
                        a = r.attrs["__args__"]
                        data, nm, p_flag, names = a[0], a[1], a[2], a[4] if len(a) > 4 else r.attrs["__kwargs__"].get("mode_names")
                        want_ext = list(ext) if modes is None else list(modes)
                        want_modes = [ext.index(mm) for mm in want_ext]  # positions of the requested modes in the tensor
                        if nm != len(want_modes):
                            return f"num_modes {nm} for {len(want_modes)} requested modes"
                        exp = tuple(("K", mm) for mm in want_modes) if p_flag else interleaved(want_modes)
                        if not isinstance(data, Tensor) or data.labels != exp:
                            return (f"data axes {data} with pure={p_flag}, expected {Tensor(exp)} (the axes of modes {want_ext}, which sit at "
                                    f"positions {want_modes})")
                        wn = ["q[{}]".format(mm) for mm in want_ext]
                        if list(names) != wn:
                            return f"labels {list(names)} but the data holds modes {wn}"
                        return ""
                    lab = f"state n={n} pure={pure} deleted={deleted} modes={modes}"
                    cyc = modes is not None and len(modes) >= 3 and list(modes) != sorted(modes)
                    run(lab, f"state:{'pure' if pure else 'mixed'}:{'all' if modes is None else 'k%d' % len(modes)}:"
                             f"{'asc' if modes is None or list(modes) == sorted(modes) else 'desc'}{':del' if deleted else ''}",
                        f_st.site, f_st.node.lineno, fn, check)
    if na:
        raise AnalysisError(f"{rule}: {na} case(s) not interpretable: {ctx.not_analysed[-1]['why']}")
    ctx.floor(rule, 300)


def _drop_real(v):
    return v
    from . import c15 as _c15
    ctx.shared(_c15.hbar_source)
