"""C16 - observables consistent (structural clauses: the modes argument selects the data; units; aliasing; labels)."""
from __future__ import annotations

import ast

from ..dataflow import derives, rd_of
from ..loader import dotted, walk_no_nested, strip_docstring
from . import c08
from . import common_alias as A
from . import common_hbar as Hb

ST = "backends/states.py"
NONSEL = {"len", "set", "isinstance", "print", "format", "str", "repr", "ValueError", "TypeError", "NotImplementedError",
          "sorted_check", "type", "bool"}


def _selecting(f, pname) -> (bool, str):
    """does parameter `pname` (or a value computed from it) reach a subscript index or a data-selecting call?"""
    tainted = {pname}
    changed = True
    body_nodes = list(walk_no_nested(f.node))
    def mentions(e, names, skip_nonsel=True):
        for x in ast.walk(e):
            if isinstance(x, ast.Name) and x.id in names and isinstance(x.ctx, ast.Load):
                # inside a non-selecting call?
                p = getattr(x, "parent", None)
                inside = False
                while p is not None and p is not e:
                    if isinstance(p, ast.Call) and (dotted(p.func) or "").split(".")[-1] in NONSEL:
                        inside = True
                    p = getattr(p, "parent", None)
                if isinstance(getattr(x, "parent", None), ast.Call) and \
                        (dotted(x.parent.func) or "").split(".")[-1] in NONSEL:
                    inside = True
                if not (inside and skip_nonsel):
                    return True
        return False
    while changed:
        changed = False
        for n in body_nodes:
            if isinstance(n, ast.Assign) and mentions(n.value, tainted):
                for t in n.targets:
                    for x in ast.walk(t):
                        if isinstance(x, ast.Name) and x.id not in tainted:
                            tainted.add(x.id)
                            changed = True
            if isinstance(n, (ast.For, ast.comprehension)) and mentions(n.iter, tainted):
                for x in ast.walk(n.target):
                    if isinstance(x, ast.Name) and x.id not in tainted:
                        tainted.add(x.id)
                        changed = True
    for n in body_nodes:
        # control selection: `if m in modes: <build the index expression>`
        if isinstance(n, ast.If) and any(isinstance(c, ast.Compare) and isinstance(c.ops[0], (ast.In, ast.NotIn)) and
                                         mentions(c.comparators[0], tainted) for c in ast.walk(n.test)) and \
                any(isinstance(x, (ast.Assign, ast.AugAssign, ast.Call)) for b in n.body for x in ast.walk(b)) and \
                not all(isinstance(b, ast.Raise) for b in n.body):
            return True, "membership test controls the construction of the index expression"
        if isinstance(n, ast.Subscript) and mentions(n.slice, tainted):
            return True, f"subscript `{ast.unparse(n)[:40]}`"
        if isinstance(n, ast.Call):
            cn = dotted(n.func) or ""
            last = cn.split(".")[-1]
            if last in NONSEL or last in ("range", "enumerate", "zip", "list", "tuple", "array", "asarray", "concatenate",
                                          "append", "sort", "sorted", "argsort", "arange"):
                continue
            args = list(n.args) + [k.value for k in n.keywords]
            if any(mentions(a, tainted) for a in args):
                return True, f"call `{cn}`"
    return False, ""


def param_flow(ctx, rule="C16.param-flow"):
    ctx.explain(f"{rule}: in every state-class method with a mode / modes parameter the parameter (or a value computed "
                "from it) selects the data - it reaches a subscript index or an argument of a data-selecting call - "
                "and is not merely counted or validated.")
    m = ctx.tree.module(ST)
    n = 0
    for qn, f in sorted(m.functions.items()):
        if f.cls is None:
            continue
        body = strip_docstring(f.node.body)
        if len(body) <= 2 and any(isinstance(s, ast.Raise) for s in body):
            continue  # abstract / not implemented
        for p in f.params:
            if p not in ("mode", "modes"):
                continue
            n += 1
            ok, how = _selecting(f, p)
            ctx.ob(rule, f.site, ok, "" if ok else f"`{p}` is only counted / validated: the method answers for the whole "
                   "state whatever modes are requested", role=f"selects:{p}", line=f.node.lineno, detail=how)
    ctx.floor(rule, 25)


def sibling_counts(ctx, rule="C16.sibling"):
    ctx.explain(f"{rule}: the Gaussian and the bosonic parity_expectation normalise with (hbar/2) ** (number of REQUESTED "
                "modes): the exponent is len(<modes parameter>) in both siblings (the data was reduced to those modes).")
    for cn in ("BaseGaussianState", "BaseBosonicState"):
        f = ctx.tree.func(ST, f"{cn}.parity_expectation")
        mp = f.pos_params[1]
        pows = [n for n in walk_no_nested(f.node) if isinstance(n, ast.BinOp) and isinstance(n.op, ast.Pow) and
                "hbar" in ast.unparse(n.left)]
        ctx.require(pows, f"{cn}.parity_expectation has no (hbar/2) ** n factor")
        for pw in pows:
            e = ast.unparse(pw.right).replace(" ", "")
            ok = e == f"len({mp})"
            ctx.ob(rule, f.site, ok, "" if ok else f"exponent `{e}` is not the number of requested modes len({mp}): wrong for "
                   "every hbar != 2 as soon as a strict subset of the modes is asked for", role="exponent", line=pw.lineno)
    ctx.floor(rule, 2)


def rules(ctx):
    sibling_counts(ctx)
    param_flow(ctx)
    A.alias_mutation(ctx, "C16.alias", ST, ("BaseGaussianState", "BaseBosonicState", "BaseFockState"))
    ctx.floor("C16.alias", 6)
    Hb.state_objects(ctx, "C16.dim")
    ctx.floor("C16.dim", 35)
    c08.state_index(ctx)
    # re-label the shared rule
    for o in ctx.obls:
        if o.rule == "C08.state-index":
            o.rule = "C16.labels"
            o.key = o.key.replace("C08.state-index", "C16.labels")
    ctx.floors.pop("C08.state-index", None)
    ctx.floor("C16.labels", 5)
