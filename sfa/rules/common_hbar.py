"""hbar-dimension rules (E6) shared by C06, C15, C16, C20."""
from __future__ import annotations

import ast
from fractions import Fraction as Fr
from typing import Dict, Optional

from ..hbardim import ANY, H, TOP, DimEval, analyse, show
from ..loader import FuncInfo, dotted, walk_no_nested

Z = Fr(0)
O = Fr(1)

# ---------------------------------------------------------------------------------------------
# Trusted declarations (each line quotes the documented formula it comes from)
# ---------------------------------------------------------------------------------------------
# front-end operation parameters: class -> {index in self.p: power}
OP_PARAM_DIMS: Dict[str, Dict[int, Fr]] = {
    "Xgate": {0: H},       # X(x) = exp(-i x p/hbar): x is a position displacement, x ~ sqrt(hbar)
    "Zgate": {0: H},       # Z(p) = exp(i p x/hbar): p is a momentum displacement
    "Vgate": {0: -H},      # V(gamma) = exp(i gamma x^3 / (3 hbar)): gamma ~ hbar^(-1/2)
    "Gaussian": {0: Z, 1: H},  # p[0] = V/(hbar/2) (hbar-free by construction), p[1] = means r ~ sqrt(hbar)
    "Dgate": {0: Z, 1: Z}, "Sgate": {0: Z, 1: Z}, "Rgate": {0: Z}, "BSgate": {0: Z, 1: Z},
    "Pgate": {0: Z},       # P(s) = exp(i s x^2 / (2 hbar)): s dimensionless
    "CXgate": {0: Z}, "CZgate": {0: Z}, "S2gate": {0: Z, 1: Z}, "Kgate": {0: Z}, "CKgate": {0: Z},
    "MeasureHomodyne": {0: Z}, "Coherent": {0: Z, 1: Z}, "Squeezed": {0: Z, 1: Z},
    "DisplacedSqueezed": {0: Z, 1: Z, 2: Z, 3: Z}, "Thermal": {0: Z}, "LossChannel": {0: Z},
    "ThermalLossChannel": {0: Z, 1: Z}, "MSgate": {0: Z, 1: Z, 2: Z, 3: Z},
}
# constructor positional parameters (same order as self.p unless noted)
CTOR_DIMS: Dict[str, Dict[int, Fr]] = {k: dict(v) for k, v in OP_PARAM_DIMS.items()}
CTOR_DIMS["Gaussian"] = {0: O, 1: H}  # user passes V ~ hbar, r ~ sqrt(hbar)
# per-function declarations: "Class.method" -> {var key: power}; applied on top of the file-wide ones
OPS_FUNC_DECL = {
    "MeasureHomodyne._apply": {"self.select": H},  # select is a quadrature value in the user's hbar units
    "Gaussian.__init__": {"V": O, "r": H},
}
# declared results of _apply (what Measurement.apply stores in RegRef.val)
OPS_RETURN = {
    "MeasureHomodyne._apply": H,  # homodyne outcome ~ sqrt(hbar)
    "MSgate._apply": H,           # ancilla homodyne outcome, same convention (sibling of MeasureHomodyne)
}

STATE_DECL = {"self._mu": H, "self._cov": O, "self._mus": H, "self._covs": O, "self._data": Z, "self._weights": Z,
              "self._modes": Z, "self._cutoff": Z, "self.num_modes": Z, "self.num_weights": Z}
STATE_FUNC_DECL = {
    # documented arguments: xvec/pvec are quadrature grids (sqrt(hbar)); alpha / alpha_list are amplitudes
    "*": {"xvec": H, "pvec": H, "alpha_list": Z, "phi": Z},
}
STATE_METHOD_RETURNS = {  # self.<m>() -> power / tuple of powers
    "means": H, "cov": O, "covs": O, "weights": Z, "reduced_gaussian": (H, O), "reduced_bosonic": (Z, H, O),
    "displacement": Z, "mean_photon": (Z, Z), "fidelity_coherent": Z, "fidelity_vacuum": Z,
}
STATE_RETURN_DECL = {  # (class, method) -> declared power(s) of the value returned
    "BaseGaussianState.means": H, "BaseGaussianState.cov": O, "BaseBosonicState.means": H,
    "BaseBosonicState.covs": O, "BaseGaussianState.displacement": Z, "BaseBosonicState.displacement": Z,
    "BaseGaussianState.reduced_gaussian": (H, O), "BaseFockState.quad_expectation": (H, O),
    "BaseGaussianState.quad_expectation": (H, O), "BaseBosonicState.quad_expectation": (H, O),
    "BaseGaussianState.mean_photon": (Z, Z), "BaseBosonicState.mean_photon": (Z, Z),
    "BaseFockState.wigner": -O, "BaseBosonicState.wigner": -O,
}
BOS_DECL = {"self.means": H, "self.covs": O, "self.weights": Z}
BOS_FUNC_DECL = {
    # transmissivities, thermal occupations, angles, squeezing and efficiencies are pure numbers
    "*": {"covmat": O, "T": Z, "nbar": Z, "theta": Z, "phi": Z, "eta_anc": Z, "r_anc": Z, "eps": Z},
    "BosonicModes.squeeze": {"r": Z}, "BosonicModes.mb_squeeze_avg": {"r": Z},
    "BosonicModes.mb_squeeze_single_shot": {"r": Z}, "BosonicModes.displace": {"r": Z},
    "BosonicModes.from_mean": {"r": H}, "BosonicModes.from_covmat": {"V": O},
    "BosonicModes.fidelity_coherent": {"alpha": Z},
}
# positional argument powers of the internal channel helpers: X is a (dimensionless) linear map, Y is noise
# added to the covariance (hbar^1), displacement vectors scale as sqrt(hbar)
BOS_CALL_SIG = {
    "self.apply_channel": {0: Z, 1: O},
    "self.expandXY": {1: Z, 2: O},
    "update_covs": {0: O, 1: Z, 3: O},
    "update_means": {0: H, 1: Z},
    "self.post_select_generaldyne": {0: O, 2: H},
    "self.measure_dyne": {0: O},
}
UTIL_RETURN = {  # utils/states.py gaussian-basis helpers: returned [means, cov]
}


_TW_CACHE: Dict[str, Optional[bool]] = {}


def _thewalrus_takes_hbar(dotted_name: str) -> Optional[bool]:
    """does the thewalrus function have an `hbar` parameter?  Decided by parsing the installed library's source
    (never imported); None if the definition cannot be found"""
    if dotted_name in _TW_CACHE:
        return _TW_CACHE[dotted_name]
    import glob
    import os
    parts = dotted_name.split(".")
    fn = parts[-1]
    res = None
    roots = glob.glob("/venv/lib/python3*/site-packages/thewalrus") + glob.glob("/usr/lib/python3*/site-packages/thewalrus")
    for root in roots:
        for path in glob.glob(os.path.join(root, "**", "*.py"), recursive=True):
            try:
                with open(path, encoding="utf-8") as fh:
                    src = fh.read()
                if f"def {fn}(" not in src:
                    continue
                t = ast.parse(src)
            except (OSError, SyntaxError):
                continue
            for n in ast.walk(t):
                if isinstance(n, ast.FunctionDef) and n.name == fn:
                    names = [a.arg for a in n.args.args + n.args.kwonlyargs]
                    res = "hbar" in names
                    break
            if res is not None:
                break
        if res is not None:
            break
    _TW_CACHE[dotted_name] = res
    return res


def _is_thewalrus(tree, module, call: ast.Call) -> bool:
    """a call of a thewalrus function that has an hbar parameter"""
    cn = dotted(call.func)
    if not cn:
        return False
    r = tree.resolve_dotted(module, cn)
    if not (r and r[0] == "external" and r[1].startswith("thewalrus")):
        return False
    return _thewalrus_takes_hbar(r[1]) is True


class Scope:
    """one analysed function with its declaration environment"""

    def __init__(self, ctx, f: FuncInfo, decl: dict, sub_dims=None, call_dims=None):
        self.ctx = ctx
        self.f = f
        self.decl = decl
        self.ev: Optional[DimEval] = None
        self._sub = sub_dims
        self._call = call_dims

    def run(self):
        self.ev = analyse(self.f, self.decl, self._call)
        return self.ev


def _ops_call_dims(ctx, f: FuncInfo):
    """dims of par_evaluate(...), self.p[i], backend.*() results inside ops.py methods"""
    cls = f.cls.name if f.cls else None
    pd = OP_PARAM_DIMS.get(cls, {})

    def call_dims(n: ast.Call, ev: DimEval, at: int):
        cn = dotted(n.func) or ""
        if cn == "par_evaluate" and n.args:
            a = n.args[0]
            if dotted(a) == "self.p":
                ordered = tuple(pd.get(i, TOP) for i in range(max(pd) + 1)) if pd else None
                return ordered  # tuple: only meaningful when unpacked / subscripted
            return ev.ev(a, at)
        if cn.startswith("backend."):
            return Z  # "the backend API call is hbar-independent"
        if cn in ("np.sqrt", "np.abs", "np.real", "np.imag"):
            return None
        return None

    return call_dims


class OpsEval(DimEval):
    """DimEval that knows self.p[i] / p[i] where p = par_evaluate(self.p)"""

    def __init__(self, f, decl, call_dims, pd):
        super().__init__(f, decl, call_dims)
        self.pd = pd

    def _ev(self, n, at):
        if isinstance(n, ast.Subscript) and isinstance(n.slice, ast.Constant) and isinstance(n.slice.value, int):
            base = n.value
            k = dotted(base)
            if k == "self.p":
                return self.pd.get(n.slice.value, TOP)
            if isinstance(base, ast.Name):
                ds = self.rd.reaching(base.id, at)
                if ds and all(d.kind == "assign" and isinstance(d.value, ast.Call) and
                              dotted(d.value.func) == "par_evaluate" and d.value.args and
                              dotted(d.value.args[0]) == "self.p" for d in ds):
                    return self.pd.get(n.slice.value, TOP)
        return super()._ev(n, at)

    def var(self, key, at, node):
        # r, phi = par_evaluate(self.p)
        ds = self.rd.reaching(key, at) if "." not in key else ()
        if ds and all(d.kind == "unpack" and isinstance(d.value, ast.Call) and dotted(d.value.func) == "par_evaluate"
                      and d.value.args and dotted(d.value.args[0]) == "self.p" and d.index and len(d.index) == 1
                      for d in ds):
            idx = {d.index[0] for d in ds}
            if len(idx) == 1:
                return self.pd.get(idx.pop(), TOP)
        return super().var(key, at, node)


def _report(ctx, rule, f: FuncInfo, ev: DimEval, n_checked: int):
    """one obligation per analysed function: no proved contradiction inside it"""
    if not ev.conflicts:
        ctx.ob(rule, f.site, True, role="consistent", line=f.node.lineno, detail={"checked": n_checked})
        return
    seen = set()
    for c in ev.conflicts:
        line = getattr(c.node, "lineno", f.node.lineno)
        # role names the construct, not the line
        role = "conflict:" + _construct(c.node)
        if role in seen:
            continue
        seen.add(role)
        ctx.ob(rule, f.site, False, c.text(), role=role, line=line)


def _construct(node) -> str:
    if isinstance(node, ast.Assign):
        return "assign:" + ",".join(ast.unparse(t) for t in node.targets)[:40]
    if isinstance(node, ast.AugAssign):
        return "aug:" + ast.unparse(node.target)[:40]
    if isinstance(node, ast.Call):
        return "call:" + (dotted(node.func) or "?")
    if isinstance(node, ast.Return):
        return "return"
    if isinstance(node, ast.BinOp):
        return "binop:" + type(node.op).__name__
    if isinstance(node, ast.Compare):
        return "compare"
    return type(node).__name__


# ---------------------------------------------------------------------------------------------
def ops_frontend(ctx, rule, only_classes=None):
    """ops.py: backend arguments are hbar-free, constructor arguments of decomposition products have the
    documented power, declared outcomes (homodyne) have power 1/2"""
    ctx.explain(f"{rule}: hbar-power typing of ops.py: every argument of a backend.* call has power 0, arguments of "
                "operation constructors inside _decompose have the documented power, homodyne outcomes returned by "
                "_apply have power 1/2, no sum/comparison mixes powers.")
    ctx.trust("hbar-power table of documented front-end quantities (OP_PARAM_DIMS / STATE_DECL in sfa/rules/common_hbar.py)")
    m = ctx.tree.module("ops.py")
    for qn, f in sorted(m.functions.items()):
        if f.cls is None or f.name not in ("_apply", "_decompose", "__init__"):
            continue
        if only_classes and f.cls.name not in only_classes:
            continue
        src = ast.unparse(f.node)
        pd = OP_PARAM_DIMS.get(f.cls.name, {})
        if "hbar" not in src and not pd:
            continue
        decl = dict(OPS_FUNC_DECL.get(qn, {}))
        if f.name == "__init__":
            for i, pname in enumerate(f.pos_params[1:]):
                w = CTOR_DIMS.get(f.cls.name, {}).get(i)
                if w is not None:
                    decl.setdefault(pname, w)
        ev = OpsEval(f, decl, _ops_call_dims(ctx, f), pd)
        _run(ev)
        n = 0
        if f.name == "__init__" and pd:
            # the list handed to Operation.__init__ becomes self.p: element i must have the documented power
            for nd in ev.rd.cfg.nodes:
                if nd.ast is None:
                    continue
                for sub in walk_no_nested(nd.ast):
                    if isinstance(sub, ast.Call) and isinstance(sub.func, ast.Attribute) and sub.func.attr == "__init__" \
                            and isinstance(sub.func.value, ast.Call) and dotted(sub.func.value.func) == "super" \
                            and sub.args and isinstance(sub.args[0], ast.List):
                        for i, e in enumerate(sub.args[0].elts):
                            w = pd.get(i)
                            if w is None:
                                continue
                            d = ev.ev(e, nd.id)
                            n += 1
                            if d not in (TOP, ANY) and d != w:
                                ev.conflicts.append(_conf(sub, f"parameter {i} stored in {f.cls.name}.p must scale as "
                                                               f"{show(w)} (the backend call site relies on it)", d, w))
        for nd in ev.rd.cfg.nodes:
            if nd.ast is None:
                continue
            for sub in walk_no_nested(nd.ast):
                if not isinstance(sub, ast.Call):
                    continue
                cn = dotted(sub.func) or ""
                if cn.startswith("backend.") and f.name == "_apply":
                    for i, a in enumerate(sub.args):
                        if isinstance(a, ast.Starred):
                            continue
                        d = ev.ev(a, nd.id)
                        n += 1
                        if d not in (TOP, ANY) and d != 0:
                            ev.conflicts.append(_conf(sub, f"argument {i} `{ast.unparse(a)[:40]}` of the hbar-free "
                                                           f"backend call {cn}", d, Z))
                    for kw in sub.keywords:
                        if kw.arg is None:
                            continue
                        d = ev.ev(kw.value, nd.id)
                        n += 1
                        if d not in (TOP, ANY) and d != 0:
                            ev.conflicts.append(_conf(sub, f"keyword `{kw.arg}` of the hbar-free backend call {cn}", d, Z))
                elif cn in CTOR_DIMS and f.name == "_decompose":
                    for i, a in enumerate(sub.args):
                        want = CTOR_DIMS[cn].get(i)
                        if want is None:
                            continue
                        d = ev.ev(a, nd.id)
                        n += 1
                        if d not in (TOP, ANY) and d != want:
                            ev.conflicts.append(_conf(sub, f"argument {i} of {cn}(...) must scale as {show(want)}", d, want))
            st = nd.ast
            if nd.kind == "stmt" and isinstance(st, ast.Return) and st.value is not None and qn in OPS_RETURN:
                if isinstance(st.value, ast.Constant) and st.value.value is None:
                    continue
                d = ev.ev(st.value, nd.id)
                n += 1
                if d not in (TOP, ANY) and d != OPS_RETURN[qn]:
                    ev.conflicts.append(_conf(st, f"outcome returned by {qn} must scale as {show(OPS_RETURN[qn])}",
                                              d, OPS_RETURN[qn]))
                elif d == TOP:
                    ctx.na(rule, f.site, "power of the returned outcome not derivable")
        _report(ctx, rule, f, ev, n)


def _conf(node, what, a, b):
    from ..hbardim import Conflict
    return Conflict(node, what, a, b)


def _run(ev: DimEval):
    """same statement walk as hbardim.analyse, for a pre-built evaluator"""
    cfg = ev.rd.cfg
    for nd in cfg.nodes:
        st = nd.ast
        if st is None:
            continue
        if nd.kind == "stmt":
            if isinstance(st, (ast.Assign, ast.AnnAssign)) and getattr(st, "value", None) is not None:
                v = ev.ev(st.value, nd.id)
                tg = st.targets if isinstance(st, ast.Assign) else [st.target]
                for t in tg:
                    base = t
                    while isinstance(base, ast.Subscript):
                        base = base.value
                    k = dotted(base)
                    if k and k in ev.decl and "." in k and not isinstance(t, (ast.Tuple, ast.List)):
                        ev.unify(ev.decl[k], v, st, f"value stored in `{k}` (declared {show(ev.decl[k])})")
            elif isinstance(st, ast.AugAssign):
                v = ev.ev(st.value, nd.id)
                base = st.target
                while isinstance(base, ast.Subscript):
                    base = base.value
                k = dotted(base)
                cur = ev.var(k, nd.id, base) if k else TOP
                if isinstance(st.op, (ast.Add, ast.Sub)):
                    ev.unify(cur, v, st, f"in-place sum on `{k}`")
                elif k and k in ev.decl and v not in (TOP, ANY) and v != 0 and isinstance(st.op, (ast.Mult, ast.Div)):
                    ev.conflicts.append(_conf(st, f"in-place rescaling of declared `{k}` by a dimensionful factor",
                                              ev.decl[k], v))
            elif isinstance(st, ast.Return) and st.value is not None:
                ev.ev(st.value, nd.id)
            elif isinstance(st, ast.Expr):
                ev.ev(st.value, nd.id)
        elif nd.kind in ("if", "while"):
            ev.ev(st, nd.id)


# ---------------------------------------------------------------------------------------------
def _state_call_dims(ctx, f: FuncInfo):
    def call_dims(n: ast.Call, ev: DimEval, at: int):
        fn = n.func
        if isinstance(fn, ast.Attribute) and dotted(fn.value) == "self" and fn.attr in STATE_METHOD_RETURNS:
            return STATE_METHOD_RETURNS[fn.attr]
        return None
    return call_dims


def _decl_for(table: dict, qn: str) -> dict:
    d = dict(table.get("*", {}))
    d.update(table.get(qn, {}))
    return d


def state_objects(ctx, rule, classes=("BaseState", "BaseFockState", "BaseGaussianState", "BaseBosonicState")):
    """backends/states.py: declared slots (_mu 1/2, _cov 1, _data 0), declared returns, thewalrus hbar keyword"""
    ctx.explain(f"{rule}: hbar-power typing of the state classes: stores into _mu/_cov/_mus/_covs, declared returns "
                "(means 1/2, cov 1, quad_expectation (1/2, 1), mean_photon 0, wigner -1), sums and comparisons "
                "agree; every thewalrus call that receives hbar-scaled data passes hbar=<hbar source>.")
    m = ctx.tree.module("backends/states.py")
    for qn, f in sorted(m.functions.items()):
        if f.cls is None or f.cls.name not in classes:
            continue
        decl = dict(STATE_DECL)
        params = set(f.params)
        for k, v in _decl_for(STATE_FUNC_DECL, qn).items():
            if "." in k or k in params:
                decl[k] = v
        ev = DimEval(f, decl, _state_call_dims(ctx, f))
        _run(ev)
        n = 0
        # declared return
        want = STATE_RETURN_DECL.get(qn)
        for nd in ev.rd.cfg.nodes:
            st = nd.ast
            if nd.kind == "stmt" and isinstance(st, ast.Return) and st.value is not None and want is not None:
                v = st.value
                if isinstance(want, tuple):
                    if isinstance(v, ast.Tuple) and len(v.elts) == len(want):
                        for e, w in zip(v.elts, want):
                            d = ev.ev(e, nd.id)
                            n += 1
                            if d not in (TOP, ANY) and d != w:
                                ev.conflicts.append(_conf(st, f"component `{ast.unparse(e)[:30]}` returned by {qn} must "
                                                              f"scale as {show(w)}", d, w))
                else:
                    d = ev.ev(v, nd.id)
                    n += 1
                    if d not in (TOP, ANY) and d != want:
                        ev.conflicts.append(_conf(st, f"value returned by {qn} must scale as {show(want)}", d, want))
            # thewalrus calls
            if st is None:
                continue
            for sub in walk_no_nested(st):
                if isinstance(sub, ast.Call) and _is_thewalrus(ctx.tree, m, sub):
                    dims = [ev.ev(a, nd.id) for a in sub.args if not isinstance(a, ast.Starred)]
                    scaled = [d for d in dims if d not in (TOP, ANY) and d != 0]
                    if not scaled:
                        continue
                    n += 1
                    hb = [kw for kw in sub.keywords if kw.arg == "hbar"]
                    if not hb:
                        ev.conflicts.append(_conf(sub, f"{dotted(sub.func)} receives hbar-scaled data but no hbar= "
                                                       "keyword: the library default hbar=2 applies silently", scaled[0], Z))
                    else:
                        d = ev.ev(hb[0].value, nd.id)
                        if d not in (TOP,) and d != O:
                            ev.conflicts.append(_conf(sub, "hbar= keyword is not the hbar of the state", d, O))
        _report(ctx, rule, f, ev, n)


def bosonic_circuit(ctx, rule):
    ctx.explain(f"{rule}: hbar-power typing inside BosonicModes (means 1/2, covs 1, weights 0, measurement covmat 1).")
    m = ctx.tree.module("backends/bosonicbackend/bosoniccircuit.py")
    for qn, f in sorted(m.functions.items()):
        if f.cls is None or f.cls.name != "BosonicModes":
            continue
        src = ast.unparse(f.node)
        # functions that never mention hbar are typed as well when they hand data to the typed channel helpers - an hbar that
        # has been DROPPED from a noise term must not take the function out of the analysis
        if "hbar" not in src and not any(k.split(".")[-1] + "(" in src for k in BOS_CALL_SIG):
            continue
        decl = dict(BOS_DECL)
        params = set(f.params)
        for k, v in _decl_for(BOS_FUNC_DECL, qn).items():
            if "." in k or k in params:
                decl[k] = v
        ev = DimEval(f, decl)
        _run(ev)
        n = 0
        for nd in ev.rd.cfg.nodes:
            if nd.ast is None:
                continue
            for sub in walk_no_nested(nd.ast):
                if not isinstance(sub, ast.Call):
                    continue
                cn = dotted(sub.func) or ""
                sig = BOS_CALL_SIG.get(cn)
                if sig is None:
                    continue
                for i, a in enumerate(sub.args):
                    w = sig.get(i)
                    if w is None or isinstance(a, ast.Starred):
                        continue
                    d = ev.ev(a, nd.id)
                    n += 1
                    if d not in (TOP, ANY) and d != w:
                        ev.conflicts.append(_conf(sub, f"argument {i} of {cn} must scale as {show(w)}", d, w))
        _report(ctx, rule, f, ev, n)


def thewalrus_kw(ctx, rule, rel, decls: Dict[str, dict]):
    """in `rel`, every thewalrus call whose data arguments are hbar-scaled passes hbar=<hbar source>"""
    m = ctx.tree.module(rel)
    for qn, f in sorted(m.functions.items()):
        if not any(isinstance(x, ast.Call) and _is_thewalrus(ctx.tree, m, x) for x in walk_no_nested(f.node)) \
                and qn not in decls and qn not in decls.get("__returns__", {}):
            continue
        decl = dict(decls.get("*", {}))
        decl.update(decls.get(qn, {}))
        cd = _local_call_dims(ctx, m, decls)
        ev = DimEval(f, decl, cd)
        _run(ev)
        n = 0
        # a function with a declared return power: every return agrees with it (sums inside are unified by the evaluator)
        want = decls.get("__returns__", {}).get(qn)
        if want is not None and not isinstance(want, tuple):
            for nd in ev.rd.cfg.nodes:
                if nd.kind == "stmt" and isinstance(nd.ast, ast.Return) and nd.ast.value is not None:
                    n += 1
                    d = ev.ev(nd.ast.value, nd.id)
                    if d not in (TOP, ANY) and d != want:
                        ev.conflicts.append(_conf(nd.ast, f"{qn} returns a quantity of another power of hbar than documented", d, want))
        for nd in ev.rd.cfg.nodes:
            if nd.ast is None:
                continue
            for sub in walk_no_nested(nd.ast):
                if isinstance(sub, ast.Call) and _is_thewalrus(ctx.tree, m, sub):
                    dims = [ev.ev(a, nd.id) for a in sub.args if not isinstance(a, ast.Starred)]
                    scaled = [d for d in dims if d not in (TOP, ANY) and d != 0]
                    hb = [kw for kw in sub.keywords if kw.arg == "hbar"]
                    if scaled or hb:
                        n += 1
                    if scaled and not hb:
                        ev.conflicts.append(_conf(sub, f"{dotted(sub.func)} receives hbar-scaled data but no hbar= "
                                                       "keyword (library default 2 applies)", scaled[0], Z))
                    elif hb:
                        d = ev.ev(hb[0].value, nd.id)
                        if d != TOP and d != O:
                            ev.conflicts.append(_conf(sub, "hbar= keyword is not an hbar source", d, O))
                        if dims and all(x == 0 for x in dims if x not in (TOP, ANY)) and any(x == 0 for x in dims) \
                                and not any(x == TOP for x in dims):
                            ev.conflicts.append(_conf(sub, f"{dotted(sub.func)} is told hbar=... but its data is "
                                                           "hbar-free", Z, O))
        _report(ctx, rule, f, ev, n)


def _local_call_dims(ctx, module, decls):
    rets = decls.get("__returns__", {})

    def call_dims(n, ev, at):
        cn = dotted(n.func) or ""
        last = cn.split(".")[-1]
        if last == "reduced_gaussian" and len(n.args) >= 2:
            # thewalrus.quantum.reduced_gaussian(mu, cov, modes) slices: the parts keep the powers of the whole
            return (ev.ev(n.args[0], at), ev.ev(n.args[1], at))
        if cn in rets:
            return rets[cn]
        if last in rets and (cn.startswith("self.") or "." not in cn):
            return rets[last]
        return None
    return call_dims
