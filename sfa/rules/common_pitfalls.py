"""language pitfalls that turn a correct-looking edit into a property violation for special inputs only; expected count on
the pinned tree: zero violations (instances that are guarded today are counted as discharged obligations)."""
from __future__ import annotations

import ast

from ..cfg import cfg_of
from ..loader import dotted, walk_no_nested
from .common_guard import path_facts, rel

# slices `x[-n:]` that are unguarded today, with the reason why n cannot be 0 there
NEG_SLICE_EXEMPT = {
    ("apps/qchem/utils.py", "read_gamess"): "n_mode is the number of normal modes parsed from the file header (>= 1 for any molecule)",
}


def pitfalls(ctx, rule, files):
    ctx.explain(f"{rule}: in the property's anchored files (a) a slice `x[-n:]` with a non-constant n is reached only where n is known "
                "to be non-zero (for n == 0 it is the whole sequence); (b) tests for DIFFERENT keys of one mapping are not chained "
                "with elif (`if 'a' in d: .. elif 'b' in d: ..` handles only one of two independent entries); (c) tolerances handed "
                "positionally to np.allclose / np.isclose come in numpy's order (rtol, atol); (d) np.meshgrid over a variable number of "
                "axes (an index-combination grid) states indexing='ij' (the default 'xy' swaps the first two axes); (e) np.allclose / np.isclose "
                "with a stated atol also state rtol (numpy's default rtol=1e-5 otherwise applies on top), except against a literal 0; "
                "(f) where an angle that exceeds +/-c (c a multiple of pi) is shifted back, the shift is not c itself (a wrap into [-c, c] shifts by 2c); "
                "(g) the list a for loop iterates over is not shortened or shifted (remove / pop / insert / del) on a path that continues the loop.")
    rels = {x[len("strawberryfields/"):] if x.startswith("strawberryfields/") else x for x in files}
    n = 0
    for f in ctx.tree.all_functions():
        if f.module.rel not in rels:
            continue
        cfg = None
        for sub in walk_no_nested(f.node):
            if isinstance(sub, ast.Subscript):
                sls = sub.slice.elts if isinstance(sub.slice, ast.Tuple) else [sub.slice]
                for sl in sls:
                    if isinstance(sl, ast.Slice) and isinstance(sl.lower, ast.UnaryOp) and isinstance(sl.lower.op, ast.USub) \
                            and not isinstance(sl.lower.operand, ast.Constant) and sl.upper is None:
                        if (f.module.rel, f.qualname) in NEG_SLICE_EXEMPT:
                            ctx.note(f"{rule}: {f.qualname} exempt: {NEG_SLICE_EXEMPT[(f.module.rel, f.qualname)]}")
                            continue
                        cfg = cfg or cfg_of(f.node)
                        q = ast.unparse(sl.lower.operand).replace(" ", "")
                        ids = cfg.node_of_expr(sub)
                        if not ids:
                            continue
                        n += 1
                        ok = False
                        for a, v in path_facts(cfg, ids[0]):
                            r_ = rel(a, v)
                            if ast.unparse(a).replace(" ", "") == q and v:
                                ok = True
                            if r_ is not None:
                                l_, g_ = ast.unparse(r_[1]).replace(" ", ""), ast.unparse(r_[2]).replace(" ", "")
                                zero = [x for x in (r_[1], r_[2]) if isinstance(x, ast.Constant) and x.value == 0]
                                if r_[0] == "!=" and q in (l_, g_) and zero:
                                    ok = True
                                if r_[0] == ">" and l_ == q and zero:
                                    ok = True
                                if r_[0] == ">=" and l_ == q and isinstance(r_[2], ast.Constant) and \
                                        isinstance(r_[2].value, (int, float)) and r_[2].value >= 1:
                                    ok = True
                        ctx.ob(rule, f.site, ok, "" if ok else f"`{ast.unparse(sub)[:50]}` is not guarded by `{q} > 0`: for {q} == 0 "
                               "the slice is the whole sequence", role="neg-slice-guard", line=sub.lineno)
            if isinstance(sub, ast.Call) and (dotted(sub.func) or "").split(".")[-1] in ("allclose", "isclose") and len(sub.args) >= 3:
                # numpy's positional order is (a, b, rtol, atol)
                t3 = ast.unparse(sub.args[2]).lower()
                t4 = ast.unparse(sub.args[3]).lower() if len(sub.args) > 3 else ""
                n += 1
                ok = "atol" not in t3 and "rtol" not in t4
                ctx.ob(rule, f.site, ok, "" if ok else f"`{ast.unparse(sub)[:60]}` passes the tolerances positionally in the order "
                       "(atol, rtol); numpy takes (rtol, atol): the absolute tolerance is applied as a relative one", role="tolerance-order",
                       line=sub.lineno)
            if isinstance(sub, ast.Call) and (dotted(sub.func) or "").split(".")[-1] in ("allclose", "isclose") and len(sub.args) == 2 and \
                    any(k.arg == "atol" for k in sub.keywords) and not any(k.arg == "rtol" for k in sub.keywords) and \
                    not any(isinstance(a, ast.Constant) and a.value == 0 for a in sub.args):
                # an absolute tolerance is stated, the relative one is left at numpy's default 1e-5 (harmless only against 0)
                n += 1
                ctx.ob(rule, f.site, False, f"`{ast.unparse(sub)[:60]}` states atol but not rtol: numpy's default rtol=1e-5 applies on top, "
                       "so deviations up to 1e-5 of the entries pass whatever the stated tolerance", role="implicit-rtol", line=sub.lineno)
            if isinstance(sub, ast.Call) and (dotted(sub.func) or "").split(".")[-1] == "meshgrid" and \
                    any(isinstance(a, ast.Starred) for a in sub.args) and not any(k.arg == "indexing" for k in sub.keywords):
                # a variable number of axes = an index-combination grid; numpy's default indexing='xy' swaps the first two axes
                n += 1
                ctx.ob(rule, f.site, False, f"`{ast.unparse(sub)[:60]}` enumerates combinations with numpy's default indexing='xy': the "
                       "first two axes come out swapped with respect to itertools.product / kron order", role="meshgrid-xy",
                       line=sub.lineno)
            if isinstance(sub, ast.For) and isinstance(sub.iter, (ast.Name, ast.Attribute)):
                # (g) the list a for loop iterates over is not shrunk / shifted inside the loop (the element after a removed one is skipped)
                L = ast.unparse(sub.iter).replace(" ", "")
                for st in ast.walk(sub):
                    mut = None
                    if isinstance(st, ast.Call) and isinstance(st.func, ast.Attribute) and st.func.attr in ("remove", "pop", "insert") and \
                            ast.unparse(st.func.value).replace(" ", "") == L:
                        mut = st
                    if isinstance(st, ast.Delete) and any(isinstance(t, ast.Subscript) and ast.unparse(t.value).replace(" ", "") == L
                                                           for t in st.targets):
                        mut = st
                    if mut is None:
                        continue
                    cfg = cfg or cfg_of(f.node)
                    ids = cfg.find(mut) if isinstance(mut, ast.stmt) else cfg.node_of_expr(mut)
                    heads = [nd.id for nd in cfg.nodes if nd.kind == "for" and nd.stmt is sub]
                    if not ids or not heads:
                        continue
                    n += 1
                    again = bool(cfg.reachable([b for b, _l in cfg.successors(ids[0], exc=False)], exc=False) & set(heads))
                    ctx.ob(rule, f.site, not again, "" if not again else f"`{ast.unparse(mut)[:50]}` inside `for ... in {L}`: the loop goes on "
                           "over the list it has just shortened - the element that follows a removed one is never examined",
                           role="mutated-while-iterated", line=mut.lineno)
            if isinstance(sub, (ast.If, ast.While)):
                # (f) an angle is wrapped into [-c, c] by shifting it by 2c; a shift by the threshold itself lands in the wrong half
                r_ = rel(sub.test, True)
                if r_ is not None and r_[0] in (">", ">=", "<", "<="):
                    for var, thr in ((r_[1], r_[2]), (r_[2], r_[1])):
                        if not isinstance(var, ast.Name):
                            continue
                        t = thr.operand if isinstance(thr, ast.UnaryOp) and isinstance(thr.op, ast.USub) else thr
                        tt = ast.unparse(t).replace(" ", "")
                        if "pi" not in tt:
                            continue
                        for st in sub.body:
                            shift = None
                            if isinstance(st, ast.AugAssign) and isinstance(st.op, (ast.Add, ast.Sub)) and isinstance(st.target, ast.Name) \
                                    and st.target.id == var.id:
                                shift = st.value
                            elif isinstance(st, ast.Assign) and len(st.targets) == 1 and isinstance(st.targets[0], ast.Name) and \
                                    st.targets[0].id == var.id and isinstance(st.value, ast.BinOp) and isinstance(st.value.op, (ast.Add, ast.Sub)) \
                                    and isinstance(st.value.left, ast.Name) and st.value.left.id == var.id:
                                shift = st.value.right
                            if shift is None:
                                continue
                            n += 1
                            ok = ast.unparse(shift).replace(" ", "") != tt
                            ctx.ob(rule, f.site, ok, "" if ok else f"`{ast.unparse(sub.test)[:40]}` ... `{ast.unparse(st)[:40]}`: an angle beyond "
                                   f"+/-{tt} is shifted by {tt}, i.e. by half of the period the interval [-{tt}, {tt}] stands for - the value "
                                   "changes by a half turn instead of being wrapped", role="half-period-wrap", line=st.lineno)
            if isinstance(sub, ast.If) and len(sub.orelse) == 1 and isinstance(sub.orelse[0], ast.If):
                def keytest(e):
                    if isinstance(e, ast.Compare) and len(e.ops) == 1 and isinstance(e.ops[0], ast.In) and \
                            isinstance(e.left, ast.Constant) and isinstance(e.left.value, str):
                        return e.left.value, ast.unparse(e.comparators[0]).replace(" ", "")
                    return None
                a, b = keytest(sub.test), keytest(sub.orelse[0].test)
                if a and b and a[1] == b[1] and a[0] != b[0]:
                    n += 1
                    ctx.ob(rule, f.site, False, f"`if '{a[0]}' in {a[1]}: ... elif '{b[0]}' in {b[1]}: ...`: the entry '{b[0]}' is ignored "
                           f"whenever '{a[0]}' is present as well", role=f"key-elif:{b[0]}", line=sub.orelse[0].lineno)
    return n


# definitions that are dead on the pinned tree (value computed, never read), with what they are
DEAD_DEF_EXEMPT = {
    # (file, function): (number of dead definitions on the pinned tree, what they are) - by count, not by the name of the local
    ("decompositions.py", "_build_staircase"): (1, "`Rij_inv`: inverse rotation computed for symmetry with Rij, not needed by the staircase"),
    ("decompositions.py", "_su2_parameters"): (1, "`b`: second matrix element unpacked for readability of the SU(2) parametrisation"),
    ("ops.py", "_New_modes._apply"): (1, "`inds`: backend.add_mode returns the new indices; the front end keeps its own RegRefs"),
    ("backends/bosonicbackend/backend.py", "BosonicBackend.gaussian_cptp"): (1, "`X2`: expansion computed twice; apply_channel expands again"),
    ("backends/fockbackend/circuit.py", "Circuit.prepare_multimode"): (1, "`scale`: left over from a normalisation that was removed"),
    ("utils/post_processing.py", "all_fock_probs_pnr"): (1, "`num_modes`: shape bookkeeping that the vectorised implementation does not need"),
}


def dead_definitions(ctx, rule, files):
    """a value that is computed and then overwritten or dropped on every path before anything reads it: the flow the author
    had in mind is broken (a flag reset by the `else` of a later, unrelated `if`; a branch whose result never arrives)"""
    from ..dataflow import rd_of
    ctx.explain(f"{rule}: (dead definitions) in the property's anchored files and their siblings no plain local is assigned a value that "
                "no path ever reads (flow-sensitive: reaching definitions at every read, augmented assignments and item stores count "
                "as reads, closures and comprehensions as reads everywhere; names starting with `_` are deliberate). Six dead "
                "definitions exist on the pinned tree and are frozen with what they are.")
    rels = {x[len("strawberryfields/"):] if x.startswith("strawberryfields/") else x for x in files}
    n = 0
    for f in ctx.tree.all_functions():
        if f.module.rel not in rels:
            continue
        try:
            rd = rd_of(f.node)
        except Exception:
            continue
        nested = set()
        for x in ast.walk(f.node):
            if isinstance(x, (ast.Lambda, ast.FunctionDef, ast.ListComp, ast.SetComp, ast.DictComp, ast.GeneratorExp)) and x is not f.node:
                nested |= {y.id for y in ast.walk(x) if isinstance(y, ast.Name)}
        defs = [d for ds in rd.defs_at.values() for d in ds if d.kind in ("assign", "aug") and not d.weak and "." not in d.var]
        if not defs:
            continue
        used = set()
        for nd in rd.cfg.nodes:
            if nd.ast is None:
                continue
            names = {y.id for y in ast.walk(nd.ast) if isinstance(y, ast.Name) and isinstance(y.ctx, (ast.Load, ast.Del))}
            if isinstance(nd.ast, ast.AugAssign) and isinstance(nd.ast.target, ast.Name):
                names.add(nd.ast.target.id)
            names |= {y.value.id for y in ast.walk(nd.ast) if isinstance(y, (ast.Subscript, ast.Attribute)) and
                      isinstance(y.ctx, ast.Store) and isinstance(y.value, ast.Name)}
            for nm in names:
                used.update(rd.reaching(nm, nd.id))
        glob = {x for st in ast.walk(f.node) if isinstance(st, (ast.Global, ast.Nonlocal)) for x in st.names}
        dead = sorted({d.var for d in defs if d not in used and d.var not in nested and not d.var.startswith("_")
                       and d.var not in glob})
        if len(dead) <= DEAD_DEF_EXEMPT.get((f.module.rel, f.qualname), (0, ""))[0]:
            dead = []
        n += 1
        ctx.ob(rule, f.site, not dead, "" if not dead else f"{f.qualname}: the value assigned to {dead} is never read on any path "
               "(overwritten or dropped first): the computation it belongs to does not reach the result",
               role="dead-definition" + ("" if not dead else ":" + ",".join(dead)), line=f.node.lineno)
    return n


def memo_keys(ctx, rule, files):
    """a module-level (or class-level) dictionary used as a memo table: the key must determine the cached value"""
    from ..dataflow import derives
    ctx.explain(f"{rule}: (memo keys) where a function stores a value under a key in a module-level dictionary (a memo table), every "
                "parameter of the function that the stored value is computed from is also part of the key - otherwise a later call "
                "with another value of the omitted parameter is answered from the cache.")
    rels = {x[len("strawberryfields/"):] if x.startswith("strawberryfields/") else x for x in files}
    n = 0
    for f in ctx.tree.all_functions():
        if f.module.rel not in rels:
            continue
        glob = {k for k, vs in f.module.globals.items() if any(isinstance(v, (ast.Dict,)) or isinstance(v, ast.Call) and
                                                              dotted(v.func) in ("dict", "collections.OrderedDict", "OrderedDict") for v in vs)}
        if not glob:
            continue
        params = set(f.params) - {"self", "cls"}
        for st in walk_no_nested(f.node):
            if not (isinstance(st, ast.Assign) and isinstance(st.targets[0], ast.Subscript) and isinstance(st.targets[0].value, ast.Name)
                    and st.targets[0].value.id in glob):
                continue
            n += 1
            dk = derives(f.node, st.targets[0].slice)
            dv = derives(f.node, st.value)
            miss = sorted((dv.params & params) - dk.params)
            ctx.ob(rule, f.site, not miss, "" if not miss else f"`{ast.unparse(st)[:60]}`: the cached value depends on {miss}, the key does "
                   "not: a call with another value of it is answered with the stale entry", role="memo-key-complete", line=st.lineno)
    return n
