"""C05 - operations act only on their target modes (structural clauses)."""
from . import common_backend as B
from . import common_gauss as G
from . import c01


def rules(ctx):
    ctx.trust("backends/base.py names its mode arguments mode/modes/mode1/mode2 (seed of the mode-kind inference)")
    G.footprint(ctx, "C05.gauss-footprint")
    G.dead_stores(ctx, "C05.gauss-deadstore")
    G.coverage(ctx, "C05.gauss-coverage")
    B.bosonic_footprint(ctx, "C05.bosonic-footprint")
    B.mode_routing(ctx, "C05.mode-routing")
    B.prep_reset(ctx, "C05.prep-reset")
    c01.layout(ctx, "C05.fock-layout")
    # a measurement acts on the spectators only through the conditional update: its gain and the sign of the innovation
    from . import c06
    c06.gain(ctx, "C05.cond-update")
    ctx.floor("C05.gauss-footprint", 40)
    ctx.floor("C05.gauss-deadstore", 40)
    ctx.floor("C05.gauss-coverage", 14)
    ctx.floor("C05.bosonic-footprint", 24)
    ctx.floor("C05.mode-routing", 70)
    ctx.floor("C05.prep-reset", 12)
    # allocating a mode must not touch the existing modes; a decomposed preparation resets every target; photon counting pairs
    # every mode with its own outcome (shared with C08 / C02 / C06)
    from . import c08 as _c08, c02 as _c02
    _c08.register_shape(ctx, "C05.register-shape")
    _c02.prep_every_mode(ctx, "C05.prep-every-mode")
    c06.fock_outcome(ctx, "C05.fock-outcome")
