"""C08 - register and simulator agree on which modes exist (structural clauses)."""
from __future__ import annotations

import ast

from ..cfg import cfg_of, T as TRUE, F as FALSE
from ..dataflow import derives, rd_of, resolve_local, return_values, expand_locals
from .common_guard import raise_facts, path_facts, facts
from ..loader import dotted, walk_no_nested
from . import common_backend as B
from . import common_gauss as G

PROG = "program.py"
PU = "program_utils.py"
ENG = "engine.py"


def _stores_attr(tree, attr):
    """(func, stmt, target) for every store / augmented store / del to <expr>.<attr> or <expr>.<attr>[...]
    and every mutator call on <expr>.<attr> in the package"""
    from ..dataflow import MUTATORS
    for f in tree.all_functions():
        if f.module.rel.startswith("backends/tfbackend"):
            continue
        for n in walk_no_nested(f.node):
            tg = []
            if isinstance(n, ast.Assign):
                tg = n.targets
            elif isinstance(n, (ast.AugAssign, ast.AnnAssign)):
                tg = [n.target]
            elif isinstance(n, ast.Delete):
                tg = n.targets
            elif isinstance(n, ast.Call) and isinstance(n.func, ast.Attribute) and n.func.attr in MUTATORS:
                x = n.func.value
                if isinstance(x, ast.Attribute) and x.attr == attr:
                    yield f, n, x, "mutate"
                continue
            for t in tg:
                for tt in (t.elts if isinstance(t, (ast.Tuple, ast.List)) else [t]):
                    x = tt
                    sub = False
                    while isinstance(x, ast.Subscript):
                        x = x.value
                        sub = True
                    if isinstance(x, ast.Attribute) and x.attr == attr:
                        yield f, n, x, "store-item" if sub else "store"


def ownership(ctx):
    rule = "C08.ownership"
    ctx.explain(f"{rule}: RegRef(...) is constructed only in Program._add_subsystems; RegRef.active / .ind and "
                "Program.reg_refs / unused_indices are written only by the listed owners (who-may-write over the "
                "whole package).")
    t = ctx.tree
    regref = t.cls(PU, "RegRef")
    # constructor calls
    allowed_ctor = {"program.py::Program._add_subsystems"}
    n_ctor = 0
    for f in t.all_functions():
        for n in walk_no_nested(f.node):
            if isinstance(n, ast.Call):
                cn = dotted(n.func)
                if cn and cn.split(".")[-1] == "RegRef":
                    r = t.resolve_dotted(f.module, cn)
                    if r and r[0] == "class" and r[1] is regref:
                        n_ctor += 1
                        ok = f.site in allowed_ctor
                        ctx.ob(rule, f.site, ok, "" if ok else "RegRef constructed outside Program._add_subsystems: "
                               "a second source of register references breaks 'a mode keeps its index for life'",
                               role="construct:RegRef", line=n.lineno)
    ctx.require(n_ctor >= 1, "no RegRef(...) construction found at all")
    # writers of .active (RegRef slot): receivers other than `self` inside the simulator / transform classes
    sim_self_ok = {"GaussianModes", "BosonicModes", "GaussianTransform", "GaussianModesTF"}
    for f, st, x, kind in _stores_attr(t, "active"):
        recv = dotted(x.value)
        if recv == "self" and f.cls is not None and f.cls.name in sim_self_ok:
            continue  # activity list of a simulator circuit / `active` flag of GaussianTransform: a different slot
        ok = f.site in ("program_utils.py::RegRef.__init__", "program.py::Program._delete_subsystems")
        ctx.ob(rule, f.site, ok, "" if ok else f"`{ast.unparse(st)[:60]}` writes the activity flag of a register "
               "reference outside RegRef.__init__ / Program._delete_subsystems", role=f"write:active:{recv}",
               line=st.lineno)
    for f, st, x, kind in _stores_attr(t, "ind"):
        ok = f.site == "program_utils.py::RegRef.__init__"
        ctx.ob(rule, f.site, ok, "" if ok else f"`{ast.unparse(st)[:60]}` rewrites a subsystem index after construction",
               role="write:ind", line=st.lineno)
    for f, st, x, kind in _stores_attr(t, "reg_refs"):
        ok = f.site in ("program.py::Program.__init__", "program.py::Program._add_subsystems")
        ctx.ob(rule, f.site, ok, "" if ok else f"`{ast.unparse(st)[:60]}` modifies the index -> RegRef map outside "
               "Program.__init__ / _add_subsystems", role=f"write:reg_refs:{kind}", line=st.lineno)
    for f, st, x, kind in _stores_attr(t, "unused_indices"):
        ok = f.site in ("program.py::Program.__init__", "program.py::Program._add_subsystems",
                        "program.py::Program.append")
        ctx.ob(rule, f.site, ok, "" if ok else f"`{ast.unparse(st)[:60]}` modifies unused_indices outside the "
               "register accounting methods", role=f"write:unused_indices:{kind}", line=st.lineno)
    ctx.floor(rule, 8)


def _calls_in(node, name):
    return [n for n in walk_no_nested(node) if isinstance(n, ast.Call) and dotted(n.func) == name]


def validation(ctx):
    rule = "C08.validation"
    ctx.explain(f"{rule}: Program.append validates targets and measured-parameter dependencies before it stores the "
                "command, built from the validated register; _test_regrefs keeps a raising guard per failure class "
                "ahead of acceptance; BaseEngine._run checks can_follow before running a successor.")
    t = ctx.tree
    # --- Program.append
    f = t.func(PROG, "Program.append")
    cfg = cfg_of(f.node)
    app = [n for n in _calls_in(f.node, "self.circuit.append")]
    ctx.require(app, "Program.append no longer calls self.circuit.append")
    app_node = cfg.node_of_expr(app[0])[0]
    tests = _calls_in(f.node, "self._test_regrefs")
    reg_p, op_p = f.pos_params[2], f.pos_params[1]
    got_reg = got_deps = False
    for c in tests:
        nid = cfg.node_of_expr(c)[0]
        if not cfg.dominates(nid, app_node):
            continue
        d = derives(f.node, c.args[0], nid) if c.args else None
        if d and reg_p in d.params and "measurement_deps" not in d.attr_reads:
            got_reg = True
        if d and "measurement_deps" in d.attr_reads and op_p in d.params:
            # ... the RegRef OBJECTS themselves (identity is what _test_regrefs compares), not their indices
            got_deps = "ind" not in d.attr_reads
    ctx.ob(rule, f.site, got_reg, "" if got_reg else "self._test_regrefs(reg) does not dominate self.circuit.append: "
           "deleted / unknown / duplicate subsystems are accepted", role="dominate:test-reg", line=f.node.lineno)
    ctx.ob(rule, f.site, got_deps, "" if got_deps else "self._test_regrefs(op.measurement_deps) does not dominate "
           "self.circuit.append: parameters may depend on deleted subsystems", role="dominate:test-deps",
           line=f.node.lineno)
    # the command stores the validated register
    stored = resolve_local(f.node, app[0].args[0], at=app_node) if app[0].args else app[0]
    cmd = [n for n in ast.walk(stored) if isinstance(n, ast.Call) and dotted(n.func) == "Command"]
    ok = False
    if cmd and len(cmd[0].args) >= 2:
        cids = cfg.node_of_expr(cmd[0])
        d = derives(f.node, cmd[0].args[1], cids[0] if cids else app_node)
        ok = d.has_call("self._test_regrefs")
    ctx.ob(rule, f.site, ok, "" if ok else "the Command is not built from the register list returned by "
           "_test_regrefs (integers are not converted, validation result dropped)", role="validated-reg",
           line=app[0].lineno)
    # locked guard
    lock_ok = False
    for n, exc, fs in raise_facts(f):
        if cfg.dominates(n.id, app_node) and any(truth and "locked" in ast.unparse(a) for a, truth in fs):
            lock_ok = True
    ctx.ob(rule, f.site, lock_ok, "" if lock_ok else "no raising `locked` guard dominates the append",
           role="guard:locked", line=f.node.lineno)

    # --- _test_regrefs guards
    g = t.func(PROG, "Program._test_regrefs")
    cfgg = cfg_of(g.node)
    accept = [n for n in walk_no_nested(g.node) if isinstance(n, ast.Call) and isinstance(n.func, ast.Attribute)
              and n.func.attr == "append"]
    ctx.require(accept, "_test_regrefs no longer accumulates accepted references with .append")
    acc_node = cfgg.node_of_expr(accept[0])[0]
    acc_list = dotted(accept[0].func.value)
    feats = {"unknown-regref": False, "inconsistent": False, "bad-type": False, "inactive": False,
             "duplicate": False, "unknown-index": False}
    dominating = {"inactive": False, "duplicate": False}
    for n, exc, fs in raise_facts(g):
        for a, truth in fs:
            txt = ast.unparse(a)
            if isinstance(a, ast.Compare) and isinstance(a.ops[0], ast.In) and "reg_refs" in txt and not truth:
                feats["unknown-regref"] = True
            if isinstance(a, ast.Compare) and isinstance(a.ops[0], ast.Is) and "reg_refs" in txt and not truth:
                feats["inconsistent"] = True
            if isinstance(a, ast.Attribute) and a.attr == "active" and not truth:
                feats["inactive"] = True
                dominating["inactive"] = dominating["inactive"] or cfgg.dominates(n.id, acc_node)
            if isinstance(a, ast.Compare) and isinstance(a.ops[0], ast.In) and dotted(a.comparators[0]) == acc_list and truth:
                feats["duplicate"] = True
                dominating["duplicate"] = dominating["duplicate"] or cfgg.dominates(n.id, acc_node)
    # bad type: some raise is reached only when every isinstance test on the element failed
    for nd in cfgg.nodes:
        if nd.kind == "stmt" and isinstance(nd.ast, ast.Raise):
            pf = path_facts(cfgg, nd.id)
            iso = [truth for a, truth in pf if isinstance(a, ast.Call) and dotted(a.func) == "isinstance"]
            if iso and not any(iso):
                feats["bad-type"] = True
    # unknown index: delegated to _index_to_regref (or inline)
    h = t.func_opt(PROG, "Program._index_to_regref")
    if h is not None and _calls_in(g.node, "self._index_to_regref"):
        ch = cfg_of(h.node)
        for n, exc, fs in raise_facts(h):
            if any(isinstance(a, ast.Compare) and isinstance(a.ops[0], ast.In) and "reg_refs" in ast.unparse(a) and not truth
                   for a, truth in fs):
                feats["unknown-index"] = True
    for k, v in feats.items():
        ctx.ob(rule, g.site, v, "" if v else f"_test_regrefs lost its raising guard for the case '{k}'",
               role=f"guard:{k}", line=g.node.lineno)
    for k, v in dominating.items():
        ctx.ob(rule, g.site, v, "" if v else f"the '{k}' guard does not dominate the acceptance of the reference",
               role=f"dominate:{k}", line=g.node.lineno)
    # every raise in _test_regrefs / _index_to_regref raises RegRefError
    for fn in (g, h):
        if fn is None:
            continue
        for n in walk_no_nested(fn.node):
            if isinstance(n, ast.Raise) and n.exc is not None:
                nm = dotted(n.exc.func) if isinstance(n.exc, ast.Call) else dotted(n.exc)
                ok = nm == "RegRefError"
                ctx.ob(rule, fn.site, ok, "" if ok else f"raises {nm} instead of RegRefError", role="raise-type",
                       line=n.lineno)

    # --- BaseEngine._run : can_follow
    r = t.func(ENG, "BaseEngine._run")
    cfr = cfg_of(r.node)
    runs = _calls_in(r.node, "self._run_program")
    ctx.require(runs, "BaseEngine._run no longer calls self._run_program")
    run_node = cfr.node_of_expr(runs[0])[0]
    gates = []
    for n, exc, fs in raise_facts(r):
        # raises when p.can_follow(prev) is false
        if any(not truth and isinstance(a, ast.Call) and isinstance(a.func, ast.Attribute) and a.func.attr == "can_follow"
               for a, truth in fs):
            gates.append(n.id)
    for n in cfr.nodes:
        if n.kind == "stmt" and n.ast is not None and _calls_in(n.ast, "self._init_backend"):
            gates.append(n.id)
    loop = [n.id for n in cfr.nodes if n.kind == "for" and run_node in cfr.reachable([n.id], exc=False)]
    ok = False
    if gates and loop:
        # every path from the loop header into the body up to the run passes a gate
        hdr = loop[0]
        reach = cfr.reachable([b for b, l in cfr.succ[hdr] if l == TRUE], avoid=set(gates) | {hdr}, exc=False)
        ok = run_node not in reach and any("can_follow" in ast.unparse(cfr.node(g).ast) for g in gates
                                           if cfr.node(g).kind == "if")
    ctx.ob(rule, r.site, ok, "" if ok else "a program segment can reach _run_program without either initialising "
           "the backend or passing the raising can_follow(prev) check", role="gate:can_follow", line=runs[0].lineno)
    cf = t.func(PROG, "Program.can_follow")
    ok = False
    for rt, v in return_values(cf.node):
        v = expand_locals(cf.node, v)
        if isinstance(v, ast.Compare) and len(v.ops) == 1 and isinstance(v.ops[0], ast.Eq):
            sides = {dotted(v.left), dotted(v.comparators[0])}
            prev = cf.pos_params[1]
            ok = sides == {"self.init_reg_refs", f"{prev}.reg_refs"}
    ctx.ob(rule, cf.site, ok, "" if ok else "can_follow does not compare its initial register state with the final "
           "register state of the predecessor", role="compare", line=cf.node.lineno)
    ctx.floor(rule, 16)


def remap_guard(ctx):
    rule = "C08.remap"
    f = ctx.tree.func("backends/fockbackend/backend.py", "FockBackend._remap_modes")
    cfg = cfg_of(f.node)
    # some raise is taken whenever `None in <mapped>` holds, and some raise whenever `valid(modes)` fails
    none_g = valid_g = False
    for n, exc, fs in raise_facts(f):
        for a, truth in fs:
            a = expand_locals(f.node, a)
            if truth and isinstance(a, ast.Compare) and isinstance(a.ops[0], ast.In) and isinstance(a.left, ast.Constant) \
                    and a.left.value is None:
                none_g = True
            if not truth and isinstance(a, ast.Call) and isinstance(a.func, ast.Attribute) and a.func.attr == "valid":
                valid_g = True
    ok = none_g and valid_g
    ctx.ob(rule, f.site, ok, "" if ok else "_remap_modes no longer raises when a mode is out of range or maps to None "
           "(deleted)", role="guard:deleted-or-invalid", line=f.node.lineno)
    rets = [n for n in walk_no_nested(f.node) if isinstance(n, ast.Return) and n.value is not None]
    ok = bool(rets) and all(derives(f.node, r.value).has_call("self._modemap.remap") for r in rets)
    ctx.ob(rule, f.site, ok, "" if ok else "the value returned by _remap_modes does not come from ModeMap.remap",
           role="returns-remapped", line=f.node.lineno)
    B.mode_routing(ctx, rule, backends=[("backends/fockbackend/backend.py", "FockBackend")])
    ctx.floor(rule, 24)


def state_index(ctx):
    rule = "C08.state-index"
    ctx.explain(f"{rule}: in state() of the phase-space backends the default mode list comes from get_modes() "
                "(allocated indices of active modes), not from a position count; labels come from the same list.")
    for rel, cn in (("backends/gaussianbackend/backend.py", "GaussianBackend"),
                    ("backends/bosonicbackend/backend.py", "BosonicBackend")):
        f = ctx.tree.func(rel, f"{cn}.state")
        rd = rd_of(f.node)
        mp = f.pos_params[1]
        # definitions of the modes parameter made under `modes is None`
        found = False
        for d in rd.all_defs(mp):
            if d.kind != "assign" or d.value is None:
                continue
            conds = rd.cfg.branch_conditions(d.node)
            under_none = any(_is_none_test(rd.cfg.node(h).ast, mp) and lab == TRUE for h, lab in conds)
            if not under_none:
                continue
            found = True
            dv = derives(f.node, d.value, d.node)
            from_active = dv.has_call("get_modes")
            positional = dv.has_call("range") or dv.has_call("len") or dv.has_call("arange")
            ok = from_active and not positional
            ctx.ob(rule, f.site, ok, "" if ok else
                   f"default `{mp} = {ast.unparse(d.value)[:60]}` is a position count; the simulator arrays are laid out "
                   "over all allocated modes, so after a deletion the wrong rows are returned", role="default-modes",
                   line=d.stmt.lineno)
        if not found:
            # a default taken under a truthiness test (`if not modes:`) also fires for mode 0 and for an empty request
            ctx.ob(rule, f.site, False, f"{cn}.state takes its default mode list under no explicit `{mp} is None` test: `state(0)` / "
                   "`state([])` are answered with ALL modes", role="default-modes", line=f.node.lineno)
        # labels
        lab = [v for v in (ctx.tree.arg_of(n, "mode_names") for n in walk_no_nested(f.node) if isinstance(n, ast.Call))
               if v is not None]
        ctx.require(lab, f"{cn}.state passes no mode_names")
        for kwv in lab:
            dv = derives(f.node, kwv)
            ok = mp in dv.params or dv.has_call("get_modes")
            positional = dv.has_call("range") or dv.has_call("len") or dv.has_call("enumerate")
            ctx.ob(rule, f.site, ok and not positional, "" if ok and not positional else
                   "mode labels are positions / do not derive from the selected mode indices",
                   role="labels", line=kwv.lineno)
        # the data follow the order of the request, like the labels: no index array that selects the rows / columns of the
        # state is a SORTED function of the requested modes while the labels keep the requested order
        labels_sorted = any(derives(f.node, kwv).has_call("sorted", "sort", "np.sort") for kwv in lab)
        for c in walk_no_nested(f.node):
            if isinstance(c, ast.Call) and (dotted(c.func) or "").split(".")[-1] in ("sort", "sorted", "argsort") and c.args:
                ids = rd.cfg.node_of_expr(c)
                dv = derives(f.node, c.args[0], ids[0] if ids else None)
                if mp in dv.params or any(dd.var == mp for dd in dv.defs):
                    ok = labels_sorted
                    ctx.ob(rule, f.site, ok, "" if ok else f"`{ast.unparse(c)[:60]}` puts the selected rows in ascending mode order "
                           f"while the labels follow the order of `{mp}`: state(modes=[1, 0]) labels position 0 'q[1]' but holds the "
                           "data of mode 0", role="selection-order", line=c.lineno)
    # Fock: axes are positional among active modes; the label of position j is get_modes()[j]
    f = ctx.tree.func("backends/fockbackend/backend.py", "FockBackend.state")
    mp = f.pos_params[1]
    lab = [n for n in walk_no_nested(f.node) if isinstance(n, ast.Call) and dotted(n.func) == "BaseFockState"]
    ctx.require(lab, "FockBackend.state no longer builds a BaseFockState")
    for c in lab:
        names = c.args[4] if len(c.args) > 4 else next((k.value for k in c.keywords if k.arg == "mode_names"), None)
        ok = False
        if names is not None:
            dv = derives(f.node, names)
            ok = dv.has_call("get_modes") and mp in (dv.params | {d.var for d in dv.defs})
        ctx.ob(rule, f.site, ok, "" if ok else "Fock mode labels are not get_modes() selected by the requested positions",
               role="labels", line=c.lineno)
    ctx.floor(rule, 5)


def _is_none_test(e, name):
    return isinstance(e, ast.Compare) and len(e.ops) == 1 and isinstance(e.ops[0], ast.Is) and \
        isinstance(e.left, ast.Name) and e.left.id == name and isinstance(e.comparators[0], ast.Constant) and \
        e.comparators[0].value is None


def _linear(f, e, at, rd, depth=0):
    """integer-linear normal form {symbol: coef} of an index/length expression; None if not linear"""
    if depth > 8:
        return None
    if isinstance(e, ast.Constant) and isinstance(e.value, int) and not isinstance(e.value, bool):
        return {"1": e.value}
    if isinstance(e, ast.Attribute) and dotted(e) == "self.nlen":
        ds = [d for d in rd.reaching("self.nlen", at) if d.var == "self.nlen"]
        if not ds:
            return {"N": 1}
        return None  # nlen already updated at this point: handled by the caller
    if isinstance(e, ast.Name):
        ds = [d for d in rd.reaching(e.id, at) if not d.weak]
        if len(ds) == 1 and ds[0].kind == "param":
            return {e.id: 1}
        if len(ds) == 1 and ds[0].kind == "assign" and ds[0].value is not None and ds[0].index is None:
            return _linear(f, ds[0].value, ds[0].node, rd, depth + 1)
        return None
    if isinstance(e, ast.Call) and dotted(e.func) == "len" and e.args:
        return _length(f, e.args[0], at, rd, depth + 1)
    if isinstance(e, ast.BinOp) and isinstance(e.op, (ast.Add, ast.Sub)):
        a, b = _linear(f, e.left, at, rd, depth + 1), _linear(f, e.right, at, rd, depth + 1)
        if a is None or b is None:
            return None
        sg = 1 if isinstance(e.op, ast.Add) else -1
        out = dict(a)
        for k, v in b.items():
            out[k] = out.get(k, 0) + sg * v
        return {k: v for k, v in out.items() if v}
    return None


def _length(f, e, at, rd, depth=0):
    """linear form of the number of elements of a list expression"""
    if depth > 8:
        return None
    if isinstance(e, ast.Attribute) and dotted(e) == "self.active":
        return {"N": 1}  # invariant: one activity entry per allocated mode
    if isinstance(e, (ast.List, ast.Tuple)):
        if any(isinstance(x, ast.Starred) for x in e.elts):
            return None
        return {"1": len(e.elts)} if e.elts else {}
    if isinstance(e, ast.Name):
        ds = [d for d in rd.reaching(e.id, at) if not d.weak]
        if any(d.kind == "param" for d in ds):
            return {f"len({e.id})": 1}  # opaque symbol (also when a None default is replaced by a list)
        if len(ds) == 1 and ds[0].kind == "assign" and ds[0].value is not None and ds[0].index is None:
            return _length(f, ds[0].value, ds[0].node, rd, depth + 1)
        return None
    if isinstance(e, ast.Call):
        cn = dotted(e.func) or ""
        if cn in ("list", "tuple", "sorted") and e.args:
            return _length(f, e.args[0], at, rd, depth + 1)
        if cn in ("range", "np.arange") and e.args:
            pos = [a for a in e.args]
            if len(pos) == 1:
                return _linear(f, pos[0], at, rd, depth + 1)
            if len(pos) == 2:
                a, b = _linear(f, pos[0], at, rd, depth + 1), _linear(f, pos[1], at, rd, depth + 1)
                if a is None or b is None:
                    return None
                out = dict(b)
                for k, v in a.items():
                    out[k] = out.get(k, 0) - v
                return {k: v for k, v in out.items() if v}
        if cn == "len":
            return None
        return None
    if isinstance(e, ast.ListComp) and len(e.generators) == 1 and not e.generators[0].ifs:
        return _length(f, e.generators[0].iter, at, rd, depth + 1)
    if isinstance(e, ast.BinOp) and isinstance(e.op, ast.Add):
        a, b = _length(f, e.left, at, rd, depth + 1), _length(f, e.right, at, rd, depth + 1)
        if a is None or b is None:
            return None
        out = dict(a)
        for k, v in b.items():
            out[k] = out.get(k, 0) + v
        return {k: v for k, v in out.items() if v}
    return None


def add_mode(ctx):
    rule = "C08.add-mode"
    ctx.explain(f"{rule}: add_mode of both phase-space circuits grows the activity list by as many entries as nlen "
                "(length algebra over list displays, range/arange, concatenation and append).")
    for rel, cn in ((G.GAUSS, "GaussianModes"), (B.BOS, "BosonicModes")):
        f = ctx.tree.func(rel, f"{cn}.add_mode")
        rd = rd_of(f.node)
        cfg = rd.cfg
        # growth of nlen
        grow = None
        for nd in cfg.nodes:
            st = nd.ast
            if nd.kind != "stmt":
                continue
            if isinstance(st, ast.AugAssign) and dotted(st.target) == "self.nlen" and isinstance(st.op, ast.Add):
                grow = _linear(f, st.value, nd.id, rd) if not (isinstance(st.value, ast.Name) or True) else None
                g0 = st.value
                grow = _linear(f, g0, nd.id, rd)
                if grow is None and isinstance(g0, ast.Name):
                    # num_modes = len(peak_list)
                    grow = _linear(f, g0, nd.id, rd)
            if isinstance(st, ast.Assign) and any(dotted(t) == "self.nlen" for t in st.targets):
                new = _linear(f, st.value, nd.id, rd)
                if new is not None:
                    grow = {k: v for k, v in {**new, "N": new.get("N", 0) - 1}.items() if v}
        ctx.require(grow is not None, f"{cn}.add_mode: growth of self.nlen not understood")
        # growth of active
        got = None
        why = ""
        for nd in cfg.nodes:
            st = nd.ast
            if nd.kind != "stmt" or st is None:
                continue
            if isinstance(st, ast.Assign) and any(dotted(t) == "self.active" for t in st.targets):
                ln = _length(f, st.value, nd.id, rd)
                if ln is None:
                    ctx.na(rule, f.site, f"length of `{ast.unparse(st.value)[:40]}` not understood")
                    got = "na"
                else:
                    got = {k: v for k, v in {**ln, "N": ln.get("N", 0) - 1}.items() if v}
            for sub in walk_no_nested(st):
                if isinstance(sub, ast.Call) and dotted(sub.func) == "self.active.append":
                    in_loop = False
                    p = getattr(sub, "parent", None)
                    while p is not None and p is not f.node:
                        if isinstance(p, (ast.For, ast.While, ast.ListComp)):
                            in_loop = True
                        p = getattr(p, "parent", None)
                    got = "na" if in_loop else {"1": 1}
                if isinstance(sub, ast.Call) and dotted(sub.func) == "self.active.extend" and sub.args:
                    ln = _length(f, sub.args[0], nd.id, rd)
                    got = ln if ln is not None else "na"
            if isinstance(st, ast.AugAssign) and dotted(st.target) == "self.active":
                ln = _length(f, st.value, nd.id, rd)
                got = ln if ln is not None else "na"
        ctx.require(got is not None, f"{cn}.add_mode does not update self.active")
        if got == "na":
            continue
        ok = got == grow
        ctx.ob(rule, f.site, ok, "" if ok else f"`active` grows by {got or 0} entries while nlen grows by {grow}: after "
               "New(n > 1) the register and the simulator disagree on which modes exist", role="active-growth",
               line=f.node.lineno)
    ctx.floor(rule, 2)


def values(ctx):
    rule = "C08.values"
    ctx.explain(f"{rule}: measured values copied into a successor program are stored under reg_refs[<mode index>], "
                "the key coming from samples_dict (keyed by mode), not from a position in the samples array.")
    f = ctx.tree.func(ENG, "BaseEngine._run")
    rd = rd_of(f.node)
    n_found = 0
    for nd in rd.cfg.nodes:
        st = nd.ast
        if nd.kind != "stmt" or not isinstance(st, ast.Assign):
            continue
        for t in st.targets:
            if isinstance(t, ast.Attribute) and t.attr == "val" and isinstance(t.value, ast.Subscript) and \
                    isinstance(t.value.value, ast.Attribute) and t.value.value.attr == "reg_refs":
                n_found += 1
                key = t.value.slice
                dv = derives(f.node, key, nd.id)
                positional = False
                if isinstance(key, ast.Name):
                    for d in rd.reaching(key.id, nd.id):
                        if d.kind == "for" and isinstance(d.value, ast.Call) and \
                                dotted(d.value.func) in ("enumerate", "range"):
                            positional = True
                by_mode = dv.reads("self.samples_dict")
                # the value itself must come from the engine's own record of outcomes, and be the latest one
                vv = derives(f.node, st.value, nd.id)
                foreign = [a for a in vv.attrs if not a.startswith("self.")] + \
                          [d.var for d in vv.defs if d.kind == "for" and d.value is not None and
                           not derives(f.node, d.value, d.node).reads("self.samples_dict")
                           and not derives(f.node, d.value, d.node).reads("self.samples")]
                own = vv.reads("self.samples_dict") or vv.reads("self.samples")
                ok_src = own and not any(x.split(".")[0] in ("prev", "program", "p") for x in vv.attrs)
                ctx.ob(rule, f.site, ok_src, "" if ok_src else
                       f"`{ast.unparse(st)[:60]}`: the measured value is taken from a Program object ({sorted(set(vv.attrs))[:3]}) "
                       "instead of the engine's own sample record; a program shared between engines leaks outcomes "
                       "of another engine", role="value-source", line=st.lineno)
                last = isinstance(st.value, ast.Subscript) and ast.unparse(st.value.slice).replace(" ", "") in ("-1",) or \
                    (isinstance(st.value, ast.Subscript) and "len(" in ast.unparse(st.value.slice) and "-1" in ast.unparse(st.value.slice))
                if isinstance(st.value, ast.Subscript) and isinstance(st.value.slice, (ast.Constant, ast.UnaryOp)):
                    ctx.ob(rule, f.site, last, "" if last else f"`{ast.unparse(st.value)}` is not the most recent outcome of "
                           "the mode (outcomes are appended in measurement order; the last one is current)",
                           role="value-latest", line=st.lineno)
                if positional:
                    ok, msg = False, (f"reg_refs key `{ast.unparse(key)}` is a position in the samples array (rows are "
                                      "shots), not a mode index: feed-forward across programs reads the wrong value")
                elif by_mode:
                    ok, msg = True, ""
                else:
                    ctx.na(rule, f.site, f"origin of key `{ast.unparse(key)}` not understood")
                    continue
                ctx.ob(rule, f.site, ok, msg, role="regref-key", line=st.lineno)
    if n_found < 1:
        ctx.ob(rule, f.site, False, "BaseEngine._run no longer copies the measured values of the previous segment into reg_refs[...].val: "
               "feed-forward across programs reads nothing", role="regref-key", line=f.node.lineno)
    ctx.floor(rule, 1)


GAUSS_EXC = {
    "fromsmean": "whole-array setter; reached with front-end validated modes or modes=None only",
    "fromscovmat": "whole-array setter; reached with front-end validated modes or modes=None only",
}
BOS_EXC = {
    "from_mean": "whole-array setter; reached with front-end validated modes or modes=None only",
    "from_covmat": "whole-array setter; reached with front-end validated modes or modes=None only",
}


def remap_snapshot(ctx, rule="C08.remap"):
    """positions obtained from _remap_modes are a snapshot of the mode map: they are stale once the layout of the Fock tensor
    has changed (alloc / dealloc / reset of the circuit, add / delete in the mode map)"""
    ctx.explain(f"{rule}: (snapshot) in FockBackend no value derived from self._remap_modes(...) is handed to the circuit on a "
                "path that has passed a layout-changing call (circuit.alloc / dealloc / reset, _modemap.add / delete / reset) "
                "since the remapping - tensor positions shift when a mode is traced out.")
    cls = ctx.tree.cls("backends/fockbackend/backend.py", "FockBackend")
    LAYOUT = {"self.circuit.alloc", "self.circuit.dealloc", "self.circuit.reset", "self._modemap.add", "self._modemap.delete",
              "self._modemap.reset"}
    n = 0
    for name, f in sorted(cls.methods.items()):
        cfg = cfg_of(f.node)
        remaps = [c for c in walk_no_nested(f.node) if isinstance(c, ast.Call) and dotted(c.func) == "self._remap_modes"]
        if not remaps:
            continue
        layout = [c for c in walk_no_nested(f.node) if isinstance(c, ast.Call) and dotted(c.func) in LAYOUT]
        uses = []
        for c in walk_no_nested(f.node):
            if isinstance(c, ast.Call) and (dotted(c.func) or "").startswith("self.circuit.") and c.args:
                ids = cfg.node_of_expr(c)
                if not ids:
                    continue
                for a in c.args:
                    d = derives(f.node, a, ids[0])
                    if d.has_call("self._remap_modes"):
                        uses.append((c, ids[0]))
                        break
        n += 1
        bad = None
        # (the iterable of a `for` is evaluated once: passing the loop header again does not refresh the snapshot)
        rids = {cfg.node_of_expr(r)[0] for r in remaps if cfg.node_of_expr(r) and cfg.node(cfg.node_of_expr(r)[0]).kind != "for"}
        for lc in layout:
            lids = cfg.node_of_expr(lc)
            if not lids:
                continue
            after = cfg.reachable([b for b, lab in cfg.succ[lids[0]] if lab != "x"], avoid=rids, exc=False)
            for uc, uid in uses:
                if uid in after:
                    bad = (lc, uc)
        ctx.ob(rule, f.site, bad is None, "" if bad is None else
               f"`{ast.unparse(bad[1])[:50]}` uses positions remapped before `{ast.unparse(bad[0])[:40]}` changed the layout: the "
               "positions of the remaining modes have shifted (the wrong mode is acted on)", role="snapshot",
               line=(bad[1].lineno if bad else f.node.lineno))
    ctx.floor(rule, 20)


def lifecycle(ctx, rule="C08.validation"):
    ctx.explain(f"{rule}: (lifecycle) Program._linked_copy locks the SOURCE program on every path (the copy shares its RegRefs: a "
                "source that stays open can create / delete subsystems behind the simulator's back); the engine initialises the "
                "backend with the INITIAL number of subsystems of the first program.")
    f = ctx.tree.func(PROG, "Program._linked_copy")
    cfg = cfg_of(f.node)
    locks = [cfg.node_of_expr(c)[0] for c in walk_no_nested(f.node) if isinstance(c, ast.Call) and dotted(c.func) == "self.lock"
             and cfg.node_of_expr(c)]
    locks += [cfg.find(n)[0] for n in walk_no_nested(f.node) if isinstance(n, ast.Assign) and dotted(n.targets[0]) == "self.locked"
              and isinstance(n.value, ast.Constant) and n.value.value is True and cfg.find(n)]
    ok = bool(locks) and cfg.must_pass(cfg.entry, locks, exits=[cfg.exit], exc=False)
    ctx.ob(rule, f.site, ok, "" if ok else "_linked_copy no longer locks the source program: after compile() / run() the user's "
           "program still accepts New / Del, which change the RegRefs it shares with the program the simulator was set up for",
           role="locks-source", line=f.node.lineno)
    r = ctx.tree.func(ENG, "BaseEngine._run")
    inits = [c for c in walk_no_nested(r.node) if isinstance(c, ast.Call) and dotted(c.func) == "self._init_backend" and c.args]
    ctx.require(inits, "BaseEngine._run no longer calls self._init_backend")
    for c in inits:
        d = derives(r.node, c.args[0])
        ok = "init_num_subsystems" in d.attr_reads
        ctx.ob(rule, r.site, ok, "" if ok else f"`{ast.unparse(c)[:50]}`: the backend is not initialised with the initial number "
               "of subsystems of the program (New / Del inside the program are applied again on top)", role="init-count",
               line=c.lineno)


def deletion_marks(ctx, rule="C08.validation"):
    ctx.explain(f"{rule}: (deletion is recorded) a deleted mode is rejected later only because it was MARKED deleted: "
                "Program._delete_subsystems stores `active = False` on every reference it is handed, and del_mode of the phase-space "
                "circuits stores the `None` placeholder into `self.active[mode]` for every mode it is handed - a store on every path "
                "through the body of the loop over the arguments that does not leave by raising.")
    sites = [(PROG, "Program._delete_subsystems", "attr"), (G.GAUSS, "GaussianModes.del_mode", "slot"), (B.BOS, "BosonicModes.del_mode", "slot")]
    n = 0
    for relp, qn, kind in sites:
        try:
            f = ctx.tree.func(relp, qn)
        except Exception:
            ctx.note(f"{rule}: {qn} not present")
            continue
        cfg = cfg_of(f.node)
        par = f.params[1] if len(f.params) > 1 else None
        for loop in walk_no_nested(f.node):
            if not isinstance(loop, ast.For) or not isinstance(loop.target, ast.Name):
                continue
            d = derives(f.node, loop.iter)
            if par not in d.params:
                continue
            var = loop.target.id
            marks = []
            for st in ast.walk(loop):
                if not isinstance(st, ast.Assign) or len(st.targets) != 1:
                    continue
                t = st.targets[0]
                if kind == "attr" and isinstance(t, ast.Attribute) and t.attr == "active" and isinstance(st.value, ast.Constant) and \
                        st.value.value is False and any(isinstance(x, ast.Name) and x.id == var for x in ast.walk(t.value)):
                    marks += cfg.find(st)
                if kind == "slot" and isinstance(t, ast.Subscript) and dotted(t.value) == "self.active" and isinstance(st.value, ast.Constant) \
                        and st.value.value is None and any(isinstance(x, ast.Name) and x.id == var for x in ast.walk(t.slice)):
                    marks += cfg.find(st)
            heads = [nd.id for nd in cfg.nodes if nd.kind == "for" and nd.stmt is loop]
            if not heads:
                continue
            n += 1
            # every path from the loop head through the body back to the head passes a marking store
            body_first = [b for b, lab in cfg.successors(heads[0], exc=False) if lab == TRUE] or [b for b, _ in cfg.successors(heads[0], exc=False)][:1]
            ok = bool(marks) and not (cfg.reachable(body_first, avoid=marks, exc=False) & set(heads))
            ctx.ob(rule, f.site, ok, "" if ok else f"the loop over `{par}` can complete an iteration without marking `{var}` as deleted "
                   f"({'`.active = False`' if kind == 'attr' else '`self.active[mode] = None`'}): the mode stays usable after Del",
                   role="marks-deleted", line=loop.lineno)
    ctx.require(n >= 1, "no deletion loop found (Program._delete_subsystems / del_mode)")
    ctx.floor(rule, 1)


def register_shape(ctx, rule="C08.add-mode"):
    """the simulator's per-mode arrays are indexed by LIFETIME mode index (deleted modes keep a None placeholder)"""
    ctx.explain(f"{rule}: (register shape) (a) add_mode of the phase-space circuits carries every state array over: each `self.X = new` "
                "for X in nmat / mmat / mean / active (means / covs / weights / active) is computed from the old `self.X`; (b) no method "
                "assigns `self.active` from get_modes() (the compressed list of live indices: the placeholders of deleted modes would "
                "be lost and every later index shifts); (c) reset() of every backend re-creates the circuit with the INITIAL number of "
                "modes (self._init_modes); (d) in GaussianBackend the offset between the x and p blocks of the xp-ordered vectors is the "
                "number of ALLOCATED slots (from the circuit's arrays), never the number of live modes.")
    specs = ((G.GAUSS, "GaussianModes", ("nmat", "mmat", "mean", "active")), (B.BOS, "BosonicModes", ("means", "covs", "active")))
    for relp, cn, attrs in specs:
        cls = ctx.tree.cls(relp, cn)
        f = cls.methods.get("add_mode")
        if f is not None:
            for a in attrs:
                sts = [st for st in walk_no_nested(f.node) if isinstance(st, ast.Assign) and dotted(st.targets[0]) == f"self.{a}"]
                muts = [c for c in walk_no_nested(f.node) if isinstance(c, ast.Call) and isinstance(c.func, ast.Attribute) and
                        dotted(c.func.value) == f"self.{a}"]
                augs = [st for st in walk_no_nested(f.node) if isinstance(st, ast.AugAssign) and dotted(st.target) == f"self.{a}"]
                if not sts:
                    ok = bool(muts or augs)
                    ctx.ob(rule, f.site, ok, "" if ok else f"add_mode does not extend `self.{a}`", role=f"carries:{a}", line=f.node.lineno)
                    continue
                for st in sts:
                    ids = cfg_of(f.node).find(st)
                    d = derives(f.node, st.value, ids[0] if ids else None)
                    ok = f"self.{a}" in d.attrs
                    ctx.ob(rule, f.site, ok, "" if ok else f"`{ast.unparse(st)[:50]}`: the new `{a}` array is not filled from the old one - "
                           f"allocating a mode wipes `{a}` of every existing mode", role=f"carries:{a}", line=st.lineno)
        for name, m in sorted(cls.methods.items()):
            for st in walk_no_nested(m.node):
                if isinstance(st, ast.Assign) and dotted(st.targets[0]) == "self.active":
                    ids = cfg_of(m.node).find(st)
                    d = derives(m.node, st.value, ids[0] if ids else None)
                    bad = d.has_call("self.get_modes", "get_modes")
                    ctx.ob(rule, m.site, not bad, "" if not bad else f"`{ast.unparse(st)[:50]}` replaces the lifetime-indexed activity list by "
                           "the compressed list of live modes", role="active-keeps-placeholders", line=st.lineno)
    for relp, cn in (("backends/gaussianbackend/backend.py", "GaussianBackend"), ("backends/bosonicbackend/backend.py", "BosonicBackend"),
                     ("backends/fockbackend/backend.py", "FockBackend")):
        f = ctx.tree.func(relp, f"{cn}.reset")
        calls = [c for c in walk_no_nested(f.node) if isinstance(c, ast.Call) and dotted(c.func) == "self.circuit.reset"]
        ok = bool(calls) and all(any("self._init_modes" in derives(f.node, a).attrs for a in list(c.args) + [k.value for k in c.keywords])
                                 for c in calls)
        ctx.ob(rule, f.site, ok, "" if ok else f"{cn}.reset does not re-create the circuit with self._init_modes: modes created by New "
               "survive the reset", role="reset-initial-modes", line=f.node.lineno)
    gb = ctx.tree.cls("backends/gaussianbackend/backend.py", "GaussianBackend")
    for name, f in sorted(gb.methods.items()):
        mp = [p for p in f.pos_params if p in ("modes", "mode")]
        if not mp:
            continue
        for x in walk_no_nested(f.node):
            if isinstance(x, ast.BinOp) and isinstance(x.op, ast.Add):
                for a, b in ((x.left, x.right), (x.right, x.left)):
                    ids = cfg_of(f.node).node_of_expr(x)
                    da = derives(f.node, a, ids[0] if ids else None)
                    if not (set(mp) & da.params):
                        continue
                    if isinstance(b, ast.Call) and dotted(b.func) == "len" or isinstance(b, ast.Attribute) and b.attr in ("nlen",) or \
                            isinstance(b, ast.Subscript) and isinstance(b.value, ast.Attribute) and b.value.attr == "shape":
                        db = derives(f.node, b, ids[0] if ids else None)
                        bad = db.has_call("self.get_modes", "get_modes") or any(a_.endswith(".active") for a_ in db.attrs)
                        # ... nor the number of modes the method was ASKED about (the offset is a property of the register)
                        bad = bad or bool(set(mp) & db.params)
                        ctx.ob(rule, f.site, not bad, "" if not bad else f"`{ast.unparse(x)[:50]}`: the x/p block offset is the number of "
                               "LIVE (or requested) modes, not of allocated slots; the x quadrature of a mode is paired with the p quadrature of another",
                               role="xp-offset-allocated", line=x.lineno)


def rules(ctx):
    ownership(ctx)
    validation(ctx)
    remap_guard(ctx)
    remap_snapshot(ctx)
    lifecycle(ctx)
    deletion_marks(ctx)
    G.active_guards(ctx, "C08.active-guard", G.GAUSS, "GaussianModes", ("nmat", "mmat", "mean", "active"), GAUSS_EXC)
    G.active_guards(ctx, "C08.active-guard", B.BOS, "BosonicModes", ("means", "covs", "weights", "active"), BOS_EXC)
    ctx.floor("C08.active-guard", 28)
    state_index(ctx)
    add_mode(ctx)
    register_shape(ctx)
    values(ctx)
    from . import c09 as _c09
    _c09.parent_copy(ctx, "C08.ownership")
    from . import c01 as _c01
    ctx.shared(_c01.layout, "C08.fock-layout")
    from . import c16 as _c16
    ctx.shared(_c16.layout, "C08.state-layout")
