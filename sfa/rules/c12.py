"""C12 - hardware compilation conforms to the device (structural clauses: validation dominance, raising guards)."""
from __future__ import annotations

import ast

from ..cfg import cfg_of, T as TRUE, F as FALSE
from ..dataflow import derives, rd_of
from ..loader import dotted, walk_no_nested
from .common_guard import call_node, find_guard, raising_ifs


def validation(ctx, rule="C12.validation"):
    ctx.explain(f"{rule}: Program.compile cannot return a program for a device with gate-parameter ranges without "
                "validate_gate_parameters; assert_modes precedes decomposition when the device lists modes; "
                "validate_gate_parameters reaches device.validate_parameters and converts a template mismatch into "
                "CircuitError; Device.validate_parameters raises on unknown names and on out-of-range values (scalar "
                "and iterable); Range.__contains__ is two-sided; the mode-count guards of Program/TDMProgram.assert_modes.")
    f = ctx.tree.func("program.py", "Program.compile")
    cfg = cfg_of(f.node)
    vid, vcall = call_node(f, "validate_gate_parameters")
    ok = False
    if vid is not None:
        conds = cfg.branch_conditions(vid)
        tests = [ast.unparse(cfg.node(h).ast) for h, lab in conds if lab == TRUE and cfg.node(h).kind == "if"]
        # must be conditional on the device having gate parameters only (plus the raising layout guard)
        only = all("gate_parameters" in t or "device" in t for t in tests) and any("gate_parameters" in t for t in tests)
        # every return of `compiled` passes the `if device and device.gate_parameters` test node
        gate_if = [h for h, lab in conds if "gate_parameters" in ast.unparse(cfg.node(h).ast)]
        rets = [i for i in cfg.ids() if isinstance(cfg.node(i).ast, ast.Return) and cfg.node(i).ast.value is not None
                and dotted(cfg.node(i).ast.value) == "compiled"]
        ok = only and bool(gate_if) and bool(rets) and all(cfg.dominates(gate_if[0], r) for r in rets)
        # and no return sits inside the gate branch ahead of the validation
        for r in rets:
            if (gate_if[0], TRUE) in cfg.branch_conditions(r) and not cfg.dominates(vid, r):
                ok = False
        arg_ok = vcall.args and dotted(vcall.args[0]) == "compiled"
        ok = ok and bool(arg_ok)
    ctx.ob(rule, f.site, ok, "" if ok else "a compiled program can be returned for a device with allowed gate-parameter "
           "ranges without pu.validate_gate_parameters(compiled)", role="validate-before-return", line=f.node.lineno)
    aid, _ = call_node(f, "self.assert_modes")
    did, _ = call_node(f, "compiler.decompose")
    ok = aid is not None and did is not None and any("modes" in ast.unparse(cfg.node(h).ast) and lab == TRUE
                                                     for h, lab in cfg.branch_conditions(aid)) \
        and aid in cfg.reachable([cfg.entry], exc=False) and did in cfg.reachable([aid], exc=False) \
        and aid not in cfg.reachable([did], exc=False)
    ctx.ob(rule, f.site, ok, "" if ok else "assert_modes(device) is not executed before decomposition when device.modes is given",
           role="assert-modes-first", line=f.node.lineno)
    g = find_guard(f, lambda t, s: "device is None" in s and "compiler is None" in s, exc="ValueError")
    ctx.ob(rule, f.site, g is not None, "" if g else "compile() without device and compiler no longer raises", role="guard:no-target",
           line=f.node.lineno)
    g = find_guard(f, lambda t, s: "layout" in s, exc="ValueError", dominates=vid)
    ctx.ob(rule, f.site, g is not None, "" if g else "gate parameters are 'validated' without a device layout", role="guard:no-layout",
           line=f.node.lineno)
    uid, _ = call_node(f, "compiler.update_params")
    cid, _ = call_node(f, "compiler.compile")
    ok = uid is not None and cid is not None and cfg.dominates(cid, uid) and (vid is None or uid in cfg.reachable([cfg.entry]) and
                                                                              vid in cfg.reachable([uid], exc=False))
    ctx.ob(rule, f.site, ok, "" if ok else "compiler.update_params must run after compiler.compile and before validation",
           role="update-before-validate", line=f.node.lineno)

    # validate_gate_parameters
    v = ctx.tree.func("program_utils.py", "validate_gate_parameters")
    cv = cfg_of(v.node)
    did2, dcall = call_node(v, "device.validate_parameters")
    ok = did2 is not None
    if ok:
        rets = [i for i in cv.ids() if isinstance(cv.node(i).ast, ast.Return)]
        ok = bool(rets) and all(cv.dominates(did2, r) for r in rets)
        ok = ok and any(k.arg is None for k in dcall.keywords) and \
            derives(v.node, [k for k in dcall.keywords if k.arg is None][0].value).has_call("match_template")
    ctx.ob(rule, v.site, ok, "" if ok else "validate_gate_parameters can return without device.validate_parameters("
           "**parameters matched from the layout template)", role="reaches-range-check", line=v.node.lineno)
    hs = [h for n in walk_no_nested(v.node) if isinstance(n, ast.Try) for h in n.handlers]
    ok = any(dotted(h.type) == "TemplateError" and any(isinstance(x, ast.Raise) and isinstance(x.exc, ast.Call) and
             dotted(x.exc.func) == "CircuitError" for x in ast.walk(h)) for h in hs if h.type is not None)
    ctx.ob(rule, v.site, ok, "" if ok else "a layout/template mismatch is no longer reported as CircuitError", role="template-error",
           line=v.node.lineno)

    # Device.validate_parameters
    d = ctx.tree.func("device.py", "Device.validate_parameters")
    g1 = find_guard(d, lambda t, s: isinstance(t, ast.Compare) and isinstance(t.ops[0], ast.NotIn) and "gate_parameters" in s
                    and "[" not in s, exc="ValueError")
    ctx.ob(rule, d.site, g1 is not None, "" if g1 else "unknown parameter names are accepted", role="guard:unknown-name", line=d.node.lineno)
    rng = [n for n, lab, e in raising_ifs(d) if isinstance(n.ast, ast.Compare) and isinstance(n.ast.ops[0], ast.NotIn)
           and "gate_parameters[" in ast.unparse(n.ast) and (e or "").endswith("ValueError")]
    cfd = cfg_of(d.node)
    scalar = any(not any(cfd.node(h).kind == "for" and "_flatten" in ast.unparse(cfd.node(h).ast.iter)
                         for h, lab in cfd.branch_conditions(n.id)) for n in rng)
    iterable = any(any(cfd.node(h).kind == "for" for h, lab in cfd.branch_conditions(n.id) if "parameters.items" not in
                       ast.unparse(cfd.node(h).ast.iter if cfd.node(h).kind == "for" else cfd.node(h).ast)) for n in rng)
    ctx.ob(rule, d.site, scalar, "" if scalar else "a scalar parameter outside the allowed ranges is accepted", role="guard:scalar-range",
           line=d.node.lineno)
    # ... and over ALL elements: the loop iterates over the flattened values themselves
    every = False
    for n in rng:
        for h, lab in cfd.branch_conditions(n.id):
            if cfd.node(h).kind == "for":
                it = cfd.node(h).ast.iter
                dv = derives(d.node, it, h)
                if dv.has_call("_flatten") and not (dv.has_call("min") or dv.has_call("max") or
                                                    any(isinstance(e, ast.Subscript) for e in ast.walk(it))):
                    every = True
    iterable = iterable and every
    ctx.ob(rule, d.site, iterable, "" if iterable else "array-valued parameters are not range-checked element by element "
           "(every value, not only extremes: allowed sets are unions of ranges)",
           role="guard:iterable-range", line=d.node.lineno)
    r = ctx.tree.func("compilers/compiler.py", "Range.__contains__")
    ok = False
    for n in walk_no_nested(r.node):
        if isinstance(n, ast.Return) and isinstance(n.value, ast.Compare) and len(n.value.ops) == 2 and \
                all(isinstance(o, ast.LtE) for o in n.value.ops):
            l, m_, u = ast.unparse(n.value.left), ast.unparse(n.value.comparators[0]), ast.unparse(n.value.comparators[1])
            ok = "self.x" in l and "self.y" in u and m_ == r.pos_params[1]
        if isinstance(n, ast.Return) and isinstance(n.value, ast.BoolOp) and isinstance(n.value.op, ast.And):
            t = ast.unparse(n.value)
            ok = "self.x" in t and "self.y" in t
    ctx.ob(rule, r.site, ok, "" if ok else "Range.__contains__ is not the two-sided test x - atol <= item <= y + atol",
           role="two-sided", line=r.node.lineno)
    rs = ctx.tree.func("compilers/compiler.py", "Ranges.__contains__")
    ok = any(isinstance(n, ast.For) and "self.ranges" in ast.unparse(n.iter) for n in walk_no_nested(rs.node)) and \
        any(isinstance(n, ast.Return) and isinstance(n.value, ast.Constant) and n.value.value is False for n in walk_no_nested(rs.node))
    ctx.ob(rule, rs.site, ok, "" if ok else "Ranges.__contains__ does not test every range / default to False", role="any-range",
           line=rs.node.lineno)

    # mode-count limits
    am = ctx.tree.func("program.py", "Program.assert_modes")
    for role, key in (("total", "modes_total"), ("pnr", "num_pnr"), ("homodyne", "num_homodyne"), ("heterodyne", "num_heterodyne")):
        g = find_guard(am, lambda t, s, key=key: isinstance(t, ast.Compare) and isinstance(t.ops[0], ast.Gt) and key in s,
                       exc="CircuitError", polarity=TRUE)
        ctx.ob(rule, am.site, g is not None, "" if g else f"the '{role}' limit of the device is no longer enforced with CircuitError",
               role=f"limit:{role}", line=am.node.lineno)
    tm = ctx.tree.func("tdm/program.py", "TDMProgram.assert_modes")
    for role, key, op in (("temporal", "temporal_max", ast.Gt), ("concurrent", "concurrent", ast.NotEq), ("spatial", "spatial", ast.NotEq)):
        g = find_guard(tm, lambda t, s, key=key, op=op: isinstance(t, ast.Compare) and isinstance(t.ops[0], op) and key in s,
                       exc="CircuitError", polarity=TRUE)
        ctx.ob(rule, tm.site, g is not None, "" if g else f"the '{role}' limit of the time-domain device is no longer enforced",
               role=f"limit:{role}", line=tm.node.lineno)
    ctx.floor(rule, 19)


def xseries_guards(ctx, rule="C12.xseries-guards"):
    ctx.explain(f"{rule}: the structural preconditions of the X-series compilers are raising CircuitError guards: even "
                "mode count, all modes measured, nothing before the S2gates, S2gates on modes (i, i + n/2), equal phases "
                "when merging, passive interferometer, bipartite and symmetric unitary; the layout comparison of "
                "Compiler.compile raises CircuitError on topology and on fixed-parameter mismatch.")
    xu = ctx.tree.func("compilers/xunitary.py", "Xunitary.compile")
    xc = ctx.tree.func("compilers/xcov.py", "Xcov.compile")
    specs_u = [
        ("even", lambda t, s: "% 2" in s), ("all-measured", lambda t, s: "len(seq[-1].reg)" in s),
        ("nothing-before-S2", lambda t, s: s.replace(" ", "") in ("A!=[]", "A")),
        ("S2-placement", lambda t, s: "issubset" in s), ("equal-phases", lambda t, s: "phi_new != phi" in s),
        ("passive", lambda t, s: "S @ S.T" in s), ("bipartite", lambda t, s: "U12" in s and "U21" in s),
        ("symmetric", lambda t, s: "U11" in s and "U22" in s),
    ]
    for role, pred in specs_u:
        g = find_guard(xu, pred, exc="CircuitError")
        ctx.ob(rule, xu.site, g is not None, "" if g else f"Xunitary lost its CircuitError guard '{role}'", role=f"guard:{role}",
               line=xu.node.lineno)
    specs_c = [
        ("even", lambda t, s: "% 2" in s), ("all-measured", lambda t, s: "len(seq[-1].reg)" in s),
        ("bipartite", lambda t, s: "B00" in s and "B11" in s), ("symmetric", lambda t, s: "B01" in s and "B10" in s),
    ]
    for role, pred in specs_c:
        g = find_guard(xc, pred, exc="CircuitError")
        ctx.ob(rule, xc.site, g is not None, "" if g else f"Xcov lost its CircuitError guard '{role}'", role=f"guard:{role}",
               line=xc.node.lineno)
    # the guards dominate the construction of the output
    for f in (xu, xc):
        cfg = cfg_of(f.node)
        rets = [i for i in cfg.ids() if isinstance(cfg.node(i).ast, ast.Return) and cfg.node(i).ast.value is not None]
        for role in ("even", "all-measured"):
            pred = dict(specs_u)[role]
            g = find_guard(f, pred, exc="CircuitError")
            ok = g is not None and all(cfg.dominates(g.id, r) for r in rets)
            ctx.ob(rule, f.site, ok, "" if ok else f"guard '{role}' does not dominate the return of the compiled sequence",
                   role=f"dominate:{role}", line=f.node.lineno)
    c = ctx.tree.func("compilers/compiler.py", "Compiler.compile")
    g = find_guard(c, lambda t, s: "is_isomorphic" in s, exc="CircuitError")
    ctx.ob(rule, c.site, g is not None, "" if g else "a topology mismatch with the device layout no longer raises CircuitError",
           role="guard:topology", line=c.node.lineno)
    g = find_guard(c, lambda t, s: "x != y" in s, exc="CircuitError")
    ctx.ob(rule, c.site, g is not None, "" if g else "a mismatch of hard-coded layout parameters no longer raises CircuitError",
           role="guard:fixed-params", line=c.node.lineno)
    nm = None
    for n in walk_no_nested(c.node):
        pass
    fm = ctx.tree.func_opt("compilers/compiler.py", "Compiler.compile.<locals>.node_match")
    ok = False
    if fm is not None:
        t = ast.unparse(fm.node)
        ok = "['name']" in t and "['modes']" in t
    ctx.ob(rule, c.site, ok, "" if ok else "layout matching no longer compares operation name and modes", role="node-match",
           line=c.node.lineno)
    ctx.floor(rule, 19)


def op_clone(ctx, rule="C12.op-clone"):
    ctx.explain(f"{rule}: where a compiler re-instantiates operations (GBS.compile merges Fock measurements, Xunitary "
                "merges S2gates), the semantic attributes other than p of the replaced operations (select, dark_counts, "
                "dagger) are carried over or tested.")
    f = ctx.tree.func("compilers/gbs.py", "GBS.compile")
    news = [n for n in walk_no_nested(f.node) if isinstance(n, ast.Call) and dotted(n.func) == "ops.MeasureFock"]
    ctx.require(news, "GBS.compile no longer creates the merged MeasureFock")
    reads = {n.attr for n in walk_no_nested(f.node) if isinstance(n, ast.Attribute)}
    for a in ("select", "dark_counts"):
        ok = a in reads or any(k.arg == a for c in news for k in c.keywords)
        ctx.ob(rule, f.site, ok, "" if ok else f"the merged MeasureFock() is created without looking at `{a}` of the "
               "measurements it replaces: post-selection / dark counts are dropped by compilation", role=f"clone:MeasureFock:{a}",
               line=news[0].lineno)
    ctx.floor(rule, 2)


def merge_params(ctx, rule="C12.merge-params"):
    ctx.explain(f"{rule}: where Xunitary.compile replaces several S2gates on one mode pair by one, every parameter it reads "
                "from the removed commands (squeezing AND phase) flows into the constructor of the merged gate.")
    f = ctx.tree.func("compilers/xunitary.py", "Xunitary.compile")
    rd = rd_of(f.node)
    reads = {}
    for nd in rd.cfg.nodes:
        st = nd.ast
        if nd.kind == "stmt" and isinstance(st, (ast.Assign, ast.AugAssign)):
            v = st.value
            if isinstance(v, ast.Subscript) and isinstance(v.slice, ast.Constant) and (dotted(v.value) or "").endswith(".op.p") \
                    and "removed" in (dotted(v.value) or ""):
                t = st.targets[0] if isinstance(st, ast.Assign) else st.target
                if isinstance(t, ast.Name):
                    reads[v.slice.value] = t.id
    ctx.require(len(reads) >= 2, "Xunitary.compile no longer reads p[0] and p[1] of the S2gates it merges")
    ctors = [n for n in walk_no_nested(f.node) if isinstance(n, ast.Call) and dotted(n.func) == "ops.S2gate" and
             any(isinstance(a, ast.Name) for a in n.args)]
    ctx.require(ctors, "the merged S2gate constructor was not found")
    c = ctors[-1]
    got = set()
    for a in c.args:
        d = derives(f.node, a)
        got |= {x.var for x in d.defs} | {a.id if isinstance(a, ast.Name) else ""}
    for k, name in sorted(reads.items()):
        ok = name in got
        ctx.ob(rule, f.site, ok, "" if ok else f"p[{k}] of the merged S2gates (variable `{name}`) does not reach the merged gate "
               f"`{ast.unparse(c)}`: the common {'phase' if k == 1 else 'squeezing'} is lost", role=f"carries:p{k}", line=c.lineno)
    ctx.floor(rule, 2)


def rules(ctx):
    merge_params(ctx)
    validation(ctx)
    xseries_guards(ctx)
    op_clone(ctx)
