"""C12 - hardware compilation conforms to the device (structural clauses: validation dominance, raising guards)."""
from __future__ import annotations

import ast

from ..cfg import cfg_of, T as TRUE, F as FALSE
from ..dataflow import derives, rd_of, resolve_local, resolve_name, return_values, expand_locals
from ..loader import dotted, walk_no_nested
from .common_guard import call_node, find_guard, raising_ifs, guard, rel, raise_facts, path_facts


def validation(ctx, rule="C12.validation"):
    ctx.explain(f"{rule}: Program.compile cannot return a program for a device with gate-parameter ranges without "
                "validate_gate_parameters; assert_modes precedes decomposition when the device lists modes; "
                "validate_gate_parameters reaches device.validate_parameters and converts a template mismatch into "
                "CircuitError; Device.validate_parameters raises on unknown names and on out-of-range values (scalar "
                "and iterable); Range.__contains__ is two-sided; the mode-count guards of Program/TDMProgram.assert_modes.")
    f = ctx.tree.func("program.py", "Program.compile")
    cfg = cfg_of(f.node)
    vid, vcall = call_node(f, "validate_gate_parameters")
    ok = False
    if vid is not None:
        conds = cfg.branch_conditions(vid)
        tests = [ast.unparse(cfg.node(h).ast) for h, lab in conds if lab == TRUE and cfg.node(h).kind == "if"]
        # must be conditional on the device having gate parameters only (plus the raising layout guard)
        only = all("gate_parameters" in t or "device" in t for t in tests) and any("gate_parameters" in t for t in tests)
        # every return of `compiled` passes the `if device and device.gate_parameters` test node
        gate_if = [h for h, lab in conds if "gate_parameters" in ast.unparse(cfg.node(h).ast)]
        # the compiled program is what validate_gate_parameters receives; returns of that object
        cname = dotted(vcall.args[0]) if vcall.args else None
        rets = [i for i in cfg.ids() if isinstance(cfg.node(i).ast, ast.Return) and cfg.node(i).ast.value is not None
                and dotted(resolve_name(f.node, cfg.node(i).ast.value, at=i)) == cname]
        ok = only and bool(gate_if) and bool(rets) and all(cfg.dominates(gate_if[0], r) for r in rets)
        # and no return sits inside the gate branch ahead of the validation
        for r in rets:
            if (gate_if[0], TRUE) in cfg.branch_conditions(r) and not cfg.dominates(vid, r):
                ok = False
        arg_ok = cname is not None and any(isinstance(dd.value, ast.Call) and dotted(dd.value.func) == "self._linked_copy"
                                           for dd in rd_of(f.node).reaching(cname, vid))
        ok = ok and bool(arg_ok)
    ctx.ob(rule, f.site, ok, "" if ok else "a compiled program can be returned for a device with allowed gate-parameter "
           "ranges without pu.validate_gate_parameters(compiled)", role="validate-before-return", line=f.node.lineno)
    aid, _ = call_node(f, "self.assert_modes")
    did, _ = call_node(f, "compiler.decompose")
    ok = aid is not None and did is not None and any("modes" in ast.unparse(cfg.node(h).ast) and lab == TRUE
                                                     for h, lab in cfg.branch_conditions(aid)) \
        and aid in cfg.reachable([cfg.entry], exc=False) and did in cfg.reachable([aid], exc=False) \
        and aid not in cfg.reachable([did], exc=False)
    ctx.ob(rule, f.site, ok, "" if ok else "assert_modes(device) is not executed before decomposition when device.modes is given",
           role="assert-modes-first", line=f.node.lineno)
    g = find_guard(f, lambda t, s: "device is None" in s and "compiler is None" in s, exc="ValueError")
    ctx.ob(rule, f.site, g is not None, "" if g else "compile() without device and compiler no longer raises", role="guard:no-target",
           line=f.node.lineno)
    g = find_guard(f, lambda t, s: "layout" in s, exc="ValueError", dominates=vid)
    ctx.ob(rule, f.site, g is not None, "" if g else "gate parameters are 'validated' without a device layout", role="guard:no-layout",
           line=f.node.lineno)
    uid, _ = call_node(f, "compiler.update_params")
    cid, _ = call_node(f, "compiler.compile")
    ok = uid is not None and cid is not None and cfg.dominates(cid, uid) and (vid is None or uid in cfg.reachable([cfg.entry]) and
                                                                              vid in cfg.reachable([uid], exc=False))
    ctx.ob(rule, f.site, ok, "" if ok else "compiler.update_params must run after compiler.compile and before validation",
           role="update-before-validate", line=f.node.lineno)

    # validate_gate_parameters
    v = ctx.tree.func("program_utils.py", "validate_gate_parameters")
    cv = cfg_of(v.node)
    did2, dcall = call_node(v, "device.validate_parameters")
    ok = did2 is not None
    if ok:
        rets = [i for i in cv.ids() if isinstance(cv.node(i).ast, ast.Return)]
        ok = bool(rets) and all(cv.dominates(did2, r) for r in rets)
        ok = ok and any(k.arg is None for k in dcall.keywords) and \
            derives(v.node, [k for k in dcall.keywords if k.arg is None][0].value).has_call("match_template")
    ctx.ob(rule, v.site, ok, "" if ok else "validate_gate_parameters can return without device.validate_parameters("
           "**parameters matched from the layout template)", role="reaches-range-check", line=v.node.lineno)
    hs = [h for n in walk_no_nested(v.node) if isinstance(n, ast.Try) for h in n.handlers]
    ok = any(dotted(h.type) == "TemplateError" and any(isinstance(x, ast.Raise) and isinstance(x.exc, ast.Call) and
             dotted(x.exc.func) == "CircuitError" for x in ast.walk(h)) for h in hs if h.type is not None)
    ctx.ob(rule, v.site, ok, "" if ok else "a layout/template mismatch is no longer reported as CircuitError", role="template-error",
           line=v.node.lineno)

    # Device.validate_parameters
    d = ctx.tree.func("device.py", "Device.validate_parameters")
    g1 = find_guard(d, lambda t, s: isinstance(t, ast.Compare) and isinstance(t.ops[0], ast.NotIn) and "gate_parameters" in s
                    and "[" not in s, exc="ValueError")
    ctx.ob(rule, d.site, g1 is not None, "" if g1 else "unknown parameter names are accepted", role="guard:unknown-name", line=d.node.lineno)
    rng = [n for n, lab, e in raising_ifs(d) if isinstance(n.ast, ast.Compare) and isinstance(n.ast.ops[0], ast.NotIn)
           and "gate_parameters[" in ast.unparse(n.ast) and (e or "").endswith("ValueError")]
    cfd = cfg_of(d.node)
    scalar = any(not any(cfd.node(h).kind == "for" and "_flatten" in ast.unparse(cfd.node(h).ast.iter)
                         for h, lab in cfd.branch_conditions(n.id)) for n in rng)
    iterable = any(any(cfd.node(h).kind == "for" for h, lab in cfd.branch_conditions(n.id) if "parameters.items" not in
                       ast.unparse(cfd.node(h).ast.iter if cfd.node(h).kind == "for" else cfd.node(h).ast)) for n in rng)
    ctx.ob(rule, d.site, scalar, "" if scalar else "a scalar parameter outside the allowed ranges is accepted", role="guard:scalar-range",
           line=d.node.lineno)
    # ... and over ALL elements: the loop iterates over the flattened values themselves
    every = False
    for n in rng:
        for h, lab in cfd.branch_conditions(n.id):
            if cfd.node(h).kind == "for":
                it = cfd.node(h).ast.iter
                dv = derives(d.node, it, h)
                if dv.has_call("_flatten") and not (dv.has_call("min") or dv.has_call("max") or
                                                    any(isinstance(e, ast.Subscript) for e in ast.walk(it))):
                    every = True
    iterable = iterable and every
    ctx.ob(rule, d.site, iterable, "" if iterable else "array-valued parameters are not range-checked element by element "
           "(every value, not only extremes: allowed sets are unions of ranges)",
           role="guard:iterable-range", line=d.node.lineno)
    r = ctx.tree.func("compilers/compiler.py", "Range.__contains__")
    ok = False
    for n, v in return_values(r.node):
        v = expand_locals(r.node, v)
        if isinstance(v, ast.Compare) and len(v.ops) == 2 and all(isinstance(o, (ast.LtE, ast.Lt)) for o in v.ops):
            l, m_, u = ast.unparse(v.left), ast.unparse(v.comparators[0]), ast.unparse(v.comparators[1])
            ok = "self.x" in l and "self.y" in u and m_ == r.pos_params[1]
        if isinstance(v, ast.Compare) and len(v.ops) == 2 and all(isinstance(o, (ast.GtE, ast.Gt)) for o in v.ops):
            l, m_, u = ast.unparse(v.left), ast.unparse(v.comparators[0]), ast.unparse(v.comparators[1])
            ok = "self.y" in l and "self.x" in u and m_ == r.pos_params[1]
        if isinstance(v, ast.BoolOp) and isinstance(v.op, ast.And):
            t = ast.unparse(v)
            ok = "self.x" in t and "self.y" in t
    ctx.ob(rule, r.site, ok, "" if ok else "Range.__contains__ is not the two-sided test x - atol <= item <= y + atol",
           role="two-sided", line=r.node.lineno)
    rs = ctx.tree.func("compilers/compiler.py", "Ranges.__contains__")
    ok = any(isinstance(n, ast.For) and "self.ranges" in ast.unparse(n.iter) for n in walk_no_nested(rs.node)) and \
        any(isinstance(n, ast.Return) and isinstance(n.value, ast.Constant) and n.value.value is False for n in walk_no_nested(rs.node))
    ctx.ob(rule, rs.site, ok, "" if ok else "Ranges.__contains__ does not test every range / default to False", role="any-range",
           line=rs.node.lineno)

    # mode-count limits
    am = ctx.tree.func("program.py", "Program.assert_modes")
    def exceeds(key):
        # raises when <something> > <limit named key>
        def pred(a, v, raw, n):
            r_ = rel(a, v)
            return r_ is not None and r_[0] == ">" and key in ast.unparse(r_[2])
        return pred

    def differs(key):
        def pred(a, v, raw, n):
            r_ = rel(a, v)
            return r_ is not None and r_[0] == "!=" and key in ast.unparse(a)
        return pred

    for role, key in (("total", "device.modes"), ("pnr", "'pnr_max'"), ("homodyne", "'homodyne_max'"), ("heterodyne", "'heterodyne_max'")):
        g = guard(am, exceeds(key), exc="CircuitError")
        ctx.ob(rule, am.site, g is not None, "" if g else f"the '{role}' limit of the device is no longer enforced with CircuitError",
               role=f"limit:{role}", line=am.node.lineno)
    tm = ctx.tree.func("tdm/program.py", "TDMProgram.assert_modes")
    for role, key, pr in (("temporal", "'temporal_max'", exceeds), ("concurrent", "'concurrent'", differs), ("spatial", "'spatial'", differs)):
        g = guard(tm, pr(key), exc="CircuitError")
        ctx.ob(rule, tm.site, g is not None, "" if g else f"the '{role}' limit of the time-domain device is no longer enforced",
               role=f"limit:{role}", line=tm.node.lineno)
    ctx.floor(rule, 19)


def xseries_guards(ctx, rule="C12.xseries-guards"):
    ctx.explain(f"{rule}: the structural preconditions of the X-series compilers are raising CircuitError guards: even "
                "mode count, all modes measured, nothing before the S2gates, S2gates on modes (i, i + n/2), equal phases "
                "when merging, passive interferometer, bipartite and symmetric unitary; the layout comparison of "
                "Compiler.compile raises CircuitError on topology and on fixed-parameter mismatch.")
    xu = ctx.tree.func("compilers/xunitary.py", "Xunitary.compile")
    xc = ctx.tree.func("compilers/xcov.py", "Xcov.compile")
    def txt(e):
        return ast.unparse(e).replace(" ", "")

    def block(e):
        """'diag' / 'off' for M[:h, :h], M[h:, h:] / M[:h, h:], M[h:, :h]"""
        if isinstance(e, ast.Subscript) and isinstance(e.slice, ast.Tuple) and len(e.slice.elts) == 2 and \
                all(isinstance(x, ast.Slice) for x in e.slice.elts):
            kinds = []
            for x in e.slice.elts:
                if x.lower is None and x.upper is not None:
                    kinds.append("lo")
                elif x.lower is not None and x.upper is None:
                    kinds.append("hi")
                else:
                    return None
            return "diag" if kinds[0] == kinds[1] else "off"
        return None

    def allclose(a):
        return a if isinstance(a, ast.Call) and (dotted(a.func) or "").endswith("allclose") and len(a.args) >= 2 else None

    def p_even(a, v, raw, n):
        return any(isinstance(x, ast.BinOp) and isinstance(x.op, ast.Mod) and isinstance(x.right, ast.Constant) and
                   x.right.value == 2 for x in ast.walk(a))

    def p_all_measured(a, v, raw, n):
        r_ = rel(a, v)
        return r_ is not None and r_[0] in ("!=", ">") and any(
            isinstance(x, ast.Call) and dotted(x.func) == "len" and x.args and isinstance(x.args[0], ast.Attribute) and
            x.args[0].attr == "reg" and isinstance(x.args[0].value, ast.Subscript) and txt(x.args[0].value.slice) == "-1"
            for x in ast.walk(a))

    def from_group(f, e, idx, at):
        d = derives(f.node, e, at)
        return any(dd.kind == "unpack" and dd.index and dd.index[0] == idx and isinstance(dd.value, ast.Call) and
                   dotted(dd.value.func) == "group_operations" for dd in d.defs)

    def p_before(a, v, raw, n):
        # raises when the part in front of the S2gates is non-empty
        if isinstance(raw, ast.Name):
            return v and from_group(xu, raw, 0, n.id)
        r_ = rel(raw, v)
        return r_ is not None and r_[0] in ("!=", ">") and from_group(xu, raw, 0, n.id)

    def p_place(a, v, raw, n):
        return not v and isinstance(a, ast.Call) and isinstance(a.func, ast.Attribute) and a.func.attr == "issubset" or \
            (rel(a, v) or ("",))[0] in (">",) and False

    def p_phase(a, v, raw, n):
        r_ = rel(raw, v)
        if r_ is None or r_[0] != "!=":
            return False
        d = derives(xu.node, raw, n.id)
        return any(isinstance(x, ast.Subscript) and isinstance(x.slice, ast.Constant) and x.slice.value == 1 and
                   (dotted(x.value) or "").endswith(".op.p") for x in d.exprs)

    def p_passive(a, v, raw, n):
        c = allclose(a)
        if c is None or v:
            return False
        m = c.args[0]
        return isinstance(m, ast.BinOp) and isinstance(m.op, ast.MatMult) and isinstance(m.right, ast.Attribute) and \
            m.right.attr == "T" and txt(m.right.value) == txt(m.left)

    def blocks_zero(f, kind):
        """distinct blocks of the given kind whose vanishing is enforced by a CircuitError guard"""
        got = set()
        for n, e, fs in raise_facts(f):
            if not (e or "").endswith("CircuitError"):
                continue
            for a, v in fs:
                c = allclose(expand_locals(f.node, a))
                if c is not None and not v and block(c.args[0]) == kind and isinstance(c.args[1], ast.Constant) and c.args[1].value == 0:
                    got.add(txt(c.args[0]))
        return got

    def blocks_equal(f, kind):
        for n, e, fs in raise_facts(f):
            if not (e or "").endswith("CircuitError"):
                continue
            for a, v in fs:
                c = allclose(expand_locals(f.node, a))
                if c is not None and not v and block(c.args[0]) == kind and block(c.args[1]) == kind and txt(c.args[0]) != txt(c.args[1]):
                    return True
        return False

    specs_u = [("even", p_even), ("all-measured", p_all_measured), ("nothing-before-S2", p_before),
               ("S2-placement", p_place), ("equal-phases", p_phase), ("passive", p_passive)]
    for role, pred in specs_u:
        g = guard(xu, pred, exc="CircuitError", conj=(role == "equal-phases"))
        ctx.ob(rule, xu.site, g is not None, "" if g else f"Xunitary lost its CircuitError guard '{role}'", role=f"guard:{role}",
               line=xu.node.lineno)
    ok = len(blocks_zero(xu, "off")) >= 2
    ctx.ob(rule, xu.site, ok, "" if ok else "Xunitary lost its CircuitError guard 'bipartite' (both off-diagonal blocks of U "
           "must vanish)", role="guard:bipartite", line=xu.node.lineno)
    ok = blocks_equal(xu, "diag")
    ctx.ob(rule, xu.site, ok, "" if ok else "Xunitary lost its CircuitError guard 'symmetric' (the diagonal blocks of U must agree)",
           role="guard:symmetric", line=xu.node.lineno)
    for role, pred in (("even", p_even), ("all-measured", p_all_measured)):
        g = guard(xc, pred, exc="CircuitError")
        ctx.ob(rule, xc.site, g is not None, "" if g else f"Xcov lost its CircuitError guard '{role}'", role=f"guard:{role}",
               line=xc.node.lineno)
    ok = len(blocks_zero(xc, "diag")) >= 2
    ctx.ob(rule, xc.site, ok, "" if ok else "Xcov lost its CircuitError guard 'bipartite' (both diagonal blocks of the adjacency "
           "matrix must vanish)", role="guard:bipartite", line=xc.node.lineno)
    ok = blocks_equal(xc, "off")
    ctx.ob(rule, xc.site, ok, "" if ok else "Xcov lost its CircuitError guard 'symmetric' (the off-diagonal blocks must agree)",
           role="guard:symmetric", line=xc.node.lineno)
    # the guards dominate the construction of the output
    for f in (xu, xc):
        cfg = cfg_of(f.node)
        rets = [i for i in cfg.ids() if isinstance(cfg.node(i).ast, ast.Return) and cfg.node(i).ast.value is not None]
        for role, pred in (("even", p_even), ("all-measured", p_all_measured)):
            g = guard(f, pred, exc="CircuitError")
            ok = g is not None and all(cfg.dominates(g.id, r) for r in rets)
            ctx.ob(rule, f.site, ok, "" if ok else f"guard '{role}' does not dominate the return of the compiled sequence",
                   role=f"dominate:{role}", line=f.node.lineno)
    c = ctx.tree.func("compilers/compiler.py", "Compiler.compile")
    g = guard(c, lambda a, v, raw, n: not v and isinstance(a, ast.Call) and isinstance(a.func, ast.Attribute) and
              a.func.attr == "is_isomorphic", exc="CircuitError")
    ctx.ob(rule, c.site, g is not None, "" if g else "a topology mismatch with the device layout no longer raises CircuitError",
           role="guard:topology", line=c.node.lineno)
    def p_fixed(a, v, raw, n):
        # raises when two corresponding hard-coded arguments differ (possibly qualified by a symbolic-parameter exemption)
        cmps = [x for x in ast.walk(raw) if isinstance(x, ast.Compare) and isinstance(x.ops[0], (ast.NotEq, ast.Eq))]
        return bool(cmps) and "args" in derives(c.node, raw, n.id).consts
    g = guard(c, p_fixed, exc="CircuitError", conj=True)
    if g is not None:
        # every pair of corresponding arguments is compared: the loop over the argument pairs is left only by the raise
        lp = getattr(g.stmt, "parent", None)
        while lp is not None and not isinstance(lp, (ast.For, ast.While, ast.FunctionDef)):
            lp = getattr(lp, "parent", None)
        early = [x for x in ast.walk(lp) if isinstance(x, (ast.Break, ast.Return))] if isinstance(lp, (ast.For, ast.While)) else []
        # (a break / return that belongs to a nested loop of its own does not leave this one - there is none today)
        ctx.ob(rule, c.site, not early, "" if not early else "the loop that compares the hard-coded layout parameters is left early "
               f"(`{type(early[0]).__name__.lower()}` at line {early[0].lineno}): the remaining arguments of the gate are never compared",
               role="fixed-params-all-pairs", line=(early[0].lineno if early else c.node.lineno))
    ctx.ob(rule, c.site, g is not None, "" if g else "a mismatch of hard-coded layout parameters no longer raises CircuitError",
           role="guard:fixed-params", line=c.node.lineno)
    nm = None
    for n in walk_no_nested(c.node):
        pass
    fm = ctx.tree.func_opt("compilers/compiler.py", "Compiler.compile.<locals>.node_match")
    ok = False
    if fm is not None:
        t = ast.unparse(fm.node)
        ok = "['name']" in t and "['modes']" in t
    ctx.ob(rule, c.site, ok, "" if ok else "layout matching no longer compares operation name and modes", role="node-match",
           line=c.node.lineno)
    ctx.floor(rule, 19)


def fresh_decompose(ctx, rule="C12.validation"):
    ctx.explain(f"{rule}: (fresh list) Compiler.decompose and every override return a list built in the call, never the sequence "
                "they were handed: compile() of several compilers edits that list in place (insert / extend / pop), and the "
                "sequence handed in is the circuit of the user's program.")
    n = 0
    for cls in ctx.tree.all_classes():
        if not cls.module.rel.startswith("compilers/"):
            continue
        f = cls.methods.get("decompose")
        if f is None or len(f.pos_params) < 2:
            continue
        n += 1
        seqp = f.pos_params[1]
        bad = None
        rd = rd_of(f.node)
        for r, v in return_values(f.node):
            v2 = resolve_name(f.node, r.value)
            if isinstance(v2, ast.Name) and v2.id == seqp:
                ids = rd.cfg.find(r)
                if ids and all(d.kind == "param" for d in rd.reaching(seqp, ids[0])):
                    bad = r
        ctx.ob(rule, f.site, bad is None, "" if bad is None else f"`{ast.unparse(bad)[:40]}` hands back the caller's own sequence: "
               "in-place edits of the compiled sequence change the source program", role="decompose-returns-new-list",
               line=(bad.lineno if bad else f.node.lineno))
    ctx.require(n >= 1, "no Compiler.decompose found")


def op_clone(ctx, rule="C12.op-clone"):
    ctx.explain(f"{rule}: where a compiler re-instantiates operations (GBS.compile merges Fock measurements, Xunitary "
                "merges S2gates), the semantic attributes other than p of the replaced operations (select, dark_counts, "
                "dagger) are carried over or tested.")
    f = ctx.tree.func("compilers/gbs.py", "GBS.compile")
    news = [n for n in walk_no_nested(f.node) if isinstance(n, ast.Call) and dotted(n.func) == "ops.MeasureFock"]
    ctx.require(news, "GBS.compile no longer creates the merged MeasureFock")
    reads = {n.attr for n in walk_no_nested(f.node) if isinstance(n, ast.Attribute)}
    for a in ("select", "dark_counts"):
        ok = a in reads or any(ctx.tree.arg_of(c, a) is not None for c in news)
        ctx.ob(rule, f.site, ok, "" if ok else f"the merged MeasureFock() is created without looking at `{a}` of the "
               "measurements it replaces: post-selection / dark counts are dropped by compilation", role=f"clone:MeasureFock:{a}",
               line=news[0].lineno)
    ctx.floor(rule, 2)


def merge_params(ctx, rule="C12.merge-params"):
    ctx.explain(f"{rule}: where Xunitary.compile replaces several S2gates on one mode pair by one, every parameter it reads "
                "from the removed commands (squeezing AND phase) flows into the constructor of the merged gate.")
    f = ctx.tree.func("compilers/xunitary.py", "Xunitary.compile")
    rd = rd_of(f.node)
    reads = {}
    for nd in rd.cfg.nodes:
        st = nd.ast
        if nd.kind == "stmt" and isinstance(st, (ast.Assign, ast.AugAssign)):
            v = st.value
            if isinstance(v, ast.Subscript) and isinstance(v.slice, ast.Constant) and (dotted(v.value) or "").endswith(".op.p") \
                    and any(isinstance(dd.value, ast.Call) and isinstance(dd.value.func, ast.Attribute) and dd.value.func.attr == "pop"
                            for dd in rd.reaching((dotted(v.value) or "?").split(".")[0], nd.id)):
                t = st.targets[0] if isinstance(st, ast.Assign) else st.target
                if isinstance(t, ast.Name):
                    reads[v.slice.value] = t.id
    ctx.require(len(reads) >= 2, "Xunitary.compile no longer reads p[0] and p[1] of the S2gates it merges")
    ctors = [n for n in walk_no_nested(f.node) if isinstance(n, ast.Call) and dotted(n.func) == "ops.S2gate" and
             any(isinstance(a, ast.Name) for a in n.args)]
    ctx.require(ctors, "the merged S2gate constructor was not found")
    c = ctors[-1]
    got = set()
    for a in c.args:
        d = derives(f.node, a)
        got |= {x.var for x in d.defs} | {a.id if isinstance(a, ast.Name) else ""}
    for k, name in sorted(reads.items()):
        ok = name in got
        ctx.ob(rule, f.site, ok, "" if ok else f"p[{k}] of the merged S2gates (variable `{name}`) does not reach the merged gate "
               f"`{ast.unparse(c)}`: the common {'phase' if k == 1 else 'squeezing'} is lost", role=f"carries:p{k}", line=c.lineno)
    ctx.floor(rule, 2)


def rules(ctx):
    merge_params(ctx)
    validation(ctx)
    fresh_decompose(ctx)
    xseries_guards(ctx)
    op_clone(ctx)
    from . import common_alias as _CA
    _CA.shallow_copy_mutation(ctx, "C12.shallow-copy", ("compilers/xunitary.py", "compilers/xcov.py", "compilers/xstrict.py", "compilers/gbs.py", "compilers/tdm.py", "compilers/compiler.py", "tdm/utils.py"))
    # the X-series compilers are built on GBS.compile and group_operations
    from . import c04 as _c04
    from . import common_backend as _Bk
    nu = _Bk.unitary_from_symplectic(ctx, "C12.block-sign", ("compilers/xunitary.py", "compilers/xcov.py", "compilers/xstrict.py"))
    ctx.note(f"C12.block-sign: {nu} unitary-from-symplectic extraction(s) in the X-series compilers")
    ctx.shared(_c04.gbs_guards)
    ctx.shared(_c04.partition)
    ctx.shared(_c04.register_index)
