"""parameter flow (generic form): every declared parameter of a function is read somewhere in its body.

The rule instances are frozen from the pinned tree (sfa/rules/param_inventory.json, written once by
tools/gen_param_inventory.py and committed; never written by a check): for a function that exists in the inventory the set
of parameters it does not read must be a subset of the set recorded there, each recorded entry carrying its reason (abstract
stub, signature kept for an interface, callback signature dictated by a library).  A function that is not in the inventory
(new code) is exempt where the structure explains an unread parameter - it is a stub, or it keeps the signature of a method
of the same name in a base / derived class.  A parameter that stops being read is how 'the result no longer responds to
its argument' looks in the code: `modes` ignored by an observable, `select` ignored by a measurement, a register argument
replaced by a cached one."""
from __future__ import annotations

import ast
import json
import os

HERE = os.path.dirname(os.path.abspath(__file__))


def _is_stub(node) -> bool:
    body = [s for s in node.body if not (isinstance(s, ast.Expr) and isinstance(s.value, ast.Constant))]
    return all(isinstance(s, (ast.Raise, ast.Pass)) or
               (isinstance(s, ast.Return) and (s.value is None or isinstance(s.value, ast.Constant))) for s in body)


def unread_params(f):
    node = f.node
    loads = {n.id for n in ast.walk(node) if isinstance(n, ast.Name) and isinstance(n.ctx, (ast.Load, ast.Del))}
    a = node.args
    # (a leading underscore is the conventional spelling of 'deliberately unused')
    return [x.arg for x in a.posonlyargs + a.args + a.kwonlyargs if x.arg not in loads and x.arg not in ("self", "cls")
            and not x.arg.startswith("_")]


def conforming(tree, f) -> bool:
    if f.cls is None:
        return False
    for c in tree.all_classes():
        if c is not f.cls and f.name in c.methods and (c in f.cls.mro() or f.cls in c.mro()):
            return True
    return False


def load_inventory():
    with open(os.path.join(HERE, "param_inventory.json")) as fh:
        return json.load(fh)


# (function, parameter) pairs that may stop being read without changing any result, with the reason
HEURISTIC_EXEMPT = {
    ("compilers/gaussian_merge.py::GaussianMerge.valid_prepend_op_addition", "pre"):
        "a pre-filter of the merge candidates: since 5a1b52e the convexity pruning (remove_bypassing_operations) decides which candidates "
        "are valid; a coarser veto here only merges less (a seeded change of exactly this kind stopped manifesting with that repair)",
}


def param_used(ctx, rule, files):
    ctx.explain(f"{rule}: every parameter of every function in the property's anchored files is read in the function's body, "
                "except the (function, parameter) pairs frozen with their reason in sfa/rules/param_inventory.json; for "
                "functions that are new, stubs and signature-conforming overrides are exempt.")
    inv = load_inventory()
    known_funcs = set(inv["functions"])
    frozen = inv["unused"]
    rels = {x[len("strawberryfields/"):] if x.startswith("strawberryfields/") else x for x in files}
    n = 0
    for f in ctx.tree.all_functions():
        if f.module.rel not in rels:
            continue
        fid = f"{f.module.rel}::{f.qualname}"
        un = unread_params(f)
        n += 1
        bad = []
        for p in un:
            if f"{fid}::{p}" in frozen:
                continue
            if (fid, p) in HEURISTIC_EXEMPT:
                ctx.note(f"{rule}: {fid}::{p} exempt: {HEURISTIC_EXEMPT[(fid, p)]}")
                continue
            if fid not in known_funcs and (_is_stub(f.node) or conforming(ctx.tree, f)):
                continue
            bad.append(p)
        ctx.ob(rule, f.site, not bad, "" if not bad else f"parameter(s) {bad} of {f.qualname} are never read: the result no longer "
               "depends on an argument the caller supplies", role="reads-params" + ("" if not bad else ":" + ",".join(bad)),
               line=f.node.lineno)
    return n


# (caller, callee, parameter) triples where an option of the same name is deliberately / harmlessly not passed on today
FORWARD_EXEMPT = {
    ("utils/states.py::displaced_squeezed_state", "coherent_state", "hbar"):
        "the call fixes basis='fock'; coherent_state uses hbar in its 'gaussian' branch only",
    ("backends/gaussianbackend/gaussiancircuit.py::GaussianModes.fidelity_vacuum", "GaussianModes.fidelity_coherent", "modes"):
        "latent: no caller in the package supplies `modes` to GaussianModes.fidelity_vacuum (is_vacuum calls it without arguments), so "
        "the missing forwarding cannot be observed through the public API",
}


def option_forwarding(ctx, rule, files):
    """an option the caller accepts under the same name as an optional parameter of the internal function it delegates to is
    passed on: otherwise the caller's option silently stops applying to that part of the work (tolerances of a sub-step, the
    node-selection rule of a recursive call)"""
    import ast as _ast
    from ..loader import dotted, walk_no_nested
    ctx.explain(f"{rule}: where a function of the property's anchored files calls a function of the package (module-level function with "
                "a unique name, or a method resolved through the class of `self`) that has an OPTIONAL parameter of the same name as one "
                "of the caller's own parameters, the call binds it (by position or keyword). Two sites on the pinned tree do not and "
                "are frozen with their reasons.")
    rels = {x[len("strawberryfields/"):] if x.startswith("strawberryfields/") else x for x in files}
    by_name = {}
    for g in ctx.tree.all_functions():
        if g.cls is None and "<locals>" not in g.qualname:
            by_name.setdefault(g.name, []).append(g)

    def optional(g):
        a = g.node.args
        pos = a.args
        return {p.arg for p in pos[len(pos) - len(a.defaults):]} | {p.arg for p, dv in zip(a.kwonlyargs, a.kw_defaults) if dv is not None}

    n = 0
    for f in ctx.tree.all_functions():
        if f.module.rel not in rels:
            continue
        fp = set(f.params) - {"self", "cls"}
        if not fp:
            continue
        for c in walk_no_nested(f.node):
            if not isinstance(c, _ast.Call):
                continue
            nm = dotted(c.func)
            g = None
            if nm and "." not in nm and nm in f.module.functions and f.module.functions[nm].cls is None:
                g = f.module.functions[nm]  # a function of the same module (incl. recursion)
            elif nm and "." not in nm and len(by_name.get(nm, ())) == 1 and nm not in f.params:
                g = by_name[nm][0]
            elif nm and nm.startswith("self.") and nm.count(".") == 1 and f.cls is not None:
                g = f.cls.lookup(nm.split(".")[1])
            if g is None:
                continue
            if any(k.arg is None for k in c.keywords) or any(isinstance(a, _ast.Starred) for a in c.args):
                continue
            gpos = [p for p in g.params if p not in ("self", "cls")]
            bound = {k.arg for k in c.keywords if k.arg} | set(gpos[:len(c.args)])
            cand = fp & optional(g)
            if not cand:
                continue
            n += 1
            miss = sorted(p for p in cand - bound
                          if (f"{f.module.rel}::{f.qualname}", g.qualname, p) not in FORWARD_EXEMPT)
            ctx.ob(rule, f.site, not miss, "" if not miss else f"`{_ast.unparse(c)[:60]}` does not pass on the caller's own option(s) {miss}: "
                   f"{g.qualname} falls back to its default there", role=f"forwards:{g.name}" + ("" if not miss else ":" + ",".join(miss)),
                   line=c.lineno)
    return n


# attributes that are easily confused with each other (same object, similar name, different meaning)
CONFUSABLE = [
    ("num_subsystems", "init_num_subsystems"),
    ("reg_refs", "init_reg_refs"),
    # all subsystems that ever existed (reg_refs) vs. the live ones (register / num_subsystems)
    ("reg_refs", "register", "num_subsystems"),
    ("unused_indices", "init_unused_indices"),
    ("circuit", "rolled_circuit", "unrolled_circuit", "space_unrolled_circuit"),
    ("timebins", "concurr_modes", "spatial_modes", "N"),
    ("run_options", "backend_options"),
    ("samples", "samples_dict", "ancillae_samples_dict", "all_samples"),
    ("select", "dark_counts"),
    ("val", "default"),
    ("_hbar", "hbar"),
    ("nmat", "mmat"),
    ("means", "covs", "weights"),
]


def attr_counts(f):
    import ast as _ast
    names = {a for g in CONFUSABLE for a in g}
    out = {}
    for n in _ast.walk(f.node):
        if isinstance(n, _ast.Attribute) and n.attr in names and isinstance(n.ctx, _ast.Load):
            out[n.attr] = out.get(n.attr, 0) + 1
    return out


def attribute_swap(ctx, rule, files):
    """wrong-but-similar attribute: relative to the pinned tree (frozen per function in param_inventory.json), a function reads one
    attribute of a confusable group LESS often and a sibling of the group MORE often"""
    ctx.explain(f"{rule}: attributes that are easily confused (num_subsystems / init_num_subsystems, reg_refs / init_reg_refs, circuit / "
                "rolled_circuit / unrolled_circuit / space_unrolled_circuit, run_options / backend_options, samples / samples_dict, "
                "select / dark_counts, ...): no function of the property's anchored files reads one member of such a group less often "
                "and another member more often than on the pinned tree (counts frozen per function). Only this swap pattern is "
                "reported; adding or removing reads is not.")
    inv = load_inventory().get("attr_reads", {})
    rels = {x[len("strawberryfields/"):] if x.startswith("strawberryfields/") else x for x in files}
    n = 0
    for f in ctx.tree.all_functions():
        if f.module.rel not in rels:
            continue
        fid = f"{f.module.rel}::{f.qualname}"
        then = inv.get(fid)
        if then is None:
            continue
        now = attr_counts(f)
        if not then and not now:
            continue
        n += 1
        swaps = []
        for g in CONFUSABLE:
            less = [a for a in g if now.get(a, 0) < then.get(a, 0)]
            more = [b for b in g if now.get(b, 0) > then.get(b, 0)]
            if less and more:
                swaps.append((less[0], more[0]))
        ctx.ob(rule, f.site, not swaps, "" if not swaps else
               f"{f.qualname} now reads `.{swaps[0][1]}` where the pinned tree read `.{swaps[0][0]}` (reads of `.{swaps[0][0]}`: "
               f"{then.get(swaps[0][0], 0)} -> {now.get(swaps[0][0], 0)}, of `.{swaps[0][1]}`: {then.get(swaps[0][1], 0)} -> "
               f"{now.get(swaps[0][1], 0)})", role="attr-swap" + ("" if not swaps else f":{swaps[0][0]}>{swaps[0][1]}"),
               line=f.node.lineno)
    return n
