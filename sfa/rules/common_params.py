"""parameter flow (generic form): every declared parameter of a function is read somewhere in its body.

The rule instances are frozen from the pinned tree (sfa/rules/param_inventory.json, written once by
tools/gen_param_inventory.py and committed; never written by a check): for a function that exists in the inventory the set
of parameters it does not read must be a subset of the set recorded there, each recorded entry carrying its reason (abstract
stub, signature kept for an interface, callback signature dictated by a library).  A function that is not in the inventory
(new code) is exempt where the structure explains an unread parameter - it is a stub, or it keeps the signature of a method
of the same name in a base / derived class.  A parameter that stops being read is how 'the result no longer responds to
its argument' looks in the code: `modes` ignored by an observable, `select` ignored by a measurement, a register argument
replaced by a cached one."""
from __future__ import annotations

import ast
import json
import os

HERE = os.path.dirname(os.path.abspath(__file__))


def _is_stub(node) -> bool:
    body = [s for s in node.body if not (isinstance(s, ast.Expr) and isinstance(s.value, ast.Constant))]
    return all(isinstance(s, (ast.Raise, ast.Pass)) or
               (isinstance(s, ast.Return) and (s.value is None or isinstance(s.value, ast.Constant))) for s in body)


def unread_params(f):
    node = f.node
    loads = {n.id for n in ast.walk(node) if isinstance(n, ast.Name) and isinstance(n.ctx, (ast.Load, ast.Del))}
    a = node.args
    return [x.arg for x in a.posonlyargs + a.args + a.kwonlyargs if x.arg not in loads and x.arg not in ("self", "cls")]


def conforming(tree, f) -> bool:
    if f.cls is None:
        return False
    for c in tree.all_classes():
        if c is not f.cls and f.name in c.methods and (c in f.cls.mro() or f.cls in c.mro()):
            return True
    return False


def load_inventory():
    with open(os.path.join(HERE, "param_inventory.json")) as fh:
        return json.load(fh)


def param_used(ctx, rule, files):
    ctx.explain(f"{rule}: every parameter of every function in the property's anchored files is read in the function's body, "
                "except the (function, parameter) pairs frozen with their reason in sfa/rules/param_inventory.json; for "
                "functions that are new, stubs and signature-conforming overrides are exempt.")
    inv = load_inventory()
    known_funcs = set(inv["functions"])
    frozen = inv["unused"]
    rels = {x[len("strawberryfields/"):] if x.startswith("strawberryfields/") else x for x in files}
    n = 0
    for f in ctx.tree.all_functions():
        if f.module.rel not in rels:
            continue
        fid = f"{f.module.rel}::{f.qualname}"
        un = unread_params(f)
        n += 1
        bad = []
        for p in un:
            if f"{fid}::{p}" in frozen:
                continue
            if fid not in known_funcs and (_is_stub(f.node) or conforming(ctx.tree, f)):
                continue
            bad.append(p)
        ctx.ob(rule, f.site, not bad, "" if not bad else f"parameter(s) {bad} of {f.qualname} are never read: the result no longer "
               "depends on an argument the caller supplies", role="reads-params" + ("" if not bad else ":" + ",".join(bad)),
               line=f.node.lineno)
    return n
