"""optional numeric fields (select, dark_counts, measured values) may legitimately be 0: a test whether they are
present must be an explicit `is None` / `is not None` comparison, never a truthiness test."""
from __future__ import annotations

import ast

from ..cfg import cfg_of
from ..loader import dotted, walk_no_nested


def none_tests(ctx, rule, f, attr_names, what):
    """every `if` / conditional expression of f whose test reads one of attr_names (as attribute or as a local bound
    to it) compares it with None explicitly"""
    local = {p for p in f.params if p in attr_names}
    for n in walk_no_nested(f.node):
        if isinstance(n, ast.Assign) and isinstance(n.value, ast.Attribute) and n.value.attr in attr_names:
            for t in n.targets:
                if isinstance(t, ast.Name):
                    local.add(t.id)
    n_t = 0
    tests = []
    for n in walk_no_nested(f.node):
        if isinstance(n, (ast.If, ast.IfExp, ast.While)):
            tests.append(n.test)
    for t in tests:
        reads = [x for x in ast.walk(t) if (isinstance(x, ast.Attribute) and x.attr in attr_names) or
                 (isinstance(x, ast.Name) and x.id in local)]
        if not reads:
            continue
        for x in reads:
            p = getattr(x, "parent", None)
            # only reads in a truth-value position of the test: the test itself, an operand of not / and / or, or the
            # left side of a comparison - not a value used deeper inside (iteration source, call argument, subscript)
            q, child, truthpos = p, x, True
            while child is not t:
                if isinstance(q, ast.BoolOp) or isinstance(q, ast.UnaryOp) and isinstance(q.op, ast.Not) or \
                        isinstance(q, ast.Compare) and q.left is child and child is x:
                    child, q = q, getattr(q, "parent", None)
                    continue
                truthpos = False
                break
            if not truthpos:
                continue
            n_t += 1
            explicit = isinstance(p, ast.Compare) and len(p.ops) == 1 and isinstance(p.ops[0], (ast.Is, ast.IsNot)) and \
                isinstance(p.comparators[0], ast.Constant) and p.comparators[0].value is None and p.left is x
            # other explicit comparisons (==, in, len()) are not presence tests
            other_cmp = isinstance(p, ast.Compare) and not explicit or isinstance(p, ast.Call)
            if other_cmp:
                n_t -= 1
                continue
            nm = x.attr if isinstance(x, ast.Attribute) else x.id
            ctx.ob(rule, f.site, explicit, "" if explicit else
                   f"`{ast.unparse(t)[:50]}` tests `{nm}` by truthiness: {what} 0 is treated as absent", role=f"none-test:{nm}",
                   line=t.lineno)
    return n_t
