"""C07 - physical states: the symmetry clause (N Hermitian, M symmetric) of the Gaussian simulator."""
from . import common_gauss as G
from . import c06


def rules(ctx):
    G.mirror(ctx, "C07.mirror")
    ctx.floor("C07.mirror", 14)
    # the Schur complement with the noise term is what keeps the conditional covariance physical
    c06.gain(ctx, "C07.gain")
