"""C07 - physical states: the symmetry clause (N Hermitian, M symmetric) of the Gaussian simulator."""
import ast

from ..dataflow import rd_of, resolve_local, return_values, expand_locals
from ..loader import dotted, walk_no_nested
from . import common_gauss as G
from . import c06


def weights_normalised(ctx, rule="C07.weights-normalised"):
    ctx.explain(f"{rule}: every bosonic prepare_* routine that returns (weights, means, covs) normalises the weights as "
                "the LAST modification before each return (the definition of `weights` reaching the return is "
                "`weights /= np.sum(weights)` or `weights = weights / np.sum(weights)`): filtering after the "
                "normalisation leaves weights that do not sum to one.")
    cls = ctx.tree.cls("backends/bosonicbackend/backend.py", "BosonicBackend")
    n = 0
    for name, f in sorted(cls.methods.items()):
        if not name.startswith("prepare_"):
            continue
        rd = rd_of(f.node)
        for nd in rd.cfg.nodes:
            st = nd.ast
            if nd.kind != "stmt" or not isinstance(st, ast.Return) or st.value is None:
                continue
            rv = resolve_local(f.node, st.value, at=nd.id)
            if not isinstance(rv, ast.Tuple) or not rv.elts:
                continue
            w = rv.elts[0]
            if not isinstance(w, ast.Name):
                continue
            ds = [d for d in rd.reaching(w.id, nd.id) if not d.weak]
            if not ds:
                continue
            n += 1

            def is_total(e):
                e = expand_locals(f.node, e, keep={w.id})
                if isinstance(e, ast.Call) and dotted(e.func) in ("np.sum", "sum", "np.add.reduce") and e.args and \
                        dotted(e.args[0]) == w.id:
                    return True
                return isinstance(e, ast.Call) and isinstance(e.func, ast.Attribute) and e.func.attr == "sum" and \
                    dotted(e.func.value) == w.id

            def is_norm(d):
                s_ = d.stmt
                if isinstance(s_, ast.AugAssign) and isinstance(s_.op, ast.Div) and is_total(s_.value):
                    return True
                if isinstance(s_, ast.Assign) and isinstance(s_.value, ast.BinOp) and isinstance(s_.value.op, ast.Div) and \
                        dotted(s_.value.left) == w.id and is_total(s_.value.right):
                    return True
                # a literal single weight [1]
                if isinstance(s_, ast.Assign) and isinstance(s_.value, ast.Call) and dotted(s_.value.func) == "np.array" and \
                        s_.value.args and isinstance(s_.value.args[0], ast.List) and len(s_.value.args[0].elts) == 1:
                    return True
                return False
            bad = [d for d in ds if not is_norm(d)]
            ok = not bad
            ctx.ob(rule, f.site, ok, "" if ok else
                   f"`{ast.unparse(bad[0].stmt)[:50]}` modifies the weights after they were normalised: the returned "
                   "weights do not sum to one", role="last-def", line=st.lineno)
    ctx.require(n >= 4, f"only {n} weight-returning prepare_* returns found")
    ctx.floor(rule, 4)


def kraus_complete(ctx, rule="C07.kraus-complete"):
    ctx.explain(f"{rule}: the loss channel of the Fock backend returns one Kraus operator per Fock level (n in "
                "range(trunc)) on both its branches - dropping one makes the channel trace-decreasing for states "
                "inside the cutoff.")
    f = ctx.tree.func("backends/fockbackend/ops.py", "lossChannel")
    tp = f.pos_params[1]
    rets = return_values(f.node)
    ctx.require(len(rets) >= 1, "lossChannel returns nothing")
    for i, (r, v) in enumerate(rets):
        ok = isinstance(v, ast.ListComp) and len(v.generators) == 1 and not v.generators[0].ifs and \
            isinstance(v.generators[0].iter, ast.Call) and dotted(v.generators[0].iter.func) == "range" and \
            len(v.generators[0].iter.args) == 1 and dotted(v.generators[0].iter.args[0]) == tp
        ctx.ob(rule, f.site, ok, "" if ok else f"`{ast.unparse(v)[:50]}` does not enumerate all {tp} Kraus operators",
               role=f"ret{i}", line=r.lineno)
    ctx.floor(rule, 2)


def hermitian_outer(ctx, rule="C07.hermitian-outer"):
    ctx.explain(f"{rule}: a density matrix built from a ket is |psi><psi| = outer(psi, conj(psi)): in the Fock backend and the "
                "state classes every np.outer(x, y) whose two operands are the same vector has exactly one of them conjugated "
                "(outer(psi, psi) is not Hermitian for a complex ket: complex trace, negative eigenvalues).")
    def strip(e):
        c = 0
        while True:
            if isinstance(e, ast.Call) and isinstance(e.func, ast.Attribute) and e.func.attr in ("conj", "conjugate") and not e.args:
                e, c = e.func.value, c + 1
            elif isinstance(e, ast.Call) and dotted(e.func) in ("np.conj", "np.conjugate") and len(e.args) == 1:
                e, c = e.args[0], c + 1
            else:
                return ast.unparse(e).replace(" ", ""), c
    n = 0
    for rel in ("backends/fockbackend/circuit.py", "backends/fockbackend/ops.py", "backends/fockbackend/backend.py",
                "backends/states.py"):
        for f in ctx.tree.module(rel).functions.values():
            for c in walk_no_nested(f.node):
                if isinstance(c, ast.Call) and dotted(c.func) in ("np.outer", "outer", "numpy.outer") and len(c.args) == 2:
                    (a, ca), (b, cb) = strip(c.args[0]), strip(c.args[1])
                    if a != b:
                        continue
                    n += 1
                    ok = (ca + cb) % 2 == 1
                    ctx.ob(rule, f.site, ok, "" if ok else f"`{ast.unparse(c)[:50]}` builds the projector of `{a}` without a "
                           "conjugate: the density matrix is not Hermitian for a complex ket", role="outer", line=c.lineno)
    ctx.floor(rule, 5)


def rules(ctx):
    G.mirror(ctx, "C07.mirror")
    ctx.floor("C07.mirror", 14)
    # the Schur complement with the noise term is what keeps the conditional covariance physical
    c06.gain(ctx, "C07.gain")
    weights_normalised(ctx)
    kraus_complete(ctx)
    hermitian_outer(ctx)
    # a preparation that does not clear the correlations of its target leaves a covariance that violates the uncertainty relation
    from . import common_backend as B
    B.prep_reset(ctx, "C07.prep-reset")
    ctx.floor("C07.prep-reset", 12)
    from . import common_gauss as _G7, c08 as _c8
    ctx.shared(_G7.footprint, "C07.gauss-footprint")
    ctx.shared(_c8.register_shape, "C07.register-shape")
    from . import c01 as _c01
    ctx.shared(_c01.layout, "C07.fock-layout")
