"""C07 - physical states: the symmetry clause (N Hermitian, M symmetric) of the Gaussian simulator."""
from . import common_gauss as G


def rules(ctx):
    G.mirror(ctx, "C07.mirror")
    ctx.floor("C07.mirror", 14)
