"""A tiny partial evaluator for 'sign law' checks: runs a method body under a finite case split on
boolean flags, with first parameters kept as linear forms over symbols.  Nothing from the repository is
executed: this interprets the AST of the method for a small Python subset and gives up (Unknown) on
anything else.

Used for Gate.merge / Gate.apply: for every combination of dagger flags the *effective* parameter
(sign(dagger) * p[0]) of the result must be the sum of the effective parameters of the operands.
"""
from __future__ import annotations

import ast
from typing import Dict, Optional

from .loader import dotted, strip_docstring


class Unknown(Exception):
    pass


class Lin:
    """integer linear form over symbols"""

    def __init__(self, d=None):
        self.d = {k: v for k, v in (d or {}).items() if v != 0}

    def __add__(self, o):
        o = _lin(o)
        r = dict(self.d)
        for k, v in o.d.items():
            r[k] = r.get(k, 0) + v
        return Lin(r)

    __radd__ = __add__

    def __neg__(self):
        return Lin({k: -v for k, v in self.d.items()})

    def __sub__(self, o):
        return self + (-_lin(o))

    def __rsub__(self, o):
        return _lin(o) - self

    def __mul__(self, o):
        if isinstance(o, int):
            return Lin({k: v * o for k, v in self.d.items()})
        raise Unknown("product of symbols")

    __rmul__ = __mul__

    def __eq__(self, o):
        return isinstance(o, Lin) and self.d == o.d

    def __hash__(self):
        return hash(tuple(sorted(self.d.items())))

    def __repr__(self):
        return "Lin(%r)" % self.d


def _lin(x):
    if isinstance(x, Lin):
        return x
    if isinstance(x, int) and not isinstance(x, bool):
        return Lin({"1": x}) if x else Lin()
    raise Unknown(f"not linear: {x!r}")


class Obj:
    def __init__(self, name, attrs):
        self.name = name
        self.attrs = dict(attrs)

    def copy(self):
        return Obj(self.name + "'", self.attrs)


class Rest:
    """opaque token for p[1:] of an operand (compared equal in the case of interest)"""

    def __init__(self, who):
        self.who = who


class PList:
    def __init__(self, first, rest):
        self.first = first
        self.rest = rest


class Returned(Exception):
    def __init__(self, v):
        self.v = v


class Raised(Exception):
    pass


class Interp:
    def __init__(self, env: Dict[str, object], assume_zero_false=True, calls=None):
        self.env = dict(env)
        self.assume_zero_false = assume_zero_false
        self.calls = calls or {}
        self.trace = []

    def ev(self, n):
        if isinstance(n, ast.Constant):
            return n.value
        if isinstance(n, ast.Name):
            if n.id in self.env:
                return self.env[n.id]
            raise Unknown(f"name {n.id}")
        if isinstance(n, ast.Attribute):
            if n.attr == "__class__":
                return "CLASS"
            o = self.ev(n.value)
            if isinstance(o, Obj):
                if n.attr in o.attrs:
                    return o.attrs[n.attr]
                raise Unknown(f"attribute {n.attr}")
            raise Unknown(f"attribute of {o!r}")
        if isinstance(n, ast.Subscript):
            v = self.ev(n.value)
            if isinstance(v, PList):
                s = n.slice
                if isinstance(s, ast.Constant) and s.value == 0:
                    return v.first
                if isinstance(s, ast.Slice) and isinstance(s.lower, ast.Constant) and s.lower.value == 1 and s.upper is None:
                    return v.rest
            raise Unknown("subscript")
        if isinstance(n, ast.UnaryOp):
            v = self.ev(n.operand)
            if isinstance(n.op, ast.Not):
                if isinstance(v, bool):
                    return not v
                raise Unknown("not of non-bool")
            if isinstance(n.op, ast.USub):
                return -_lin(v)
            if isinstance(n.op, ast.UAdd):
                return v
        if isinstance(n, ast.BinOp):
            a, b = self.ev(n.left), self.ev(n.right)
            if isinstance(n.op, ast.Add):
                if isinstance(a, list) and isinstance(b, Rest):
                    if len(a) != 1:
                        raise Unknown("list shape")
                    return PList(a[0], b)
                return _lin(a) + _lin(b)
            if isinstance(n.op, ast.Sub):
                return _lin(a) - _lin(b)
            if isinstance(n.op, ast.Mult):
                if isinstance(a, int) and not isinstance(a, bool):
                    return _lin(b) * a
                if isinstance(b, int) and not isinstance(b, bool):
                    return _lin(a) * b
            raise Unknown("binop")
        if isinstance(n, ast.List):
            return [self.ev(e) for e in n.elts]
        if isinstance(n, ast.IfExp):
            t = self.ev(n.test)
            if not isinstance(t, bool):
                raise Unknown("ifexp test")
            return self.ev(n.body if t else n.orelse)
        if isinstance(n, ast.BoolOp):
            vals = [self.ev(v) for v in n.values]
            if not all(isinstance(v, bool) for v in vals):
                raise Unknown("boolop")
            return all(vals) if isinstance(n.op, ast.And) else any(vals)
        if isinstance(n, ast.Compare) and len(n.ops) == 1:
            a, b = self.ev(n.left), self.ev(n.comparators[0])
            op = n.ops[0]
            if isinstance(a, bool) and isinstance(b, bool):
                if isinstance(op, (ast.Eq, ast.Is)):
                    return a == b
                if isinstance(op, (ast.NotEq, ast.IsNot)):
                    return a != b
            if a == "CLASS" and b == "CLASS":
                return isinstance(op, (ast.Eq, ast.Is))
            if isinstance(a, Rest) and isinstance(b, Rest):
                return isinstance(op, ast.Eq)
            if isinstance(a, Lin) and b == 0 or isinstance(b, Lin) and a == 0:
                if self.assume_zero_false:
                    return isinstance(op, (ast.NotEq,))
            raise Unknown("compare")
        if isinstance(n, ast.Call):
            cn = dotted(n.func) or ""
            if cn in ("copy.copy", "copy.deepcopy") and n.args:
                v = self.ev(n.args[0])
                if isinstance(v, Obj):
                    return v.copy()
            if cn in ("np.all", "np.any") and n.args:
                return self.ev(n.args[0])
            if cn == "isinstance":
                return True
            if cn in self.calls:
                args = [self.ev(a) for a in n.args if not isinstance(a, ast.Starred)]
                return self.calls[cn](self, args)
            raise Unknown(f"call {cn}")
        raise Unknown(type(n).__name__)

    def run(self, body):
        for st in strip_docstring(body):
            self.stmt(st)

    def stmt(self, st):
        if isinstance(st, ast.Expr):
            if isinstance(st.value, ast.Constant):
                return
            self.ev(st.value)
            return
        if isinstance(st, ast.Assign):
            v = self.ev(st.value)
            for t in st.targets:
                self.assign(t, v)
            return
        if isinstance(st, ast.If):
            t = self.ev(st.test)
            if not isinstance(t, bool):
                raise Unknown("if test")
            for s in (st.body if t else st.orelse):
                self.stmt(s)
            return
        if isinstance(st, ast.Return):
            raise Returned(self.ev(st.value) if st.value is not None else None)
        if isinstance(st, ast.Raise):
            raise Raised()
        if isinstance(st, ast.Try):
            try:
                for s in st.body:
                    self.stmt(s)
            finally:
                for s in st.finalbody:
                    self.stmt(s)
            return
        if isinstance(st, ast.Pass):
            return
        raise Unknown(type(st).__name__)

    def assign(self, t, v):
        if isinstance(t, ast.Name):
            self.env[t.id] = v
            return
        if isinstance(t, ast.Attribute):
            o = self.ev(t.value)
            if isinstance(o, Obj):
                o.attrs[t.attr] = v
                return
        if isinstance(t, ast.Subscript):
            o = self.ev(t.value)
            if isinstance(o, PList) and isinstance(t.slice, ast.Constant) and t.slice.value == 0:
                o.first = v
                self.trace.append(("store-p0", v))
                return
        raise Unknown("assignment target")


def sgn(dagger: bool) -> int:
    return -1 if dagger else 1
